package main

import (
	"fmt"
	"strings"
)

func init() { props["C02"] = checkC02 }

// checkC02: comparator ranges contain exactly what Compare says (single comparator, AND lists,
// OR groups), evaluated on the implementation for every supported comparator spelling and every
// documented separator; plus the R-layer correspondence of every modelled ecosystem with the
// version layer answered by the implementation.
func checkC02(ctx *Ctx) {
	res := ctx.Res
	res.Rule = "per ecosystem (maven has no comparator syntax): bounds = pool members inside the property's scope clause; every supported comparator spelling x every bound x every pool probe: the range must parse and Contains must equal sat(op, Compare(probe, bound)); random AND lists (2-4 constraints, 5% of them 12-40) for every documented AND separator (composer: 30% of the lists mix space and comma, as Composer documents) must equal the conjunction, OR groups (npm, composer, conan; 2-3 groups, 6% of them 8-20) the disjunction; R-layer correspondence (accept, String, Contains) of modelled ecosystems with NewVersion/Compare answered by the implementation. non-trivial = distinct (range text, probe) pairs whose probe differs textually from every bound"
	nPool, nBounds, nAnd := 70, 24, 160
	if !ctx.Quick {
		nPool, nBounds, nAnd = 220, 80, 3000
	}
	distinct := map[string]bool{}
	dist := map[string]any{}
	for _, e := range allEcos {
		syn := cmpSyn[e.Name]
		if syn == nil {
			continue
		}
		r := NewRNG(ctx.Seed, "C02/"+e.Name)
		p, _ := BuildPool(e, r, nPool, corpusVersions(e.Name))
		ss, vs := scopedPool(e, p)
		if len(ss) < 3 {
			res.Notes = append(res.Notes, e.Name+": scoped pool too small")
			continue
		}
		single := syn.Single
		if single == nil {
			single = func(op, a string) string { return op + a }
		}
		nSingle, nTrue := 0, 0
		check := func(kind, rng string, want func(probe any) bool, bounds []any, boundTexts []string) {
			pr := e.ParseRange(rng)
			if !pr.OK {
				v := Violation{Eco: e.Name, Kind: kind + "-rejected", Input: map[string]any{"range": rng}, Expected: "range parses", Actual: "error"}
				if pr.Panic != "" {
					v.Actual = "panic: " + pr.Panic
				}
				res.violate(v)
				return
			}
			for i, pv := range p.Vals {
				got, pan := e.Contains(pr.Val, pv)
				exp := want(pv)
				res.Evaluations++
				if got {
					nTrue++
				}
				isBound := false
				for _, bt := range boundTexts {
					if bt == p.Strs[i] {
						isBound = true
					}
				}
				if !isBound {
					distinct[e.Name+"\x00"+rng+"\x00"+p.Strs[i]] = true
				}
				if pan != "" || got != exp {
					v := Violation{Eco: e.Name, Kind: kind, Input: map[string]any{"range": rng, "probe": p.Strs[i]}, Expected: fmt.Sprint(exp), Actual: fmt.Sprint(got) + pan}
					all := append([]any{pv}, bounds...)
					classifyOrder(e, &v, all...)
					res.violate(v)
				}
			}
		}
		// single comparators
		idx := r.Perm(len(ss))
		if len(idx) > nBounds {
			idx = idx[:nBounds]
		}
		for _, op := range sortedStrs(syn.Ops) {
			canon := syn.Ops[op]
			for _, bi := range idx {
				b, bv := ss[bi], vs[bi]
				rng := single(op, b)
				nSingle++
				check("single-comparator", rng, func(pv any) bool { return satOp(canon, cmpS(e, pv, bv)) }, []any{bv}, []string{b})
				if nSingle == 1 {
					res.sample(map[string]any{"eco": e.Name, "range": rng, "bound": b})
				}
			}
		}
		// AND lists
		// sub: when non-nil, the bounds of the group being built come from these few pool members
		// only (lists whose bounds repeat and tie: ">>1.0, >=2.0, >>2.0" — redundancy elimination
		// and "tightest bound" bookkeeping are decided between equal bounds with different
		// comparators, which independent draws from a large pool never produce)
		var sub []int
		mkCons := func() (string, func(any) bool, any, string) {
			ops := sortedStrs(syn.Ops)
			op := ops[r.Intn(len(ops))]
			bi := r.Intn(len(ss))
			if sub != nil {
				bi = sub[r.Intn(len(sub))]
			}
			b, bv := ss[bi], vs[bi]
			canon := syn.Ops[op]
			return op + b, func(pv any) bool { return satOp(canon, cmpS(e, pv, bv)) }, bv, b
		}
		mkGroup := func(sep string) (string, func(any) bool, []any, []string) {
			k := r.Range(2, 3)
			if r.Chance(15) {
				k = 4
			}
			if r.Chance(5) {
				k = r.Range(12, 40) // long lists: text of several hundred bytes
			}
			sub = nil
			if r.Chance(35) {
				// two or three bounds for the whole list, three to six constraints
				sub = []int{r.Intn(len(ss)), r.Intn(len(ss))}
				if r.Chance(40) {
					sub = append(sub, r.Intn(len(ss)))
				}
				// a Compare-equal respelling of one of them, where the pool has one
				for j := range ss {
					if j != sub[0] && cmpS(e, vs[j], vs[sub[0]]) == 0 {
						sub = append(sub, j)
						break
					}
				}
				k = r.Range(3, 6)
			}
			var texts []string
			var preds []func(any) bool
			var bvs []any
			var bts []string
			for i := 0; i < k; i++ {
				t, f, bv, bt := mkCons()
				texts = append(texts, t)
				preds = append(preds, f)
				bvs = append(bvs, bv)
				bts = append(bts, bt)
			}
			joined := strings.Join(texts, sep)
			if len(syn.And) > 1 && r.Chance(30) && e.Name == "composer" {
				// Composer documents that space and comma may both be used inside one list
				joined = texts[0]
				for _, t := range texts[1:] {
					joined += syn.And[r.Intn(len(syn.And))] + t
				}
			}
			return joined, func(pv any) bool {
				for _, f := range preds {
					if !f(pv) {
						return false
					}
				}
				return true
			}, bvs, bts
		}
		for _, sep := range syn.And {
			for i := 0; i < nAnd/len(syn.And); i++ {
				t, f, bvs, bts := mkGroup(sep)
				check("and-list", t, f, bvs, bts)
			}
		}
		// same-side chains: every sequence of three bounds of ONE side (lower or upper) over two
		// versions v1 < v2 (and a Compare-equal respelling of v2 where the pool has one), strict and
		// inclusive in every order: "tightest bound" bookkeeping must give the intersection whatever
		// the order in which equal bounds with different strictness arrive
		{
			type sideOp struct{ text, canon string }
			var lower, upper []sideOp
			for _, op := range sortedStrs(syn.Ops) {
				switch syn.Ops[op] {
				case ">", ">=":
					lower = append(lower, sideOp{op, syn.Ops[op]})
				case "<", "<=":
					upper = append(upper, sideOp{op, syn.Ops[op]})
				}
			}
			nPairs := 2
			if !ctx.Quick {
				nPairs = 8
			}
			for pi := 0; pi < nPairs && len(ss) >= 2 && len(syn.And) > 0; pi++ {
				i1, i2 := r.Intn(len(ss)), r.Intn(len(ss))
				if cmpS(e, vs[i1], vs[i2]) == 0 {
					continue
				}
				if cmpS(e, vs[i1], vs[i2]) > 0 {
					i1, i2 = i2, i1
				}
				cand := []int{i1, i2}
				for j := range ss {
					if j != i2 && cmpS(e, vs[j], vs[i2]) == 0 && cmpS(e, vs[i2], vs[j]) == 0 {
						cand = append(cand, j)
						break
					}
				}
				for _, side := range [][]sideOp{lower, upper} {
					if len(side) == 0 {
						continue
					}
					type atom struct {
						op sideOp
						bi int
					}
					var atoms []atom
					for _, o := range side {
						for _, bi := range cand {
							atoms = append(atoms, atom{o, bi})
						}
					}
					sep := syn.And[r.Intn(len(syn.And))]
					for a := range atoms {
						for b := range atoms {
							for c := range atoms {
								if (a*31+b*7+c+pi)%3 != 0 && len(atoms) > 4 {
									continue // a third of the sequences per pair when there are many
								}
								tri := []atom{atoms[a], atoms[b], atoms[c]}
								var texts []string
								var bvs []any
								var bts []string
								for _, x := range tri {
									texts = append(texts, x.op.text+ss[x.bi])
									bvs = append(bvs, vs[x.bi])
									bts = append(bts, ss[x.bi])
								}
								tri2 := tri
								check("and-list", strings.Join(texts, sep), func(pv any) bool {
									for _, x := range tri2 {
										if !satOp(x.op.canon, cmpS(e, pv, vs[x.bi])) {
											return false
										}
									}
									return true
								}, bvs, bts)
							}
						}
					}
				}
			}
		}
		for _, osep := range syn.Or {
			for i := 0; i < nAnd/(2*len(syn.Or)); i++ {
				ng := r.Range(2, 3)
				if r.Chance(6) {
					ng = r.Range(8, 20)
				}
				var texts []string
				var preds []func(any) bool
				var bvs []any
				var bts []string
				for g := 0; g < ng; g++ {
					var t string
					var f func(any) bool
					var gb []any
					var gt []string
					if r.Chance(50) {
						var bv any
						var bt string
						t, f, bv, bt = mkCons()
						gb, gt = []any{bv}, []string{bt}
					} else {
						t, f, gb, gt = mkGroup(syn.And[r.Intn(len(syn.And))])
					}
					texts = append(texts, t)
					preds = append(preds, f)
					bvs = append(bvs, gb...)
					bts = append(bts, gt...)
				}
				check("or-groups", strings.Join(texts, osep), func(pv any) bool {
					for _, f := range preds {
						if f(pv) {
							return true
						}
					}
					return false
				}, bvs, bts)
			}
		}
		dist[e.Name] = map[string]int{"pool": len(p.Strs), "bounds_in_scope": len(ss), "single_ranges": nSingle, "contains_true": nTrue}
		exh := 0
		nGen := 600
		if !ctx.Quick {
			exh, nGen = 4, 6000
		}
		corrR(ctx, e, nGen, exh, 8)
	}
	res.DistinctNontrivial = len(distinct)
	res.Distribution["per_ecosystem"] = dist
}

// Perm: a permutation of 0..n-1 from the run's PRNG.
func (r *RNG) Perm(n int) []int {
	p := make([]int, n)
	for i := range p {
		p[i] = i
	}
	for i := n - 1; i > 0; i-- {
		j := r.Intn(i + 1)
		p[i], p[j] = p[j], p[i]
	}
	return p
}
