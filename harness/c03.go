package main

import (
	"fmt"
	"strings"
)

func init() { props["C03"] = checkC03 }

// numeric shape of each ecosystem's plain dotted versions
type numShape struct {
	Arities []int  // component counts the ecosystem accepts
	Prefix  string // e.g. "v" is not needed; kept empty unless the grammar requires one
	// markers: templates applied to the dotted text; %k = a number
	Pre  []string
	Post []string
	// component counts to which markers can be appended (nil: all of Arities)
	MarkArities []int
}

var boundarySet = []string{"0", "1", "2", "9", "10", "11", "99", "100", "999", "1000", "65535", "2147483647"}

var numShapes = map[string]*numShape{
	"alpine": {Arities: []int{1, 2, 3, 4, 5}, Pre: []string{"_alpha", "_alpha%k", "_beta%k", "_pre%k", "_rc%k", "_rc"},
		Post: []string{"_p%k", "_p", "-r%K", "_git%k", "_svn%k", "_cvs%k", "_hg%k", "a"}},
	"alpm":   {Arities: []int{1, 2, 3, 4, 5}},
	"apache": {Arities: []int{3}, Pre: []string{"-alpha", "-alpha%k", "-beta%k", "-M%k", "-milestone%k", "-RC%k", "-rc%k", "-SNAPSHOT", "-dev"}},
	"cargo":  {Arities: []int{3}, Pre: []string{"-alpha", "-alpha.%k", "-rc.%k", "-rc%k", "-0", "-beta"}},
	"composer": {Arities: []int{1, 2, 3, 4}, Pre: []string{"-alpha", "-alpha%k", "-alpha.%k", "-beta%k", "-RC%k", "-rc%k", "-a%k", "-b%k", "-dev", "alpha%k", "beta%k", "RC%k", "a%k", "b%k", "rc%k"},
		Post: []string{"-patch%K", "pl%K"}},
	"conan":  {Arities: []int{1, 2, 3, 4, 5}, Pre: []string{"-alpha", "-rc.%k", "-pre%k", "-beta"}},
	"cran":   {Arities: []int{2, 3, 4, 5}},
	"debian": {Arities: []int{1, 2, 3, 4, 5}, Pre: []string{"~rc%k", "~alpha", "~beta%k", "~"}, Post: []string{"-%K", "+b%k", "+dfsg", "-0ubuntu%K"}},
	"gem":    {Arities: []int{1, 2, 3, 4, 5}, Pre: []string{"-alpha", "-rc%k", ".rc%k", ".pre%k", ".beta%k", "-beta.%k", ".a%k"}},
	"gentoo": {Arities: []int{1, 2, 3, 4, 5}, Pre: []string{"_alpha", "_alpha%k", "_beta%k", "_pre%k", "_rc%k"}, Post: []string{"_p%k", "_p", "-r%K", "a"}},
	"github": {Arities: []int{3}, Pre: []string{"-alpha", "-alpha.%k", "-rc%k", "-rc.%k", ".rc%k", "-beta", "-dev"}},
	"golang": {Arities: []int{3}, Prefix: "v", Pre: []string{"-alpha", "-rc.%k", "-rc%k", "-0", "-beta.%k"}},
	"hex":    {Arities: []int{2, 3}, MarkArities: []int{3}, Pre: []string{"-alpha", "-alpha.%k", "-rc.%k", "-rc%k", "-0"}},
	"mattermost": {Arities: []int{3}, Pre: []string{"-rc%k", "-rc"}},
	"maven": {Arities: []int{1, 2, 3, 4, 5}, Pre: []string{"-alpha-%k", "-beta-%k", "-milestone-%k", "-rc-%k", "-cr-%k", "-SNAPSHOT", "-a%k", "-b%k", "-m%k", "-alpha%k", "-RC%k", ".rc%k", "-rc.%k", "-alpha"},
		Post: []string{"-sp", "-sp-%K", "-sp%K"}},
	"npm":    {Arities: []int{3}, Pre: []string{"-alpha", "-alpha.%k", "-rc.%k", "-rc%k", "-0"}},
	"nuget":  {Arities: []int{1, 2, 3, 4}, Pre: []string{"-alpha", "-alpha.%k", "-rc.%k", "-rc%k", "-0"}},
	"pypi":   {Arities: []int{1, 2, 3, 4, 5}, Pre: []string{"a%k", "b%k", "rc%k", "c%k", "alpha%k", "beta%k", ".dev%k", ".a%k", ".rc%k", "dev%k"}, Post: []string{".post%k", "post%k", ".rev%k", ".r%k"}},
	"rpm":    {Arities: []int{1, 2, 3, 4, 5}, Pre: []string{"~rc%k", "~alpha", "~beta%k"}, Post: []string{"-%K"}},
	"semver": {Arities: []int{3}, Pre: []string{"-alpha", "-alpha.%k", "-rc.%k", "-rc%k", "-0"}},
}

// sweepSet: 2^k-1, 2^k, 2^k+1 for k = 1..30 and 10^k-1, 10^k, 10^k+1 for k = 1..9, below 2^31
var sweepSet = func() []int64 {
	seen := map[int64]bool{}
	var out []int64
	add := func(x int64) {
		if x >= 0 && x < 1<<31 && !seen[x] {
			seen[x] = true
			out = append(out, x)
		}
	}
	for k := uint(1); k <= 31; k++ {
		for d := int64(-1); d <= 1; d++ {
			add(int64(1)<<k + d)
		}
	}
	p := int64(1)
	for k := 1; k <= 9; k++ {
		p *= 10
		for d := int64(-1); d <= 1; d++ {
			add(p + d)
		}
	}
	return out
}()

func tupleCmp(a, b []string) int {
	for i := range a {
		if c := natCmp(a[i], b[i]); c != 0 {
			return c
		}
	}
	return 0
}

// natCmp: decimal strings without leading zeros
func natCmp(a, b string) int {
	if len(a) != len(b) {
		if len(a) < len(b) {
			return -1
		}
		return 1
	}
	return strings.Compare(a, b)
}

func checkC03(ctx *Ctx) {
	res := ctx.Res
	res.Rule = "per ecosystem and per component count it accepts: tuples over the boundary set {0,1,2,9,10,11,99,100,999,1000,65535,2^31-1} plus random values below 2^31, plus a deterministic sweep of every 2^k-1, 2^k, 2^k+1 (k<=30) and 10^k-1, 10^k, 10^k+1 (k<=9) at every position against its neighbours, 0 and the carry tuple (no leading zeros; github first component kept below 1000 so that the text is not date-shaped): both texts must be accepted and Compare must equal the lexicographic comparison of the integer tuples; every pre-release spelling template of the ecosystem appended to a tuple text must compare < the bare text, every post-release/revision template >. non-trivial = distinct pairs of different tuples, plus distinct (tuple, marker) cases"
	nPairs, nMark := 1500, 40
	if !ctx.Quick {
		nPairs, nMark = 40000, 600
	}
	dist := map[string]any{}
	distinct := map[string]bool{}
	for _, e := range allEcos {
		sh := numShapes[e.Name]
		if sh == nil {
			res.Notes = append(res.Notes, e.Name+": no numeric shape table")
			continue
		}
		r := NewRNG(ctx.Seed, "C03/"+e.Name)
		comp := func(pos int) string {
			var s string
			if r.Chance(75) {
				s = r.Pick(boundarySet)
			} else {
				s = fmt.Sprint(r.Intn(1 << 31))
			}
			if e.Name == "github" && pos == 0 && len(s) >= 4 {
				s = fmt.Sprint(r.Intn(1000))
			}
			return s
		}
		mk := func(n int) []string {
			t := make([]string, n)
			for i := range t {
				t[i] = comp(i)
			}
			return t
		}
		text := func(t []string) string { return sh.Prefix + strings.Join(t, ".") }
		nT, nM, nSweep, nUse := 0, 0, 0, 0
		for _, n := range sh.Arities {
			for it := 0; it < nPairs/len(sh.Arities); it++ {
				t1 := mk(n)
				t2 := mk(n)
				// close neighbours: share a prefix most of the time
				if r.Chance(70) {
					k := r.Intn(n)
					copy(t2[:k], t1[:k])
				}
				if r.Chance(10) {
					copy(t2, t1)
				}
				s1, s2 := text(t1), text(t2)
				p1, p2 := e.Parse(s1), e.Parse(s2)
				res.Evaluations++
				if !p1.OK || !p2.OK {
					bad := s1
					if p1.OK {
						bad = s2
					}
					res.violate(Violation{Eco: e.Name, Kind: "numeric-rejected", Input: bad, Expected: fmt.Sprintf("accepted (%d components)", n), Actual: "error"})
					continue
				}
				want := tupleCmp(t1, t2)
				got := cmpS(e, p1.Val, p2.Val)
				if want != 0 {
					distinct[e.Name+"\x00"+s1+"\x00"+s2] = true
				}
				nT++
				if got != want {
					res.violate(Violation{Eco: e.Name, Kind: "numeric-order", Input: []string{s1, s2}, Expected: fmt.Sprint(want), Actual: fmt.Sprint(got)})
				}
				if nT == 1 {
					res.sample(map[string]any{"eco": e.Name, "a": s1, "b": s2, "expected": want, "impl": got})
				}
			}
			// deterministic sweep of word boundaries: every 2^k-1, 2^k, 2^k+1 (k = 1..30) and
			// 10^k-1, 10^k, 10^k+1 (k = 1..9) below 2^31 at every position, against its
			// neighbours, 0, and the "carry" tuple (previous component + 1, this one 0)
			for pos := 0; pos < n; pos++ {
				for _, B := range sweepSet {
					if e.Name == "github" && pos == 0 && B >= 1000 {
						continue
					}
					t1 := make([]string, n)
					for i := range t1 {
						t1[i] = []string{"0", "1", "2", "9"}[(i+int(B))%4]
					}
					t1[0] = []string{"1", "2", "9"}[int(B)%3]
					t1[pos] = fmt.Sprint(B)
					var partners [][]string
					for _, d := range []int64{-1, 1} {
						if x := B + d; x >= 0 && x < 1<<31 && !(e.Name == "github" && pos == 0 && x >= 1000) {
							t2 := append([]string{}, t1...)
							t2[pos] = fmt.Sprint(x)
							partners = append(partners, t2)
						}
					}
					t0 := append([]string{}, t1...)
					t0[pos] = "0"
					partners = append(partners, t0)
					if pos > 0 {
						tc := append([]string{}, t1...)
						var prev int64
						fmt.Sscan(t1[pos-1], &prev)
						tc[pos-1] = fmt.Sprint(prev + 1)
						tc[pos] = "0"
						partners = append(partners, tc)
					}
					s1 := text(t1)
					p1 := e.Parse(s1)
					if !p1.OK {
						res.violate(Violation{Eco: e.Name, Kind: "numeric-rejected", Input: s1, Expected: fmt.Sprintf("accepted (%d components)", n), Actual: "error"})
						continue
					}
					for _, t2 := range partners {
						s2 := text(t2)
						p2 := e.Parse(s2)
						res.Evaluations++
						if !p2.OK {
							res.violate(Violation{Eco: e.Name, Kind: "numeric-rejected", Input: s2, Expected: fmt.Sprintf("accepted (%d components)", n), Actual: "error"})
							continue
						}
						want := tupleCmp(t1, t2)
						nSweep++
						if got := cmpS(e, p1.Val, p2.Val); got != want {
							res.violate(Violation{Eco: e.Name, Kind: "numeric-order", Input: []string{s1, s2}, Expected: fmt.Sprint(want), Actual: fmt.Sprint(got)})
						}
						if got := cmpS(e, p2.Val, p1.Val); got != -want {
							res.violate(Violation{Eco: e.Name, Kind: "numeric-order", Input: []string{s2, s1}, Expected: fmt.Sprint(-want), Actual: fmt.Sprint(got)})
						}
					}
				}
			}
			// markers
			if sh.MarkArities != nil {
				ok := false
				for _, m := range sh.MarkArities {
					if m == n {
						ok = true
					}
				}
				if !ok {
					continue
				}
			}
			for _, kind := range []string{"pre", "post"} {
				tpls := sh.Pre
				if kind == "post" {
					tpls = sh.Post
				}
				for _, tpl := range tpls {
					for it := 0; it < nMark/len(sh.Arities)+1; it++ {
						t := mk(n)
						base := text(t)
						k := r.Pick([]string{"0", "1", "2", "9", "10", "11", "99"})
						K := r.Pick([]string{"1", "2", "9", "10", "11"})
						m := strings.ReplaceAll(strings.ReplaceAll(tpl, "%k", k), "%K", K)
						marked := base + m
						pb, pm := e.Parse(base), e.Parse(marked)
						res.Evaluations++
						if !pb.OK {
							continue // reported above
						}
						if !pm.OK {
							res.violate(Violation{Eco: e.Name, Kind: kind + "-marker-rejected", Input: marked, Expected: "accepted", Actual: "error"})
							continue
						}
						want := -1
						if kind == "post" {
							want = 1
						}
						got := cmpS(e, pm.Val, pb.Val)
						back := cmpS(e, pb.Val, pm.Val)
						nM++
						distinct[e.Name+"\x00m\x00"+marked] = true
						if got != want || back != -want {
							v := Violation{Eco: e.Name, Kind: kind + "-marker-order", Input: []string{marked, base}, Expected: fmt.Sprint(want), Actual: fmt.Sprint(got)}
							if f := findingFor("C03", e.Name, v.Kind, "", []string{marked, base, tpl}); f != "" {
								v.Finding = f
							}
							res.violate(v)
						} else if it%3 == 0 && e.ParseRange != nil {
							// the same two VALUES after they have been used: printed, and tested
							// against ranges written around the base (comparators and every shorthand
							// of the ecosystem, on the base and on longer spellings of it).  A version
							// that has been looked at is still that version.
							var used []string
							bases := []string{base, base + ".1", base + ".0.1", text(mk(n)), marked}
							var rngs []string
							if syn := rangeSyn[e.Name]; syn != nil {
								for _, b := range bases {
									for _, f := range syn.Short {
										rngs = append(rngs, f(r, b))
									}
									for _, op := range []string{">=", "<"} {
										for _, so := range syn.Ops {
											if so == op {
												rngs = append(rngs, op+b)
											}
										}
									}
								}
							}
							for _, k := range r.Perm(len(rngs)) {
								if len(used) >= 6 {
									break
								}
								if pr := e.ParseRange(rngs[k]); pr.OK {
									e.Contains(pr.Val, pm.Val)
									e.Contains(pr.Val, pb.Val)
									used = append(used, rngs[k])
								}
							}
							e.Str(pm.Val)
							e.Str(pb.Val)
							got2, back2 := cmpS(e, pm.Val, pb.Val), cmpS(e, pb.Val, pm.Val)
							nUse++
							if got2 != want || back2 != -want {
								res.violate(Violation{Eco: e.Name, Kind: kind + "-marker-order/after-use", Input: map[string]any{"marked": marked, "base": base, "then_contains_of": used},
									Expected: fmt.Sprintf("%d (as before the calls)", want), Actual: fmt.Sprint(got2)})
							}
						}
					}
				}
			}
		}
		dist[e.Name] = map[string]int{"tuple_pairs": nT, "marker_cases": nM, "marker_cases_after_use": nUse, "boundary_sweep_pairs": nSweep}
	}
	res.DistinctNontrivial = len(distinct)
	res.Distribution["per_ecosystem"] = dist
	// V-layer correspondence of the modelled ecosystems on the same kind of inputs
	for _, e := range allEcos {
		if ctx.MEcos[e.Name] {
			corrV(ctx, e, 400, 0)
		}
	}
}
