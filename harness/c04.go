package main

import (
	"fmt"
	"strings"
)

func init() {
	props["C04"] = checkC04
	props["C16"] = checkC16
	props["C17"] = checkC17
}

// corrVers compares vers.Contains of implementation and model (lower layers answered by the
// implementation) on (range, probe) cases.
func corrVers(ctx *Ctx, stream string, cases [][2]string) {
	if ctx.Pool == nil || len(cases) == 0 {
		return
	}
	res := ctx.Res
	reqs := make([]string, 0, len(cases))
	keep := make([]int, 0, len(cases))
	skipped := 0
	for i, c := range cases {
		if !isASCII(c[0]) || !isASCII(c[1]) {
			continue
		}
		if !versCaseConsistent(c[0], c[1]) {
			// the model sorts with insertion sort, Go with pdqsort: they agree for every total
			// preorder, and may differ when Compare is not transitive on the versions involved
			// (maven, recorded finding F-maven-order-cycle; C01 reports any other ecosystem)
			skipped++
			continue
		}
		reqs = append(reqs, "XC O "+hx(c[0])+" "+hx(c[1]))
		keep = append(keep, i)
	}
	// the same calls made by several goroutines at once must give the same answers (concur.go)
	concurrentRecheck(ctx, "vers", stream, len(cases),
		func(i int) string { return vresString(versContains(cases[i][0], cases[i][1])) },
		func(i int) any { return []string{cases[i][0], cases[i][1]} })
	ans, err := ctx.Pool.Map(reqs)
	if err != nil {
		res.Notes = append(res.Notes, "model error: "+err.Error())
		return
	}
	st := res.stream(stream)
	if skipped > 0 {
		res.Notes = append(res.Notes, fmt.Sprintf("%s: %d cases skipped (versions not in one linear preorder)", stream, skipped))
	}
	for k, a := range ans {
		c := cases[keep[k]]
		impl := vresString(versContains(c[0], c[1]))
		st.Cases++
		if impl != a {
			res.disagree(Disagreement{Stream: stream, Eco: "vers", Request: reqs[k], Input: []string{c[0], c[1]}, Impl: impl, Model: a})
		}
	}
}

func schemePool(ctx *Ctx, scheme string, tag string, n int) (*Eco, *Pool, []string, []any) {
	e := ecoByName(schemeEco[scheme])
	r := NewRNG(ctx.Seed, tag+"/"+scheme)
	p, _ := BuildPool(e, r, n, corpusVersions(e.Name))
	vs, vals := distinctSorted(e, p, scheme)
	return e, p, vs, vals
}

func checkC04(ctx *Ctx) {
	res := ctx.Res
	iters := 500
	if !ctx.Quick {
		iters = 6000
	}
	res.Rule = "per scheme: pool of accepted in-scope versions, pairwise non-equivalent, sorted by the implementation; every iteration draws a valid comparator shape (optional leading upper bound, lower/upper pairs, optional trailing lower bound, '=' points, '!=' exclusions) over 1..8 of them, shuffles the constraints, and probes with the bounds, their neighbours, random pool members and other spellings of the bounds that the ecosystem calls equal to them; vers.Contains is compared with the union-of-intervals statement evaluated with the implementation's Compare, and with the VERS model (lower layers answered by the implementation). non-trivial = distinct (range, probe) cases with at least one bound constraint"
	shapes := map[string]int{}
	distinct := map[string]bool{}
	for _, scheme := range schemeNames {
		e, p, vs, vals := schemePool(ctx, scheme, "C04", 140)
		if len(vs) < 3 {
			res.Notes = append(res.Notes, scheme+": pool too small")
			continue
		}
		r := NewRNG(ctx.Seed, "C04/iter/"+scheme)
		var cases [][2]string
		// star
		for i := 0; i < 10 && i < len(p.Strs); i++ {
			pr := p.Strs[r.Intn(len(p.Strs))]
			ok, isErr, pan := versContains("vers:"+scheme+"/*", pr)
			res.Evaluations++
			if pan != "" || isErr || !ok {
				res.violate(Violation{Eco: scheme, Kind: "star", Input: []string{"vers:" + scheme + "/*", pr}, Expected: "t", Actual: vresString(ok, isErr, pan)})
			}
			cases = append(cases, [2]string{"vers:" + scheme + "/*", pr})
		}
		for it := 0; it < iters; it++ {
			k := r.Range(1, 8)
			if r.Chance(25) {
				k = 1
			}
			cs := genShape(r, vs, vals, k)
			// the shape is only valid if the chosen versions really ascend pairwise (a pool whose
			// order is not transitive — maven — cannot be sorted globally)
			asc := true
			for a := 0; a < len(cs) && asc; a++ {
				for b := a + 1; b < len(cs); b++ {
					if cmpS(e, cs[a].v, cs[b].v) >= 0 || cmpS(e, cs[b].v, cs[a].v) <= 0 {
						asc = false
						break
					}
				}
			}
			if !asc {
				continue
			}
			twinned := false
			if it%4 == 1 {
				cs, twinned = addTwin(r, e, scheme, cs)
			}
			rng := renderVers(r, scheme, cs, true)
			key := ""
			for _, c := range cs {
				key += c.op
			}
			shapes[fmt.Sprint(len(cs))]++
			// probes: bounds, neighbours, random
			probeIdx := map[int]bool{}
			for _, c := range cs {
				for i, s := range vs {
					if s == c.s {
						probeIdx[i] = true
						if i > 0 {
							probeIdx[i-1] = true
						}
						if i+1 < len(vs) {
							probeIdx[i+1] = true
						}
					}
				}
			}
			probeIdx[r.Intn(len(vs))] = true
			probeIdx[0] = true
			probeIdx[len(vs)-1] = true
			// other spellings of the bounds: texts the ecosystem calls equal to a bound (trailing
			// zeros, build metadata / local labels, prefix, case) are in a point or an interval
			// exactly when the bound is
			type probeT struct {
				s string
				v any
			}
			var probes []probeT
			for i := range probeIdx {
				probes = append(probes, probeT{vs[i], vals[i]})
			}
			if twinned {
				shapes["twin"]++
				for _, c := range cs {
					probes = append(probes, probeT{c.s, c.v})
				}
			}
			if it%3 == 0 {
				for _, c := range cs {
					nv := 0
					for _, x := range spellingVariants(r, e.Name, c.s) {
						if nv >= 2 || !isASCII(x) || !boundOK(scheme, x) {
							continue
						}
						if px := e.Parse(x); px.OK && cmpS(e, px.Val, c.v) == 0 && cmpS(e, c.v, px.Val) == 0 {
							probes = append(probes, probeT{x, px.Val})
							nv++
						}
					}
				}
			}
			// probes that carry build metadata / a local label made of the words and shapes that
			// pre-release detection looks for (1.5.0+g1a2b3c4, +1.a1, +7.rc1): a label is opaque
			if it%2 == 0 {
				base := probes[r.Intn(len(probes))]
				for _, x := range markerMetadata(r, base.s) {
					if px := e.Parse(x); px.OK && isASCII(x) && strings.TrimSpace(x) == x {
						probes = append(probes, probeT{x, px.Val})
					}
				}
			}
			for _, pb := range probes {
				want := unionSpec(e, scheme, cs, pb.v)
				ok, isErr, pan := versContains(rng, pb.s)
				res.Evaluations++
				hasBound := strings.ContainsAny(key, "<>")
				if hasBound {
					distinct[rng+"\x00"+pb.s] = true
				}
				got := vresString(ok, isErr, pan)
				exp := "f"
				if want {
					exp = "t"
				}
				if got != exp {
					v := Violation{Eco: scheme, Kind: "union-of-intervals", Input: map[string]any{"range": rng, "probe": pb.s, "sorted_constraints": fmtCons(cs)}, Expected: exp, Actual: got}
					all := []any{pb.v}
					for _, c := range cs {
						all = append(all, c.v)
					}
					classifyOrder(e, &v, all...)
					res.violate(v)
				}
				if len(cases) < 40000 {
					cases = append(cases, [2]string{rng, pb.s})
				}
				if it == 0 {
					res.sample(map[string]any{"range": rng, "probe": pb.s, "expected": exp, "impl": got})
				}
			}
		}
		corrVers(ctx, "VERS.union/"+scheme, cases)
	}
	nCross := crossSchemeStream(ctx, "union-of-intervals/cross-scheme-sequence")
	res.Distribution["cross_scheme_cases"] = nCross
	res.DistinctNontrivial = len(distinct)
	res.Distribution["constraints_per_range"] = shapes
}

// ---------- cross-scheme call sequences ----------

// crossSchemeStream: the SAME constraint text evaluated under every scheme in turn, in rotating
// order, within this one process — a result must depend on the scheme named in the range only,
// never on which scheme saw that text before (call history, shared caches).  Used by C04 (the
// result is the union of intervals), C16 (the result depends on the set of constraints only)
// and C17 (each scheme is decided by its own ecosystem).
func crossSchemeStream(ctx *Ctx, kind string) int {
	res := ctx.Res
	common := []string{"0.9.0", "1.0.0", "1.0.0-1", "1.0.0-alpha", "1.0.0-beta", "1.0.0-rc1", "1.5.0", "2.0.0", "2.0.0-1", "1.0", "1.0-1", "10.0.0", "1.0.0a1", "1.0.0.1"}
	nCross := 0
	for round := 0; round < 1; round++ {
		for i, a := range common {
			for j, b := range common {
				if i == j {
					continue
				}
				for _, shape := range [][2]string{{">=", "<="}, {"<", ">="}} {
					text := shape[0] + a + "|" + shape[1] + b
					for k := range schemeNames {
						scheme := schemeNames[(k+round*4+i)%len(schemeNames)]
						e := ecoByName(schemeEco[scheme])
						pa, pb := e.Parse(a), e.Parse(b)
						if !pa.OK || !pb.OK {
							// a bound this scheme's ecosystem rejects: the call must report an error, whatever
							// other schemes made of the same text before
							pr := common[(i+j)%len(common)]
							ok, isErr, pan := versContains("vers:"+scheme+"/"+text, pr)
							res.Evaluations++
							nCross++
							if got := vresString(ok, isErr, pan); got != "e" {
								res.violate(Violation{Eco: scheme, Kind: kind, Input: map[string]any{"range": "vers:" + scheme + "/" + text, "probe": pr, "note": "a bound is not a version of this scheme; same constraint text evaluated under other schemes earlier in this process"}, Expected: "e", Actual: got})
							}
							continue
						}
						if !boundOK(scheme, a) || !boundOK(scheme, b) || cmpS(e, pa.Val, pb.Val) == 0 {
							continue
						}
						cs := []vcons{{shape[0], a, pa.Val}, {shape[1], b, pb.Val}}
						if cmpS(e, pa.Val, pb.Val) > 0 {
							cs = []vcons{cs[1], cs[0]}
						}
						// valid shape only: (upper, lower) = two rays, (lower, upper) = one interval
						for _, pr := range common {
							pp := e.Parse(pr)
							if !pp.OK {
								continue
							}
							if !consistentSet(e, []any{pa.Val, pb.Val, pp.Val}) {
								continue
							}
							want := unionSpec(e, scheme, cs, pp.Val)
							ok, isErr, pan := versContains("vers:"+scheme+"/"+text, pr)
							res.Evaluations++
							nCross++
							exp := "f"
							if want {
								exp = "t"
							}
							if got := vresString(ok, isErr, pan); got != exp {
								res.violate(Violation{Eco: scheme, Kind: kind, Input: map[string]any{"range": "vers:" + scheme + "/" + text, "probe": pr, "note": "same constraint text evaluated under other schemes earlier in this process"}, Expected: exp, Actual: got})
							}
						}
					}
				}
			}
		}
	}
	return nCross
}

// ---------- C16 ----------

func permute(r *RNG, xs []string) []string {
	out := append([]string{}, xs...)
	for i := len(out) - 1; i > 0; i-- {
		j := r.Intn(i + 1)
		out[i], out[j] = out[j], out[i]
	}
	return out
}

func spaceOut(r *RNG, s string) string {
	var b strings.Builder
	for i := 0; i < len(s); i++ {
		if r.Chance(20) {
			b.WriteString(r.Pick([]string{" ", "  "}))
		}
		b.WriteByte(s[i])
	}
	if r.Chance(30) {
		b.WriteString(" ")
	}
	return b.String()
}

func allPerms(xs []string) [][]string {
	if len(xs) <= 1 {
		return [][]string{append([]string{}, xs...)}
	}
	var out [][]string
	for i := range xs {
		rest := append(append([]string{}, xs[:i]...), xs[i+1:]...)
		for _, p := range allPerms(rest) {
			out = append(out, append([]string{xs[i]}, p...))
		}
	}
	return out
}

func checkC16(ctx *Ctx) {
	res := ctx.Res
	iters := 120
	if !ctx.Quick {
		iters = 1500
	}
	res.Rule = "per scheme: VERS ranges over pairwise non-equivalent in-scope versions (valid alternating shapes and arbitrary operator sequences) that the implementation accepts without error; variants: every permutation (<=5 constraints, sampled beyond), whitespace inserted at random positions of the constraint part, repeated constraints, empty constraints; result and error status compared with the base range for every probe, and with the VERS model. non-trivial = distinct (variant, probe) cases whose variant text differs from the base"
	distinct := map[string]bool{}
	kinds := map[string]int{}
	for _, scheme := range schemeNames {
		_, _, vs, vals := schemePool(ctx, scheme, "C16", 100)
		if len(vs) < 3 {
			continue
		}
		r := NewRNG(ctx.Seed, "C16/iter/"+scheme)
		var cases [][2]string
		for it := 0; it < iters; it++ {
			k := r.Range(1, 6)
			var cs []vcons
			if r.Chance(70) {
				cs = genShape(r, vs, vals, k)
			} else { // arbitrary operator sequence (still distinct versions)
				cs = genShape(r, vs, vals, k)
				for i := range cs {
					cs[i].op = r.Pick([]string{">=", "<=", ">", "<", "=", "!="})
				}
			}
			// the property's precondition (VERS uniqueness rule): pairwise non-equivalent versions
			e16 := ecoByName(schemeEco[scheme])
			uniq := true
			for a := 0; a < len(cs) && uniq; a++ {
				for b := a + 1; b < len(cs); b++ {
					if cmpS(e16, cs[a].v, cs[b].v) == 0 || cmpS(e16, cs[b].v, cs[a].v) == 0 {
						uniq = false
						break
					}
				}
			}
			if !uniq {
				continue
			}
			if it%4 == 1 {
				var tw bool
				if cs, tw = addTwin(r, e16, scheme, cs); tw {
					kinds["twin"]++
				}
			}
			parts := fmtCons(cs)
			base := "vers:" + scheme + "/" + strings.Join(parts, "|")
			var probes []string
			for _, c := range cs {
				probes = append(probes, c.s)
			}
			for j := 0; j < 3; j++ {
				probes = append(probes, vs[r.Intn(len(vs))])
			}
			// also an invalid probe: the error status must be stable too
			probes = append(probes, "!!not-a-version!!")
			var variants []string
			if len(parts) <= 5 && (ctx.Quick == false || len(parts) <= 4) {
				for _, p := range allPerms(parts) {
					variants = append(variants, "vers:"+scheme+"/"+strings.Join(p, "|"))
					kinds["perm"]++
				}
			} else {
				for j := 0; j < 6; j++ {
					variants = append(variants, "vers:"+scheme+"/"+strings.Join(permute(r, parts), "|"))
					kinds["perm"]++
				}
			}
			for j := 0; j < 3; j++ {
				variants = append(variants, "vers:"+scheme+"/"+spaceOut(r, strings.Join(parts, "|")))
				kinds["space"]++
			}
			dup := append(append([]string{}, parts...), parts[r.Intn(len(parts))])
			variants = append(variants, "vers:"+scheme+"/"+strings.Join(permute(r, dup), "|"))
			kinds["dup"]++
			emp := append(append([]string{}, parts...), r.Pick([]string{"", " ", "  "}))
			variants = append(variants, "vers:"+scheme+"/"+strings.Join(permute(r, emp), "|"))
			variants = append(variants, "vers:"+scheme+"/"+"|"+strings.Join(parts, "||")+"|")
			kinds["empty"] += 2
			for _, pr := range probes {
				bok, berr, bpan := versContains(base, pr)
				bs := vresString(bok, berr, bpan)
				if pr != "!!not-a-version!!" && berr {
					// the property quantifies over ranges accepted without error
					continue
				}
				for _, v := range variants {
					ok, isErr, pan := versContains(v, pr)
					res.Evaluations++
					if v != base {
						distinct[v+"\x00"+pr] = true
					}
					if got := vresString(ok, isErr, pan); got != bs {
						vi := Violation{Eco: scheme, Kind: "variant-changes-result", Input: map[string]any{"base": base, "variant": v, "probe": pr}, Expected: bs, Actual: got}
						var all []any
						for _, c := range cs {
							all = append(all, c.v)
						}
						if pp := e16.Parse(pr); pp.OK {
							all = append(all, pp.Val)
						}
						classifyOrder(e16, &vi, all...)
						res.violate(vi)
					}
					if len(cases) < 15000 {
						cases = append(cases, [2]string{v, pr})
					}
				}
				if it == 0 && pr == probes[0] {
					res.sample(map[string]any{"base": base, "variants": variants[:min(4, len(variants))], "probe": pr, "result": bs})
				}
			}
		}
		corrVers(ctx, "VERS.variants/"+scheme, cases)
	}
	res.Distribution["cross_scheme_cases"] = crossSchemeStream(ctx, "result-depends-on-earlier-calls/cross-scheme-sequence")
	res.DistinctNontrivial = len(distinct)
	res.Distribution["variant_kinds"] = kinds
}

// ---------- C17 ----------

func checkC17(ctx *Ctx) {
	res := ctx.Res
	res.Rule = "malformations of valid VERS ranges, one class at a time (prefix, slash, scheme characters, unsupported and near-miss scheme names, no constraint, missing comparator or version, non-printable and non-ASCII bytes, misplaced star, invalid bound, invalid probe): must yield (false, error); routing: for every scheme, single-comparator ranges whose bound and probe come from the pools of ALL ecosystems must behave exactly as that scheme's ecosystem dictates (error iff it rejects bound or probe, else the comparator applied to its Compare); plus random single-point corruptions compared with the VERS model. non-trivial = distinct malformed ranges + distinct routing cases where two ecosystems disagree on acceptance or order"
	distinct := map[string]bool{}
	classes := map[string]int{}
	mustErr := func(scheme, class, rng, probe string) {
		ok, isErr, pan := versContains(rng, probe)
		res.Evaluations++
		classes[class]++
		distinct[rng+"\x00"+probe] = true
		if got := vresString(ok, isErr, pan); got != "e" {
			res.violate(Violation{Eco: scheme, Kind: "malformed-accepted/" + class, Input: []string{rng, probe}, Expected: "e", Actual: got})
		}
	}
	nearMiss := []string{"debian", "semver", "go", "pip", "rubygems", "npmx", "generi", "Npm", "NPM", "mvn", "composer", "conan", "cran", "hex", "github", "alpm", "apache", "gentoo", "mattermost", "np m", "npm ", " npm", "deb1", "0", "x"}
	// pools of every ecosystem, for routing
	type pv struct {
		eco string
		s   string
	}
	var foreign []pv
	for _, e := range allEcos {
		r := NewRNG(ctx.Seed, "C17/foreign/"+e.Name)
		n := 14
		if !ctx.Quick {
			n = 40
		}
		p, _ := BuildPool(e, r, n, corpusVersions(e.Name))
		for _, s := range p.Strs {
			foreign = append(foreign, pv{e.Name, s})
		}
	}
	for _, s := range []string{"1.0~rc1", "1.0.0-alpha", "1:2.0", "v1.2.3", "1.0", "1", "1.0.0.0", "1.0-1", "1.0_p1", "1.0rc1", "2.0.0-rc.1", "1.0.0+build"} {
		foreign = append(foreign, pv{"seed", s})
	}
	routing := 0
	for _, scheme := range schemeNames {
		e, p, vs, _ := schemePool(ctx, scheme, "C17", 80)
		if len(vs) < 3 {
			continue
		}
		r := NewRNG(ctx.Seed, "C17/iter/"+scheme)
		var cases [][2]string
		n := 12
		if !ctx.Quick {
			n = 80
		}
		for it := 0; it < n; it++ {
			a, b := vs[r.Intn(len(vs))], vs[r.Intn(len(vs))]
			probe := vs[r.Intn(len(vs))]
			cons := ">=" + a + "|<" + b
			good := "vers:" + scheme + "/" + cons
			mustErr(scheme, "no-prefix", scheme+"/"+cons, probe)
			mustErr(scheme, "no-prefix", "ver:"+scheme+"/"+cons, probe)
			mustErr(scheme, "no-prefix", "Vers:"+scheme+"/"+cons, probe)
			mustErr(scheme, "no-prefix", "VERS:"+scheme+"/"+cons, probe)
			mustErr(scheme, "no-prefix", " vers:"+scheme+"/"+cons, probe)
			mustErr(scheme, "no-prefix", "vers"+scheme+"/"+cons, probe)
			mustErr(scheme, "no-slash", "vers:"+scheme+cons, probe)
			mustErr(scheme, "no-slash", "vers:"+scheme, probe)
			mustErr(scheme, "empty-scheme", "vers:/"+cons, probe)
			mustErr(scheme, "bad-scheme-char", "vers:"+strings.ToUpper(scheme)+"/"+cons, probe)
			mustErr(scheme, "bad-scheme-char", "vers:"+scheme+"-x/"+cons, probe)
			mustErr(scheme, "bad-scheme-char", "vers:"+scheme[:1]+"_"+scheme[1:]+"/"+cons, probe)
			mustErr(scheme, "unsupported-scheme", "vers:"+r.Pick(nearMiss)+"/"+cons, probe)
			mustErr(scheme, "unsupported-scheme", "vers:"+scheme+"x/"+cons, probe)
			mustErr(scheme, "unsupported-scheme", "vers:"+scheme[:len(scheme)-1]+"/"+cons, probe)
			mustErr(scheme, "no-constraint", "vers:"+scheme+"/", probe)
			mustErr(scheme, "no-constraint", "vers:"+scheme+"/|", probe)
			mustErr(scheme, "no-constraint", "vers:"+scheme+"/ | ", probe)
			mustErr(scheme, "no-comparator", "vers:"+scheme+"/"+a, probe)
			mustErr(scheme, "no-comparator", "vers:"+scheme+"/>="+a+"|"+b, probe)
			mustErr(scheme, "no-version", "vers:"+scheme+"/>=", probe)
			mustErr(scheme, "no-version", "vers:"+scheme+"/>="+a+"|<", probe)
			mustErr(scheme, "no-version", "vers:"+scheme+"/"+r.Pick([]string{">", "<", "=", "!=", "<=", "> ", "=  "}), probe)
			bad := []byte(good)
			pos := 5 + r.Intn(len(bad)-5)
			nb := append(append(append([]byte{}, bad[:pos]...), []byte(r.Pick([]string{"\x00", "\x01", "\t", "\n", "\x7f", "\x80", "\xc3\xa9", "\xff", "\x1f"}))...), bad[pos:]...)
			mustErr(scheme, "non-printable", string(nb), probe)
			mustErr(scheme, "misplaced-star", "vers:"+scheme+"/*|"+cons, probe)
			mustErr(scheme, "misplaced-star", "vers:"+scheme+"/"+cons+"|*", probe)
			mustErr(scheme, "misplaced-star", "vers:"+scheme+"/*|*", probe)
			mustErr(scheme, "misplaced-star", "vers:"+scheme+"/>="+a+"| * ", probe)
			mustErr(scheme, "bad-bound", "vers:"+scheme+"/>=!!bad!!|<"+b, probe)
			mustErr(scheme, "bad-bound", "vers:"+scheme+"/>="+a+"|!=??", probe)
			// a rejected version in ONE constraint of a longer range, at every position, next to a
			// valid constraint with the same comparator (also as a case variant of that one), with
			// probes that equal each listed version: validation must not depend on where the bad
			// constraint stands, on what precedes it, or on which constraint the probe meets first
			{
				k := 2 + r.Intn(3)
				var txt []string
				var cons []string
				opsAll := []string{">=", "<", "!=", "=", "<=", ">"}
				for i := 0; i < k; i++ {
					v := vs[r.Intn(len(vs))]
					txt = append(txt, v)
					cons = append(cons, opsAll[r.Intn(len(opsAll))]+v)
				}
				if r.Chance(50) {
					// several exclusions in a row
					for i := range cons {
						cons[i] = "!=" + txt[i]
					}
				}
				flip := func(s string) string {
					b := []byte(s)
					for i, c := range b {
						if c >= 'a' && c <= 'z' {
							b[i] = c - 32
						} else if c >= 'A' && c <= 'Z' {
							b[i] = c + 32
						}
					}
					return string(b)
				}
				for pos := 0; pos <= k; pos++ {
					nb := txt[(pos+k-1)%k] // the version of the constraint before the insertion point
					nbCons := cons[(pos+k-1)%k]
					nbOp := strings.TrimRight(nbCons[:2], "0123456789vV")
					if !strings.HasPrefix(nbCons, nbOp) || nbOp == "" {
						nbOp = ">="
					}
					for _, badv := range []string{"?bad?", flip(nb), "V" + strings.TrimLeft(nb, "vV"), nb + "@", foreign[r.Intn(len(foreign))].s} {
						if badv == "" || strings.ContainsAny(badv, "| \t\n*") || !isASCII(badv) || e.Parse(badv).OK || strings.ContainsAny(badv[:1], "<>=!") {
							continue
						}
						for _, op := range []string{nbOp, opsAll[r.Intn(len(opsAll))]} {
							cs2 := append(append(append([]string{}, cons[:pos]...), op+badv), cons[pos:]...)
							rng := "vers:" + scheme + "/" + strings.Join(cs2, "|")
							mustErr(scheme, "bad-bound-among-valid", rng, txt[r.Intn(k)])
							mustErr(scheme, "bad-bound-among-valid", rng, nb)
							mustErr(scheme, "bad-bound-among-valid", rng, probe)
						}
					}
				}
			}
			mustErr(scheme, "bad-probe", good, "!!bad!!")
			mustErr(scheme, "bad-probe", good, "")
			if it == 0 {
				res.sample(map[string]any{"scheme": scheme, "valid": good, "malformed_example": string(nb)})
			}
			// random single-point corruptions: model correspondence only
			for j := 0; j < 6; j++ {
				cases = append(cases, [2]string{mutate(r, good), probe})
			}
			cases = append(cases, [2]string{good, probe})
		}
		// routing
		nr := 250
		if !ctx.Quick {
			nr = 3000
		}
		ops := []string{">=", "<=", ">", "<", "=", "!="}
		for it := 0; it < nr; it++ {
			bf := foreign[r.Intn(len(foreign))]
			pf := foreign[r.Intn(len(foreign))]
			if r.Chance(40) {
				pf = pv{e.Name, p.Strs[r.Intn(len(p.Strs))]}
			}
			if r.Chance(40) {
				bf = pv{e.Name, p.Strs[r.Intn(len(p.Strs))]}
			}
			bound, probe := bf.s, pf.s
			if !boundOK(scheme, bound) || !isASCII(probe) || strings.TrimSpace(probe) != probe || bound == "*" {
				continue
			}
			op := ops[r.Intn(len(ops))]
			rng := "vers:" + scheme + "/" + op + bound
			bp := e.Parse(bound)
			pp := e.Parse(probe)
			exp := "e"
			if bp.OK && pp.OK {
				c, _ := e.Compare(pp.Val, bp.Val)
				c = sign(c)
				sat := map[string]bool{">=": c >= 0, "<=": c <= 0, ">": c > 0, "<": c < 0, "=": c == 0, "!=": c != 0}[op]
				if scheme == "pypi" && pypiIsPre(pp.Val) && !pypiIsPre(bp.Val) {
					if strings.Contains(bound, "+") {
						// the gate scans the constraint TEXT for pre-release markers, and a local
						// label may spell one (1.0+a.c): whether such a constraint "names a
						// pre-release" is not part of C17 (nor of PEP 440) — not claimed
						continue
					}
					sat = false
				}
				exp = "f"
				if sat {
					exp = "t"
				}
			}
			ok, isErr, pan := versContains(rng, probe)
			res.Evaluations++
			// non-trivial routing case: the foreign ecosystem would answer differently
			if bf.eco != e.Name || pf.eco != e.Name {
				routing++
				distinct[rng+"\x00"+probe] = true
			}
			if got := vresString(ok, isErr, pan); got != exp {
				res.violate(Violation{Eco: scheme, Kind: "routing", Input: map[string]any{"range": rng, "probe": probe, "bound_from": bf.eco, "probe_from": pf.eco, "ecosystem": e.Name}, Expected: exp, Actual: got})
			}
			if len(cases) < 12000 {
				cases = append(cases, [2]string{rng, probe})
			}
		}
		corrVers(ctx, "VERS.validate/"+scheme, cases)
	}
	res.Distribution["cross_scheme_cases"] = crossSchemeStream(ctx, "routing/cross-scheme-sequence")
	res.DistinctNontrivial = len(distinct)
	res.Distribution["malformation_classes"] = classes
	res.Distribution["routing_cases_with_foreign_text"] = routing
}

// versCaseConsistent: the constraint versions of a VERS range text and the probe, as far as they
// parse in the scheme's ecosystem, lie in one linear preorder.
func versCaseConsistent(rng, probe string) bool {
	if !strings.HasPrefix(rng, "vers:") {
		return true
	}
	rest := rng[5:]
	i := strings.IndexByte(rest, '/')
	if i < 0 {
		return true
	}
	eco, ok := schemeEco[rest[:i]]
	if !ok {
		return true
	}
	e := ecoByName(eco)
	var vals []any
	for _, c := range strings.Split(rest[i+1:], "|") {
		c = strings.Join(strings.Fields(c), "")
		c = strings.TrimLeft(c, "<>=!")
		if p := e.Parse(c); p.OK {
			vals = append(vals, p.Val)
		}
	}
	if p := e.Parse(probe); p.OK {
		vals = append(vals, p.Val)
	}
	if len(vals) > 12 {
		vals = vals[:12]
	}
	return consistentSet(e, vals)
}

// addTwin: for one '=' or '!=' constraint of an ascending constraint list, another constraint with
// the same comparator on a text that is a respelling of its version (prefix v, case, trailing
// zeros, separators: spellingVariants) which the ecosystem does NOT call equal to it.  The list
// stays pairwise non-equivalent and ascending (the twin is inserted at its place in the order).
// Bookkeeping keyed on a normalised text (duplicate elimination, caches) is decided on such twins.
func addTwin(r *RNG, e *Eco, scheme string, cs []vcons) ([]vcons, bool) {
	var cand []int
	for i, c := range cs {
		if c.op == "=" || c.op == "!=" {
			cand = append(cand, i)
		}
	}
	if len(cand) == 0 {
		return cs, false
	}
	c := cs[cand[r.Intn(len(cand))]]
	xs := spellingVariants(r, e.Name, c.s)
	for _, k := range r.Perm(len(xs)) {
		x := xs[k]
		if !isASCII(x) || !boundOK(scheme, x) || strings.TrimSpace(x) != x {
			continue
		}
		px := e.Parse(x)
		if !px.OK {
			continue
		}
		ok, pos := true, len(cs)
		for i, d := range cs {
			a, b := cmpS(e, px.Val, d.v), cmpS(e, d.v, px.Val)
			if a == 0 || b == 0 || (a < 0) != (b > 0) {
				ok = false
				break
			}
			if a < 0 && pos == len(cs) {
				pos = i
			}
			if a > 0 && pos != len(cs) {
				ok = false // not transitive here
				break
			}
		}
		if !ok {
			continue
		}
		out := append(append(append([]vcons{}, cs[:pos]...), vcons{c.op, x, px.Val}), cs[pos:]...)
		return out, true
	}
	return cs, false
}
