package main

import (
	"fmt"
	"strings"
)

func init() { props["C05"] = checkC05 }

// shCase: one shorthand range with the interval its ecosystem documents for it, the bounds
// being written as version texts of that ecosystem ("" = unbounded on that side).
type shCase struct {
	Construct      string
	Rng            string
	Lo, Hi         string
	LoIncl, HiIncl bool
	Complement     bool // the documented set is the complement of the interval (pypi !=X.*)
}

type shEco struct {
	// Gen draws a case; bases come from r
	Gen []func(r *RNG) shCase
	// Pre: spellings that turn a release text into one of its pre-releases (for probes)
	Pre []string
	// Arity: component counts of probe versions
	Arity []int
	// ProbeOK: restriction of probes stated by the property (composer: stable; pypi: final/post)
	ProbeOK func(s string, v any) bool
	// HiPreSkip: pre-releases of the upper bound are not claimed (the documented bound is
	// written without a pre-release floor and the ecosystem's own tool treats them specially)
	HiPreSkip bool
	// LoPreSkip: same for pre-releases of the lower bound of wildcard forms
	LoPreSkip bool
	Prefix    string
}

var baseNums = []int{0, 0, 1, 1, 2, 3, 9, 10}

func dots(prefix string, c ...int) string {
	p := make([]string, len(c))
	for i, x := range c {
		p[i] = fmt.Sprint(x)
	}
	return prefix + strings.Join(p, ".")
}

func pick3(r *RNG) (int, int, int) {
	return baseNums[r.Intn(len(baseNums))], baseNums[r.Intn(len(baseNums))], baseNums[r.Intn(len(baseNums))]
}

func pickN(r *RNG, n int) []int {
	c := make([]int, n)
	for i := range c {
		c[i] = baseNums[r.Intn(len(baseNums))]
	}
	return c
}

// bumpDrop: drop the last component and increment the new last one (gem ~>, pypi ~=)
func bumpDrop(c []int) []int {
	h := append([]int{}, c[:len(c)-1]...)
	h[len(h)-1]++
	return h
}

// caretHi: upper bound of a SemVer-style caret on X.Y.Z
func caretHi(x, y, z int) (int, int, int) {
	if x > 0 {
		return x + 1, 0, 0
	}
	if y > 0 {
		return 0, y + 1, 0
	}
	return 0, 0, z + 1
}

func semverCaretTilde(floor string, partial bool, wild []string, hyphen bool) []func(r *RNG) shCase {
	g := []func(r *RNG) shCase{
		func(r *RNG) shCase {
			x, y, z := pick3(r)
			a, b, c := caretHi(x, y, z)
			return shCase{"^X.Y.Z", "^" + dots("", x, y, z), dots("", x, y, z), dots("", a, b, c) + floor, true, false, false}
		},
		func(r *RNG) shCase {
			x, y, z := pick3(r)
			a, b, c := caretHi(x, y, z)
			pre := r.Pick([]string{"-alpha", "-alpha.2", "-rc.1", "-beta"})
			return shCase{"^X.Y.Z-pre", "^" + dots("", x, y, z) + pre, dots("", x, y, z) + pre, dots("", a, b, c) + floor, true, false, false}
		},
		func(r *RNG) shCase {
			x, y, z := pick3(r)
			return shCase{"~X.Y.Z", "~" + dots("", x, y, z), dots("", x, y, z), dots("", x, y+1, 0) + floor, true, false, false}
		},
		func(r *RNG) shCase {
			x, y, z := pick3(r)
			pre := r.Pick([]string{"-alpha", "-rc.1"})
			return shCase{"~X.Y.Z-pre", "~" + dots("", x, y, z) + pre, dots("", x, y, z) + pre, dots("", x, y+1, 0) + floor, true, false, false}
		},
	}
	if partial {
		g = append(g,
			func(r *RNG) shCase {
				x, y, _ := pick3(r)
				a, b, c := 0, 0, 0
				if x > 0 {
					a = x + 1
				} else {
					b = y + 1
				}
				_ = c
				return shCase{"^X.Y", "^" + dots("", x, y), dots("", x, y, 0), dots("", a, b, 0) + floor, true, false, false}
			},
			func(r *RNG) shCase {
				x, _, _ := pick3(r)
				return shCase{"^X", "^" + dots("", x), dots("", x, 0, 0), dots("", x+1, 0, 0) + floor, true, false, false}
			},
			func(r *RNG) shCase {
				x, y, _ := pick3(r)
				return shCase{"~X.Y", "~" + dots("", x, y), dots("", x, y, 0), dots("", x, y+1, 0) + floor, true, false, false}
			},
			func(r *RNG) shCase {
				x, _, _ := pick3(r)
				return shCase{"~X", "~" + dots("", x), dots("", x, 0, 0), dots("", x+1, 0, 0) + floor, true, false, false}
			})
	}
	for _, w := range wild {
		w := w
		g = append(g,
			func(r *RNG) shCase {
				x, _, _ := pick3(r)
				return shCase{"X." + w, fmt.Sprintf("%d.%s", x, w), dots("", x, 0, 0), dots("", x+1, 0, 0) + floor, true, false, false}
			},
			func(r *RNG) shCase {
				x, y, _ := pick3(r)
				return shCase{"X.Y." + w, fmt.Sprintf("%d.%d.%s", x, y, w), dots("", x, y, 0), dots("", x, y+1, 0) + floor, true, false, false}
			})
	}
	g = append(g, func(r *RNG) shCase { return shCase{"*", "*", dots("", 0, 0, 0), "", true, true, false} })
	if hyphen {
		g = append(g, func(r *RNG) shCase {
			x, y, z := pick3(r)
			a, b, c := pick3(r)
			return shCase{"A - B", dots("", x, y, z) + " - " + dots("", a, b, c), dots("", x, y, z), dots("", a, b, c), true, true, false}
		})
	}
	return g
}

func brackets(prefix string, openLower bool) []func(r *RNG) shCase {
	v := func(r *RNG) string {
		x, y, z := pick3(r)
		switch r.Intn(3) {
		case 0:
			return dots(prefix, x, y)
		case 1:
			return dots(prefix, x, y, z)
		}
		return dots(prefix, x)
	}
	return []func(r *RNG) shCase{
		func(r *RNG) shCase { a, b := v(r), v(r); return shCase{"[A,B]", "[" + a + "," + b + "]", a, b, true, true, false} },
		func(r *RNG) shCase { a, b := v(r), v(r); return shCase{"(A,B)", "(" + a + "," + b + ")", a, b, false, false, false} },
		func(r *RNG) shCase { a, b := v(r), v(r); return shCase{"[A,B)", "[" + a + "," + b + ")", a, b, true, false, false} },
		func(r *RNG) shCase { a, b := v(r), v(r); return shCase{"(A,B]", "(" + a + "," + b + "]", a, b, false, true, false} },
		func(r *RNG) shCase { a := v(r); return shCase{"[A,)", "[" + a + ",)", a, "", true, false, false} },
		func(r *RNG) shCase { a := v(r); return shCase{"(A,)", "(" + a + ",)", a, "", false, false, false} },
		func(r *RNG) shCase { b := v(r); return shCase{"(,B]", "(," + b + "]", "", b, false, true, false} },
		func(r *RNG) shCase { b := v(r); return shCase{"(,B)", "(," + b + ")", "", b, false, false, false} },
		func(r *RNG) shCase { a := v(r); return shCase{"[A]", "[" + a + "]", a, a, true, true, false} },
	}
}

var shEcos = map[string]*shEco{
	"npm":   {Gen: semverCaretTilde("-0", true, []string{"x", "X"}, true), Pre: []string{"-alpha", "-0", "-rc.1"}, Arity: []int{3}, LoPreSkip: true},
	"cargo": {Gen: semverCaretTilde("", true, []string{"*"}, false), Pre: []string{"-alpha", "-0", "-rc.1"}, Arity: []int{3}, HiPreSkip: true, LoPreSkip: true},
	"composer": {Gen: append(semverCaretTilde("", false, []string{"*", "x"}, true),
		func(r *RNG) shCase {
			x, y, _ := pick3(r)
			a, b := 0, 0
			if x > 0 {
				a = x + 1
			} else {
				b = y + 1
			}
			return shCase{"^X.Y", "^" + dots("", x, y), dots("", x, y, 0), dots("", a, b, 0), true, false, false}
		},
		func(r *RNG) shCase {
			x, y, _ := pick3(r)
			return shCase{"~X.Y", "~" + dots("", x, y), dots("", x, y, 0), dots("", x+1, 0, 0), true, false, false}
		},
		func(r *RNG) shCase {
			x, _, _ := pick3(r)
			return shCase{"~X", "~" + dots("", x), dots("", x, 0, 0), dots("", x+1, 0, 0), true, false, false}
		}),
		Pre: []string{"-alpha", "-beta1", "-RC1"}, Arity: []int{1, 2, 3},
		ProbeOK: func(s string, v any) bool {
			st, ok := intField(v, "stability")
			dev, _ := boolField(v, "isDev")
			return ok && st == 4 && !dev
		}},
	"conan": {Gen: []func(r *RNG) shCase{
		func(r *RNG) shCase {
			x, y, z := pick3(r)
			return shCase{"~X.Y.Z", "~" + dots("", x, y, z), dots("", x, y, z), dots("", x, y+1), true, false, false}
		},
		func(r *RNG) shCase {
			x, y, _ := pick3(r)
			return shCase{"~X.Y", "~" + dots("", x, y), dots("", x, y), dots("", x, y+1), true, false, false}
		},
		func(r *RNG) shCase {
			x, _, _ := pick3(r)
			return shCase{"~X", "~" + dots("", x), dots("", x), dots("", x+1), true, false, false}
		},
		func(r *RNG) shCase {
			x, y, z := pick3(r)
			if x == 0 && y == 0 && z == 0 {
				z = 2
			}
			a, b, c := caretHi(x, y, z)
			return shCase{"^X.Y.Z", "^" + dots("", x, y, z), dots("", x, y, z), dots("", a, b, c), true, false, false}
		},
		func(r *RNG) shCase {
			x, y, _ := pick3(r)
			if x == 0 && y == 0 {
				y = 1 // an all-zero base is not documented by Conan (its own implementation fails on it)
			}
			a, b := 0, 0
			if x > 0 {
				a = x + 1
			} else {
				b = y + 1
			}
			return shCase{"^X.Y", "^" + dots("", x, y), dots("", x, y), dots("", a, b), true, false, false}
		},
		func(r *RNG) shCase {
			x, _, _ := pick3(r)
			if x == 0 {
				x = 1
			}
			return shCase{"^X", "^" + dots("", x), dots("", x), dots("", x+1), true, false, false}
		},
	}, Pre: []string{"-alpha", "-rc.1"}, Arity: []int{1, 2, 3, 4}, HiPreSkip: true},
	"gem": {Gen: []func(r *RNG) shCase{
		func(r *RNG) shCase {
			x, y, z := pick3(r)
			return shCase{"~>X.Y.Z", "~>" + r.Pick([]string{"", " "}) + dots("", x, y, z), dots("", x, y, z), dots("", x, y+1), true, false, false}
		},
		func(r *RNG) shCase {
			x, y, _ := pick3(r)
			return shCase{"~>X.Y", "~>" + r.Pick([]string{"", " "}) + dots("", x, y), dots("", x, y), dots("", x+1), true, false, false}
		},
		func(r *RNG) shCase {
			x, _, _ := pick3(r)
			return shCase{"~>X", "~>" + dots("", x), dots("", x), dots("", x+1), true, false, false}
		},
		func(r *RNG) shCase {
			x, y, z := pick3(r)
			w := baseNums[r.Intn(len(baseNums))]
			return shCase{"~>X.Y.Z.W", "~>" + dots("", x, y, z, w), dots("", x, y, z, w), dots("", x, y, z+1), true, false, false}
		},
		// bases of five to seven segments: "drop the last segment, bump the new last one" holds at
		// every length
		func(r *RNG) shCase {
			c := pickN(r, r.Range(5, 7))
			return shCase{"~>X.Y.Z.W.V...", "~>" + dots("", c...), dots("", c...), dots("", bumpDrop(c)...), true, false, false}
		},
	}, Pre: []string{".rc1", "-alpha", ".pre"}, Arity: []int{1, 2, 3, 4}, HiPreSkip: true},
	"hex": {Gen: []func(r *RNG) shCase{
		func(r *RNG) shCase {
			x, y, z := pick3(r)
			return shCase{"~>X.Y.Z", "~>" + dots("", x, y, z), dots("", x, y, z), dots("", x, y+1, 0), true, false, false}
		},
		func(r *RNG) shCase {
			x, y, z := pick3(r)
			pre := r.Pick([]string{"-rc.1", "-alpha"})
			return shCase{"~>X.Y.Z-pre", "~>" + dots("", x, y, z) + pre, dots("", x, y, z) + pre, dots("", x, y+1, 0), true, false, false}
		},
		func(r *RNG) shCase {
			x, y, _ := pick3(r)
			return shCase{"~>X.Y", "~>" + dots("", x, y), dots("", x, y, 0), dots("", x+1, 0, 0), true, false, false}
		},
	}, Pre: []string{"-alpha", "-0", "-rc.1"}, Arity: []int{3}, HiPreSkip: true},
	"pypi": {Gen: []func(r *RNG) shCase{
		func(r *RNG) shCase {
			x, y, _ := pick3(r)
			return shCase{"~=X.Y", "~=" + dots("", x, y), dots("", x, y), dots("", x+1, 0), true, false, false}
		},
		func(r *RNG) shCase {
			x, y, z := pick3(r)
			return shCase{"~=X.Y.Z", "~=" + dots("", x, y, z), dots("", x, y, z), dots("", x, y+1, 0), true, false, false}
		},
		func(r *RNG) shCase {
			x, y, z := pick3(r)
			w := baseNums[r.Intn(len(baseNums))]
			return shCase{"~=X.Y.Z.W", "~=" + dots("", x, y, z, w), dots("", x, y, z, w), dots("", x, y, z+1, 0), true, false, false}
		},
		func(r *RNG) shCase {
			x, y, z := pick3(r)
			return shCase{"~=N!X.Y", "~=" + fmt.Sprint(z+1) + "!" + dots("", x, y), fmt.Sprint(z+1) + "!" + dots("", x, y), fmt.Sprint(z+1) + "!" + dots("", x+1, 0), true, false, false}
		},
		func(r *RNG) shCase {
			x, _, _ := pick3(r)
			return shCase{"==X.*", "==" + dots("", x) + ".*", dots("", x), dots("", x+1), true, false, false}
		},
		func(r *RNG) shCase {
			x, y, _ := pick3(r)
			return shCase{"==X.Y.*", "==" + dots("", x, y) + ".*", dots("", x, y), dots("", x, y+1), true, false, false}
		},
		func(r *RNG) shCase {
			x, y, z := pick3(r)
			return shCase{"==X.Y.Z.*", "==" + dots("", x, y, z) + ".*", dots("", x, y, z), dots("", x, y, z+1), true, false, false}
		},
		func(r *RNG) shCase {
			x, y, _ := pick3(r)
			return shCase{"!=X.Y.*", "!=" + dots("", x, y) + ".*", dots("", x, y), dots("", x, y+1), true, false, true}
		},
		func(r *RNG) shCase {
			x, _, _ := pick3(r)
			return shCase{"!=X.*", "!=" + dots("", x) + ".*", dots("", x), dots("", x+1), true, false, true}
		},
		// a base with a suffix segment (post, dev, pre-release): PEP 440 takes the prefix from the
		// release segments only ("~=2.2.post3" is ">=2.2.post3, ==2.*")
		func(r *RNG) shCase {
			c := pickN(r, r.Range(2, 4))
			suf := r.Pick([]string{".post3", ".post0", ".dev1", "rc1", ".rc2", "a1", "b2", ".post1.dev2"})
			lo := dots("", c...) + suf
			return shCase{"~=X.Y...<suffix>", "~=" + lo, lo, dots("", append(bumpDrop(c), 0)...), true, false, false}
		},
		// long release tuples: the same rules at five and six segments
		func(r *RNG) shCase {
			c := pickN(r, r.Range(5, 6))
			return shCase{"~=X.Y.Z.W.V...", "~=" + dots("", c...), dots("", c...), dots("", append(bumpDrop(c), 0)...), true, false, false}
		},
		func(r *RNG) shCase {
			c := pickN(r, r.Range(4, 6))
			hi := append([]int{}, c...)
			hi[len(hi)-1]++
			return shCase{"==X.Y.Z.W....*", "==" + dots("", c...) + ".*", dots("", c...), dots("", hi...), true, false, false}
		},
		func(r *RNG) shCase {
			c := pickN(r, r.Range(3, 5))
			hi := append([]int{}, c...)
			hi[len(hi)-1]++
			return shCase{"!=X.Y.Z....*", "!=" + dots("", c...) + ".*", dots("", c...), dots("", hi...), true, false, true}
		},
	}, Pre: []string{".post1", ".post2"}, Arity: []int{1, 2, 3, 4},
		ProbeOK: func(s string, v any) bool { return !pypiIsPre(v) }},
	"nuget": {Gen: brackets("", true), Pre: []string{"-alpha", "-rc.1"}, Arity: []int{1, 2, 3, 4}},
	"maven": {Gen: brackets("", true), Pre: []string{"-alpha-1", "-rc1", "-SNAPSHOT"}, Arity: []int{1, 2, 3}},
}

// ecosystems whose version grammar has build metadata that the order ignores
var c05MetaEcos = map[string]bool{"npm": true, "cargo": true, "composer": true, "hex": true}

// ecosystems whose pre-release tag is an arbitrary SemVer identifier list
var c05TagEcos = map[string]bool{"npm": true, "cargo": true, "hex": true}

func checkC05(ctx *Ctx) {
	res := ctx.Res
	res.Rule = "per ecosystem and per documented shorthand construct (caret, tilde, ~>, ~=, wildcard/x-range, hyphen, brackets; base arities X / X.Y / X.Y.Z / with pre-release; bases over {0,1,2,3,9,10} so that 0.x and 0.0.x occur): the range must parse, and for every probe Contains must equal membership in the documented interval, decided by the implementation's Compare against the interval's bounds written as versions; probes = a grid of numeric versions over {0,1,2,3,4,9,10,11} in the ecosystem's arities, each also with the ecosystem's pre-release spellings, plus the bounds themselves and the textual neighbours of the base (one byte shorter/longer, one more identifier); half of the pre-release bases take their tag from a wider vocabulary (-hotfix, -rc.x, -LINUX, ...), 15% of the full (X.Y.Z) caret/tilde bases carry build metadata. Probe restrictions of the property: composer stable only, pypi final/post only; where the documented upper (resp. wildcard lower) bound carries no pre-release floor, pre-releases of that bound are not claimed. non-trivial = distinct (range, probe) with the probe between one component below the lower and one above the upper bound"
	nCases := 60
	if !ctx.Quick {
		nCases = 1200
	}
	dist := map[string]any{}
	distinct := map[string]bool{}
	grid := []int{0, 1, 2, 3, 4, 9, 10, 11}
	for _, name := range []string{"npm", "cargo", "composer", "conan", "gem", "hex", "pypi", "nuget", "maven"} {
		e := ecoByName(name)
		se := shEcos[name]
		r := NewRNG(ctx.Seed, "C05/"+name)
		// probe grid
		var pstr []string
		var pval []any
		addProbe := func(s string) {
			p := e.Parse(s)
			if p.OK && (se.ProbeOK == nil || se.ProbeOK(s, p.Val)) {
				pstr = append(pstr, s)
				pval = append(pval, p.Val)
			}
		}
		for _, ar := range se.Arity {
			var rec func(c []int)
			rec = func(c []int) {
				if len(c) == ar {
					b := dots(se.Prefix, c...)
					addProbe(b)
					for _, pre := range se.Pre {
						addProbe(b + pre)
					}
					return
				}
				g := grid
				if len(c) >= 2 {
					g = []int{0, 1, 3, 10}
				}
				if len(c) >= 3 || (ar >= 4 && len(c) >= 1) {
					g = []int{0, 2}
				}
				for _, x := range g {
					rec(append(append([]int{}, c...), x))
				}
			}
			rec(nil)
		}
		perConstruct := map[string]int{}
		rejected := map[string]bool{}
		for _, gen := range se.Gen {
			for it := 0; it < nCases; it++ {
				c := gen(r)
				// other spellings of the same documented interval: (i) a pre-release base with a tag
				// from a wider vocabulary (tags that end in x, X, a digit, an upper-case word: a tag is
				// an opaque identifier list), (ii) build metadata on the base of a caret/tilde form
				// (ignored by the order, so the interval is the same)
				if i := strings.IndexByte(c.Lo, '-'); i > 0 && strings.HasSuffix(c.Construct, "-pre") && strings.HasSuffix(c.Rng, c.Lo[i:]) && c05TagEcos[name] && r.Chance(50) {
					tag := r.Pick([]string{"-hotfix", "-rc.x", "-LINUX", "-x", "-alpha.X", "-0x", "-beta.1", "-pre.x.x", "-a.b.c", "-rc.10", "-X", "-1x"})
					c.Rng = strings.TrimSuffix(c.Rng, c.Lo[i:]) + tag
					c.Lo = c.Lo[:i] + tag
				}
				if c05MetaEcos[name] && r.Chance(15) && !strings.ContainsAny(c.Rng, " ,[]()*xX|") && c.Lo != "" && strings.Contains(c.Construct, "X.Y.Z") {
					c.Rng += r.Pick([]string{"+build.5", "+b", "+20240101.1", "+exp.sha.5114f85", "+x.x"})
				}
				pr := e.ParseRange(c.Rng)
				res.Evaluations++
				if !pr.OK {
					if !rejected[c.Construct] {
						rejected[c.Construct] = true
						v := Violation{Eco: name, Kind: "shorthand-rejected", Input: map[string]any{"range": c.Rng, "construct": c.Construct}, Expected: "range parses", Actual: "error " + pr.Panic}
						if f := findingFor("C05", name, v.Kind, c.Rng, []string{c.Construct}); f != "" {
							v.Finding = f
						}
						res.violate(v)
					}
					continue
				}
				var lo, hi, hiFloor, loFloor any
				if c.Lo != "" {
					p := e.Parse(c.Lo)
					if !p.OK {
						continue
					}
					lo = p.Val
					if se.LoPreSkip {
						if q := e.Parse(c.Lo + "-0"); q.OK {
							loFloor = q.Val
						}
					}
				}
				if c.Hi != "" {
					p := e.Parse(c.Hi)
					if !p.OK {
						continue
					}
					hi = p.Val
					if se.HiPreSkip {
						hiFloor = hi
					}
				}
				perConstruct[c.Construct]++
				probes, pvals := pstr, pval
				xs := []string{c.Lo, c.Hi}
				if c.Lo != "" {
					// neighbours of the base in text: one byte shorter, one byte longer, one more identifier
					xs = append(xs, c.Lo[:len(c.Lo)-1], c.Lo+"w", c.Lo+".9", c.Lo[:len(c.Lo)-1]+".9", c.Lo+"0")
				}
				if c.Hi != "" {
					xs = append(xs, c.Hi+".0", c.Hi+".9")
				}
				// versions sharing a numeric prefix with the numbers written in the range, at
				// shorter and longer arities (c06.go)
				if rel := prefixRelatives(c.Rng, se.Prefix, se.Pre); len(rel) > 0 {
					for _, k := range r.Perm(len(rel)) {
						if k < 24 {
							xs = append(xs, rel[k])
						}
					}
				}
				for _, extra := range xs {
					if extra != "" {
						if p := e.Parse(extra); p.OK && (se.ProbeOK == nil || se.ProbeOK(extra, p.Val)) {
							probes = append(probes[:len(probes):len(probes)], extra)
							pvals = append(pvals[:len(pvals):len(pvals)], p.Val)
						}
					}
				}
				for i, pv := range pvals {
					in := true
					if lo != nil {
						x := cmpS(e, pv, lo)
						in = in && (x > 0 || (x == 0 && c.LoIncl))
					}
					if hi != nil {
						x := cmpS(e, pv, hi)
						in = in && (x < 0 || (x == 0 && c.HiIncl))
					}
					if c.Complement {
						in = !in
					}
					// pre-releases of the upper bound (same numeric core as hi, below hi): not claimed
					if hiFloor != nil && cmpS(e, pv, hi) < 0 && sameCore(probes[i], c.Hi) {
						continue
					}
					// pre-releases of a wildcard's lower bound
					if loFloor != nil && lo != nil && cmpS(e, pv, lo) < 0 && sameCore(probes[i], c.Lo) && strings.ContainsAny(c.Construct, "xX*") {
						continue
					}
					got, pan := e.Contains(pr.Val, pv)
					res.Evaluations++
					distinct[name+"\x00"+c.Rng+"\x00"+probes[i]] = true
					if pan != "" || got != in {
						v := Violation{Eco: name, Kind: "shorthand-interval", Input: map[string]any{"range": c.Rng, "probe": probes[i], "construct": c.Construct, "documented": fmtInterval(c)},
							Expected: fmt.Sprint(in), Actual: fmt.Sprint(got) + pan}
						if f := findingFor("C05", name, v.Kind, c.Rng, []string{c.Construct, probes[i]}); f != "" {
							v.Finding = f
						} else {
							vals := []any{pv}
							if lo != nil {
								vals = append(vals, lo)
							}
							if hi != nil {
								vals = append(vals, hi)
							}
							classifyOrder(e, &v, vals...)
						}
						res.violateKey(v, c.Construct)
					}
				}
				// the shorthand inside a conjunction with one comparator written at one of its own
				// documented bounds (before or after it): the shorthand still denotes its interval,
				// so the conjunction is the interval cut by the comparator.  Bound bookkeeping
				// ("tightest bound wins") is decided exactly where a bound of the shorthand and an
				// explicit bound tie.
				if syn := rangeSyn[name]; syn != nil && len(syn.And) > 0 && !c.Complement && r.Chance(40) &&
					!strings.Contains(c.Rng, " - ") && !strings.ContainsAny(c.Rng, "[]()|") && strings.TrimSpace(c.Rng) != "" {
					var bnds []string
					if c.Hi != "" {
						bnds = append(bnds, c.Hi, c.Hi)
					}
					if c.Lo != "" {
						bnds = append(bnds, c.Lo)
					}
					var ops []string
					for _, o := range []string{"<=", ">=", "<", ">"} {
						for _, so := range syn.Ops {
							if so == o {
								ops = append(ops, o)
							}
						}
					}
					if len(bnds) > 0 && len(ops) > 0 {
						bt, op, sep := r.Pick(bnds), r.Pick(ops), r.Pick(syn.And)
						bp := e.Parse(bt)
						rng2 := c.Rng + sep + op + bt
						if r.Chance(35) {
							rng2 = op + bt + sep + c.Rng
						}
						if pr2 := e.ParseRange(rng2); bp.OK && pr2.OK {
							perConstruct["in-conjunction"]++
							for i, pv := range pvals {
								in := true
								if lo != nil {
									x := cmpS(e, pv, lo)
									in = in && (x > 0 || (x == 0 && c.LoIncl))
								}
								if hi != nil {
									x := cmpS(e, pv, hi)
									in = in && (x < 0 || (x == 0 && c.HiIncl))
								}
								if hiFloor != nil && cmpS(e, pv, hi) < 0 && sameCore(probes[i], c.Hi) {
									continue
								}
								if loFloor != nil && lo != nil && cmpS(e, pv, lo) < 0 && sameCore(probes[i], c.Lo) && strings.ContainsAny(c.Construct, "xX*") {
									continue
								}
								alone, pan0 := e.Contains(pr.Val, pv)
								if pan0 != "" || alone != in {
									continue // reported above for the shorthand alone
								}
								x := cmpS(e, pv, bp.Val)
								cut := (op == "<=" && x <= 0) || (op == ">=" && x >= 0) || (op == "<" && x < 0) || (op == ">" && x > 0)
								// the comparator alone must agree with the order too (else it is C02's matter)
								if prc := e.ParseRange(op + bt); !prc.OK {
									continue
								} else if g, pn := e.Contains(prc.Val, pv); pn != "" || g != cut {
									continue
								}
								got, pan := e.Contains(pr2.Val, pv)
								res.Evaluations++
								distinct[name+"\x00"+rng2+"\x00"+probes[i]] = true
								if pan != "" || got != (in && cut) {
									v := Violation{Eco: name, Kind: "shorthand-in-conjunction", Input: map[string]any{"range": rng2, "probe": probes[i], "construct": c.Construct, "documented": fmtInterval(c) + " cut by " + op + bt},
										Expected: fmt.Sprint(in && cut), Actual: fmt.Sprint(got) + pan}
									if f := findingFor("C05", name, v.Kind, rng2, []string{c.Construct, probes[i]}); f != "" {
										v.Finding = f
									}
									res.violateKey(v, c.Construct+"/conj")
								}
							}
						}
					}
				}
				if it == 0 {
					res.sample(map[string]any{"eco": name, "range": c.Rng, "documented": fmtInterval(c)})
				}
			}
		}
		perConstruct["probes"] = len(pstr)
		dist[name] = perConstruct
		if ctx.MEcos[name] {
			corrR(ctx, e, 500, 0, 8)
		}
	}
	res.DistinctNontrivial = len(distinct)
	res.Distribution["per_ecosystem"] = dist
}

func fmtInterval(c shCase) string {
	s := ""
	if c.Lo != "" {
		if c.LoIncl {
			s += ">=" + c.Lo
		} else {
			s += ">" + c.Lo
		}
	}
	if c.Hi != "" {
		if s != "" {
			s += " "
		}
		if c.HiIncl {
			s += "<=" + c.Hi
		} else {
			s += "<" + c.Hi
		}
	}
	if s == "" {
		s = "every version"
	}
	if c.Complement {
		s = "not (" + s + ")"
	}
	return s
}

// sameCore: the probe's numeric core (text before the first '-', letter or pre-release dot
// word) equals the bound's numeric core up to trailing ".0"s.
func sameCore(probe, bound string) bool {
	core := func(s string) string {
		i := 0
		for i < len(s) && (s[i] >= '0' && s[i] <= '9' || s[i] == '.') {
			i++
		}
		c := strings.TrimRight(s[:i], ".")
		for strings.HasSuffix(c, ".0") {
			c = c[:len(c)-2]
		}
		return c
	}
	b := bound
	if i := strings.IndexAny(b, "-+"); i >= 0 {
		b = b[:i]
	}
	return core(probe) == core(b) && len(probe) > len(strings.TrimRight(probe[:len(core(probe))], "."))
}
