package main

import (
	"fmt"
	"regexp"
	"strings"
	"sync"
	"time"
)

func init() { props["C06"] = checkC06 }

var c06Alphabet = []byte("019.-+_~:!^*,|=<>() [arvx\x00\xff\xc3\n")

// hostile long inputs of size about n
func longInputs(n int) []string {
	d := strings.Repeat("9", n)
	return []string{
		d, "1." + d, d + "." + d, "1.0-" + d, "1.0+" + d, "1:" + d, d + ":1",
		strings.Repeat("1.", n/2) + "1", strings.Repeat("-", n), strings.Repeat(".", n), strings.Repeat("~", n),
		strings.Repeat("a", n), "1" + strings.Repeat("a1", n/2), strings.Repeat("1_p", n/3), strings.Repeat(" ", n) + "1",
		"1.0-" + strings.Repeat("a.", n/2) + "a", strings.Repeat(">=1.0 ", n/6), strings.Repeat("1.0,", n/4), strings.Repeat("||", n/2),
		strings.Repeat("[", n), "[" + d + "," + d + "]", "^" + d, "~" + d + "." + d, ">=" + d, strings.Repeat("x.", n/2) + "x",
		"v" + d + "." + d + "." + d + "-" + d, strings.Repeat("\xff", n), strings.Repeat("\x00", n), strings.Repeat("é", n/2),
	}
}

// pre-/post-release spellings of any ecosystem; the parser keeps the ones it accepts
var c06ExtraPre = []string{"rc1", "a1", "b2", ".dev3", "-alpha", "-rc.1", "-beta.2", "_rc1", "~rc1", ".post1", "-SNAPSHOT", "+build"}

var dottedRun = regexp.MustCompile(`(\d+!)?\d+(\.\d+)*`)

// prefixRelatives: for every dotted number group written in a range text, the versions made of
// its first k components (k = 1..n), of all its components followed by .0 / .1, each also with
// every pre-release spelling of the ecosystem and with a changed last component.
func prefixRelatives(rng, prefix string, pres []string) []string {
	seen := map[string]bool{}
	var out []string
	add := func(s string) {
		if !seen[s] {
			seen[s] = true
			out = append(out, s)
		}
	}
	for _, m := range dottedRun.FindAllString(rng, 4) {
		epoch := ""
		if i := strings.IndexByte(m, '!'); i >= 0 {
			epoch, m = m[:i+1], m[i+1:]
		}
		comps := strings.Split(m, ".")
		var bases []string
		for k := 1; k <= len(comps); k++ {
			bases = append(bases, strings.Join(comps[:k], "."))
		}
		bases = append(bases, m+".0", m+".1", m+".0.0")
		if len(comps) > 1 {
			bases = append(bases, strings.Join(comps[:len(comps)-1], ".")+".0", strings.Join(comps[:len(comps)-1], ".")+".999999")
		}
		for _, b := range bases {
			for _, sfx := range append([]string{""}, pres...) {
				add(prefix + epoch + b + sfx)
				if epoch != "" {
					add(prefix + b + sfx)
				}
			}
		}
	}
	if len(out) > 160 {
		out = out[:160]
	}
	return out
}

func checkC06(ctx *Ctx) {
	res := ctx.Res
	L := 3
	nMut := 15000
	sizes := []int{2000, 8000}
	if !ctx.Quick {
		L = 4
		nMut = 60000
		sizes = []int{25000, 50000, 100000}
	}
	res.Rule = fmt.Sprintf("every string of length <= %d over the %d-byte alphabet %q (digits, separators, operators, brackets, letters, NUL, 0xff, a UTF-8 lead byte, LF) and mutated/generated texts are given to NewVersion and NewVersionRange of all 20 ecosystems, to vers.Contains (as constraint text and as probe, every scheme) and to the CLI (as arguments), each call under recover() with a 10 s deadline: no panic, value xor error (non-nil value with nil error, or nil value with non-nil error), vers.Contains false whenever it returns an error, CLI failure => exit status 1 with a diagnostic; every accepted value is then used in Compare / Contains / String against other accepted values: no panic. Hostile long inputs (digit runs, separator runs, nested operators; sizes %v) are timed: a call above the deadline is a violation, the growth ratios are recorded as evidence only. non-trivial = distinct inputs accepted by at least one parser", L, len(c06Alphabet), string(c06Alphabet), sizes)
	short := shortStrings(c06Alphabet, L)
	exhaustive := true
	var mu sync.Mutex
	accepted := map[string]bool{}
	var wg sync.WaitGroup
	type stat struct{ parses, accepts, rparses, raccepts int }
	stats := map[string]*stat{}
	evals := 0
	maxDur := map[string]time.Duration{}
	for _, e := range allEcos {
		e := e
		st := &stat{}
		stats[e.Name] = st
		wg.Add(1)
		go func() {
			defer wg.Done()
			r := NewRNG(ctx.Seed, "C06/"+e.Name)
			inputs := append([]string{}, short...)
			p, cands := BuildPool(e, r, 60, corpusVersions(e.Name))
			inputs = append(inputs, cands...)
			gen := versionGens[e.Name]
			for i := 0; i < nMut; i++ {
				var s string
				if i%2 == 0 {
					s = mutate(r, mutate(r, gen(r)))
				} else {
					s = mutate(r, genRange(r, e.Name, p))
				}
				inputs = append(inputs, s)
			}
			// a non-ASCII rune inside an accepted version / range text (incl. runes whose case
			// mapping changes the UTF-8 length): no operation may panic on them
			for k, t := range p.Strs {
				inputs = append(inputs, nonASCIIInside(r, t))
				if k%3 == 0 {
					inputs = append(inputs, nonASCIIInside(r, genRange(r, e.Name, p)))
				}
			}
			var okV []any
			var okR []any
			local := 0
			for _, s := range inputs {
				pv := e.Parse(s)
				pr := e.ParseRange(s)
				local += 2
				st.parses++
				st.rparses++
				for _, x := range []struct {
					p    Parsed
					what string
				}{{pv, "NewVersion"}, {pr, "NewVersionRange"}} {
					if x.p.Panic != "" {
						mu.Lock()
						res.violate(Violation{Eco: e.Name, Kind: "panic", Input: map[string]any{"call": x.what, "arg": s}, Expected: "no panic", Actual: x.p.Panic})
						mu.Unlock()
					} else if x.p.XorBad {
						mu.Lock()
						res.violate(Violation{Eco: e.Name, Kind: "value-xor-error", Input: map[string]any{"call": x.what, "arg": s}, Expected: "(value, nil) or (nil, error)", Actual: "both or neither"})
						mu.Unlock()
					}
					if x.p.Dur > 10*time.Second {
						mu.Lock()
						res.violate(Violation{Eco: e.Name, Kind: "hang", Input: map[string]any{"call": x.what, "arg_len": len(s)}, Expected: "terminates quickly", Actual: x.p.Dur.String()})
						mu.Unlock()
					}
				}
				if pv.OK {
					st.accepts++
					if len(okV) < 400 || len(s) <= 2 {
						okV = append(okV, pv.Val)
					}
				}
				if pr.OK {
					st.raccepts++
					if len(okR) < 400 {
						okR = append(okR, pr.Val)
					}
				}
				if pv.OK || pr.OK {
					mu.Lock()
					accepted[e.Name+"\x00"+s] = true
					mu.Unlock()
				}
			}
			// every documented shorthand construct against versions of every arity (a range
			// predicate that indexes the version's components must cope with shorter versions)
			if se := shEcos[e.Name]; se != nil {
				var grid []any
				for ar := 1; ar <= 5; ar++ {
					for _, x := range []int{0, 1, 2, 10} {
						c := make([]int, ar)
						for i := range c {
							c[i] = x
						}
						c[0] = 1
						for _, sfx := range append([]string{""}, se.Pre...) {
							if pv := e.Parse(dots(se.Prefix, c...) + sfx); pv.OK {
								grid = append(grid, pv.Val)
							}
						}
					}
				}
				for _, gen := range se.Gen {
					for it := 0; it < 12; it++ {
						c := gen(r)
						pr := e.ParseRange(c.Rng)
						if !pr.OK {
							continue
						}
						// versions that share a numeric prefix with the numbers written in the
						// construct, at every shorter and longer arity, released and pre-released:
						// a predicate that walks the base's components must cope with a version
						// that agrees with the base as far as it goes and then stops
						vlist := append([]any{}, grid...)
						for _, t := range prefixRelatives(c.Rng, se.Prefix, append(append([]string{}, se.Pre...), c06ExtraPre...)) {
							if pv := e.Parse(t); pv.OK {
								vlist = append(vlist, pv.Val)
							}
						}
						for _, gv := range vlist {
							_, pan := e.Contains(pr.Val, gv)
							local++
							if pan != "" {
								sv, _ := e.Str(gv)
								mu.Lock()
								res.violate(Violation{Eco: e.Name, Kind: "panic", Input: map[string]any{"call": "Contains", "range": c.Rng, "version": sv}, Expected: "no panic", Actual: pan})
								mu.Unlock()
							}
						}
					}
				}
			}
			// operations on accepted values
			if len(okV) > 250 {
				okV = okV[:250]
			}
			for _, a := range okV {
				if _, pan := e.Str(a); pan != "" {
					mu.Lock()
					res.violate(Violation{Eco: e.Name, Kind: "panic", Input: "String()", Expected: "no panic", Actual: pan})
					mu.Unlock()
				}
				for _, b := range okV {
					_, pan := e.Compare(a, b)
					local++
					if pan != "" {
						sa, _ := e.Str(a)
						sb, _ := e.Str(b)
						mu.Lock()
						res.violate(Violation{Eco: e.Name, Kind: "panic", Input: map[string]any{"call": "Compare", "a": sa, "b": sb}, Expected: "no panic", Actual: pan})
						mu.Unlock()
					}
				}
				for _, rg := range okR {
					_, pan := e.Contains(rg, a)
					local++
					if pan != "" {
						sa, _ := e.Str(a)
						sr, _ := e.StrR(rg)
						mu.Lock()
						res.violate(Violation{Eco: e.Name, Kind: "panic", Input: map[string]any{"call": "Contains", "range": sr, "version": sa}, Expected: "no panic", Actual: pan})
						mu.Unlock()
					}
				}
			}
			// long inputs
			for _, n := range sizes {
				for _, s := range longInputs(n) {
					for _, f := range []func(string) Parsed{e.Parse, e.ParseRange} {
						p := f(s)
						local++
						mu.Lock()
						key := fmt.Sprintf("%s/%d", e.Name, n)
						if p.Dur > maxDur[key] {
							maxDur[key] = p.Dur
						}
						if p.Panic != "" {
							res.violate(Violation{Eco: e.Name, Kind: "panic", Input: map[string]any{"long_input_prefix": s[:min(len(s), 24)], "len": len(s)}, Expected: "no panic", Actual: p.Panic})
						}
						if p.XorBad {
							res.violate(Violation{Eco: e.Name, Kind: "value-xor-error", Input: map[string]any{"long_input_prefix": s[:min(len(s), 24)], "len": len(s)}, Expected: "(value, nil) or (nil, error)", Actual: "both or neither"})
						}
						if p.Dur > 10*time.Second {
							res.violate(Violation{Eco: e.Name, Kind: "hang", Input: map[string]any{"long_input_prefix": s[:min(len(s), 24)], "len": len(s)}, Expected: "time at most quadratic; below the 10 s deadline", Actual: p.Dur.String()})
						}
						mu.Unlock()
						if p.OK && f != nil {
							// use the value once
							if pv := e.Parse(s); pv.OK {
								e.Compare(pv.Val, pv.Val)
							}
						}
					}
				}
			}
			mu.Lock()
			evals += local
			mu.Unlock()
		}()
	}
	wg.Wait()
	// VERS
	nVers := 0
	{
		r := NewRNG(ctx.Seed, "C06/vers")
		var texts []string
		for _, s := range shortStrings(c06Alphabet, L-1) {
			texts = append(texts, s)
		}
		for _, sch := range append(append([]string{}, schemeNames...), "", "x", "NPM") {
			for _, s := range texts {
				for _, rg := range []string{"vers:" + sch + "/" + s, "vers:" + sch + "/>=" + s, "vers:" + sch + "/>=1.0|" + s} {
					for _, probe := range []string{"1.0.0", s} {
						ok, isErr, pan := versContains(rg, probe)
						nVers++
						if pan != "" {
							res.violate(Violation{Eco: "vers", Kind: "panic", Input: []string{rg, probe}, Expected: "no panic", Actual: pan})
						}
						if isErr && ok {
							res.violate(Violation{Eco: "vers", Kind: "error-but-true", Input: []string{rg, probe}, Expected: "false whenever an error is returned", Actual: "true with error"})
						}
					}
				}
			}
		}
		for i := 0; i < nMut; i++ {
			sch := schemeNames[r.Intn(len(schemeNames))]
			e := ecoByName(schemeEco[sch])
			rg := mutate(r, "vers:"+sch+"/"+r.Pick([]string{">=", "<", "=", "!=", "<=", ">"})+versionGens[e.Name](r)+"|"+r.Pick([]string{"<", "<=", "!="})+versionGens[e.Name](r))
			probe := versionGens[e.Name](r)
			if r.Chance(20) {
				probe = mutate(r, probe)
			}
			ok, isErr, pan := versContains(rg, probe)
			nVers++
			if pan != "" {
				res.violate(Violation{Eco: "vers", Kind: "panic", Input: []string{rg, probe}, Expected: "no panic", Actual: pan})
			}
			if isErr && ok {
				res.violate(Violation{Eco: "vers", Kind: "error-but-true", Input: []string{rg, probe}, Expected: "false whenever an error is returned", Actual: "true with error"})
			}
		}
		for _, n := range sizes {
			for _, s := range longInputs(n) {
				t0 := time.Now()
				_, _, pan := versContains("vers:npm/>="+s, "1.0.0")
				_, _, pan2 := versContains("vers:deb/>=1.0|<"+s, s)
				d := time.Since(t0)
				nVers += 2
				if pan != "" || pan2 != "" {
					res.violate(Violation{Eco: "vers", Kind: "panic", Input: map[string]any{"long_input_prefix": s[:min(len(s), 24)], "len": len(s)}, Expected: "no panic", Actual: pan + pan2})
				}
				if d > 20*time.Second {
					res.violate(Violation{Eco: "vers", Kind: "hang", Input: map[string]any{"long_input_prefix": s[:min(len(s), 24)], "len": len(s)}, Expected: "below the deadline", Actual: d.String()})
				}
			}
		}
	}
	// CLI
	nCLI := 0
	{
		var cases [][]string
		names := append(append([]string{}, cliNames...), "vers", "", "x")
		texts := shortStrings(c06Alphabet, 2)
		r := NewRNG(ctx.Seed, "C06/cli")
		for _, name := range names {
			for _, cmd := range []string{"compare", "sort", "contains", ""} {
				for i := 0; i < 60; i++ {
					av := []string{name, cmd}
					n := r.Intn(4)
					for k := 0; k < n; k++ {
						av = append(av, texts[r.Intn(len(texts))])
					}
					cases = append(cases, av)
				}
			}
		}
		cases = append(cases, nil, []string{}, []string{"\x00"}, []string{"npm", "sort", strings.Repeat("9", 20000)})
		// failing invocations whose offending argument is a run of multi-byte runes: diagnostics
		// are built from the argument, and byte and rune counts differ
		for _, name := range names {
			for _, n := range []int{10, 30, 45, 60, 90, 130, 250} {
				u := r.Pick([]string{"é", "漢", "😀"})
				cases = append(cases, []string{name, "compare", strings.Repeat(u, n), "1.0.0"}, []string{name, "contains", ">=1.0.0", strings.Repeat(u, n)}, []string{name, "sort", "1.0.0", strings.Repeat(u, n)})
			}
		}
		outs, err := cliBatch(cases)
		if err != nil {
			res.Notes = append(res.Notes, err.Error())
			res.violate(Violation{Eco: "cli", Kind: "machinery", Input: "univers-batch", Expected: "CLI built from /repo/cmd with the verif tag runs", Actual: err.Error()})
		} else {
			for i, got := range outs {
				nCLI++
				want := libExpect(cases[i])
				if got.Panic != "" {
					res.violate(Violation{Eco: "cli", Kind: "panic", Input: cases[i], Expected: "no panic", Actual: got.Panic})
				} else if !want.OK && (got.Code != 1 || got.Out == "" || isResultLine(got.Out)) {
					res.violate(Violation{Eco: "cli", Kind: "failure-not-exit-1", Input: cases[i], Expected: "diagnostic and exit status 1", Actual: fmt.Sprintf("exit %d %q", got.Code, got.Out)})
				}
			}
		}
	}
	res.Evaluations = evals + nVers + nCLI
	res.DistinctNontrivial = len(accepted)
	dist := map[string]any{}
	for k, v := range stats {
		dist[k] = map[string]int{"version_calls": v.parses, "versions_accepted": v.accepts, "range_calls": v.rparses, "ranges_accepted": v.raccepts}
	}
	res.Distribution["per_ecosystem"] = dist
	res.Distribution["vers_calls"] = nVers
	res.Distribution["cli_calls"] = nCLI
	res.Distribution["exhaustive_short_strings"] = map[string]any{"alphabet": string(c06Alphabet), "max_len": L, "count": len(short), "exhaustive": exhaustive}
	tm := map[string]string{}
	for k, v := range maxDur {
		tm[k] = v.String()
	}
	res.Distribution["max_call_time_long_inputs"] = tm
	res.sample(map[string]any{"short_strings": len(short), "example": short[len(short)/2]})
}
