package main

import (
	"strconv"
	"fmt"
	"os"
	"slices"
	"sort"
	"strings"
)

func init() { props["C07"] = checkC07 }

// sortedOutputProblems checks one sorted output against its input: same multiset of strings,
// adjacent pairs non-decreasing.  vals are the parsed outputs.
func sortedOutputProblems(e *Eco, in []string, out []string, outVals []any) (string, string) {
	a := append([]string{}, in...)
	b := append([]string{}, out...)
	sort.Strings(a)
	sort.Strings(b)
	if strings.Join(a, "\x00") != strings.Join(b, "\x00") || len(a) != len(b) {
		return "sort-multiset", fmt.Sprintf("output %q is not a permutation of input %q", out, in)
	}
	for i := 0; i+1 < len(outVals); i++ {
		if cmpS(e, outVals[i], outVals[i+1]) > 0 {
			return "sort-order", fmt.Sprintf("%q > %q at positions %d,%d", out[i], out[i+1], i, i+1)
		}
	}
	return "", ""
}

func checkC07(ctx *Ctx) {
	res := ctx.Res
	res.Rule = "per ecosystem: lists of 1..64 accepted versions drawn from a pool with duplicates and Compare-equal respellings (a quarter of the lists are windows of the pool in generation order: variants of one text; a quarter are one pool member with its prefix siblings — the same text with one alphanumeric run extended or shortened); each list is sorted (a) with slices.SortFunc and the ecosystem's Compare as the documented idiom does and (b) by the CLI 'sort' command (run(w,args) in-process through the verif hook, plus a sample of real process executions); every permutation of lists of length <= 6 and 6 random permutations of longer ones. Checked: String() of each parsed input is the input text up to outer white space, the output multiset equals those strings, adjacent pairs non-decreasing, the sequence of equivalence classes identical across permutations; a list with an invalid element makes the CLI exit 1 with a diagnostic that names the first invalid element and prints no result. non-trivial = distinct (list, permutation) cases with at least two Compare-distinct elements"
	nLists := 40
	if !ctx.Quick {
		nLists = 600
	}
	dist := map[string]any{}
	distinct := 0
	type cliCase struct {
		e     *Eco
		argv  []string
		in    []string // String() of the inputs (expected multiset); nil for an invalid-input case
		bad   string
		group int // index of the list this permutation belongs to
	}
	var cases []cliCase
	groupSeq := map[int][]any{} // first output of each list, for the class-sequence comparison
	groups := 0
	for _, e := range allEcos {
		r := NewRNG(ctx.Seed, "C07/"+e.Name)
		p, cands := BuildPool(e, r, 70, corpusVersions(e.Name))
		if len(p.Strs) < 4 {
			continue
		}
		if e.Name == "alpm" {
			// versions with and without a pkgrel are not mutually comparable (C01's exclusion):
			// lists are drawn from the larger of the two classes
			var with, without []int
			for i := range p.Strs {
				if b, _ := boolField(p.Vals[i], "hasPkgrel"); b {
					with = append(with, i)
				} else {
					without = append(without, i)
				}
			}
			keep := with
			if len(without) > len(with) {
				keep = without
			}
			np := &Pool{Eco: e}
			for _, i := range keep {
				np.Strs = append(np.Strs, p.Strs[i])
				np.Vals = append(np.Vals, p.Vals[i])
			}
			p = np
		}
		pairs := equalPairs(e, r, p, 60)
		var invalid []string
		for _, c := range cands {
			if !e.Parse(c).OK && c != "" && isASCII(c) {
				invalid = append(invalid, c)
			}
		}
		invalid = append(invalid, "not a version!!", "")
		nPerm, nNontriv := 0, 0
		for li := 0; li < nLists; li++ {
			n := r.Range(1, 8)
			switch {
			case r.Chance(20):
				n = r.Range(9, 64)
			case r.Chance(15):
				n = r.Range(2, 6)
			}
			// long lists, with lengths on both sides of the sizes at which implementations switch
			// strategy (insertion sort below 12, chunking, "parallel above N"): powers of two and
			// every length-like constant the tree under check has and the pinned tree has not
			if li == 2 || li == 5 {
				longLens := []int{62, 63, 64, 65, 66, 67, 127, 129, 130, 255, 257}
				for _, s := range newIntsFor("cmd") {
					if v, err := strconv.Atoi(s); err == nil && v >= 4 && v <= 1500 {
						longLens = append(longLens, v-1, v, v+1, v+2, v+3, 2*v+1)
					}
				}
				n = longLens[(r.Intn(len(longLens))+li)%len(longLens)]
			}
			var list []string
			// family lists: a window of the pool in generation order — spelling variants, prefix
			// siblings and boundary neighbours of one text are generated next to each other, so a
			// window holds versions that differ in one token only
			if li%8 == 1 && len(p.Strs) > n {
				st := r.Intn(len(p.Strs) - n + 1)
				list = append(list, p.Strs[st:st+n]...)
			}
			// sibling lists: one pool member and the texts derived from it by extending / shortening
			// one alphanumeric run (half of the time the run after a rare punctuation byte)
			if li%4 == 3 || li%8 == 5 {
				src, after := p.Strs[r.Intn(len(p.Strs))], byte(0)
				if li%4 == 3 {
					// walk through the punctuation bytes of the candidate set, rarest first, from a
					// seed-dependent start
					rareCycle = li/4 + int(ctx.Seed%64)*3
					var accepted []string
					for _, c := range cands {
						if len(c) < 60 && e.Parse(c).OK {
							accepted = append(accepted, c)
						}
					}
					src, after = pickRare(r, accepted, src)
					rareCycle = -1
				}
				list = append(list, src)
				for _, t := range prefixSiblingsAfter(r, src, after) {
					if pr := e.Parse(t); pr.OK && len(list) < n {
						list = append(list, t)
					}
				}
				if n < 4 {
					n = minInt(5, len(list))
					list = list[:n]
				}
				if os.Getenv("VERIF_DEBUG_C07") != "" {
					fmt.Fprintf(os.Stderr, "siblist %s li=%d after=%q n=%d %q\n", e.Name, li, string(after), n, list)
				}
			}
			// texts made of two pool members joined by a byte that code may use as a key separator
			// (x, y, x+sep+y, y+sep+x in one list), where the ecosystem accepts them
			if li%8 == 4 && len(p.Strs) >= 2 {
				x, y := p.Strs[r.Intn(len(p.Strs))], p.Strs[r.Intn(len(p.Strs))]
				for _, sep := range []string{",", "|", ":", "/", ";", " ", "\x00"} {
					for _, t := range []string{x + sep + y, y + sep + x, x + sep + x} {
						if pr := e.Parse(t); pr.OK && len(list) < n+6 {
							list = append(list, t)
						}
					}
				}
				if len(list) > 0 {
					list = append(list, x, y)
					n = len(list)
				}
			}
			for len(list) < n {
				switch {
				case len(list) > 0 && r.Chance(15):
					list = append(list, list[r.Intn(len(list))]) // duplicate
				case len(pairs) > 0 && r.Chance(20):
					pq := pairs[r.Intn(len(pairs))]
					list = append(list, pq.a, pq.b)
				default:
					list = append(list, p.Strs[r.Intn(len(p.Strs))])
				}
			}
			list = list[:n]
			if e.Name == "alpm" {
				// one comparability class per list (C01's exclusion): members derived from a pool text
				// may have lost or gained a pkgrel
				var same []string
				var first *bool
				for _, s := range list {
					pr := e.Parse(s)
					if !pr.OK {
						continue
					}
					b, _ := boolField(pr.Val, "hasPkgrel")
					if first == nil {
						first = &b
					}
					if b == *first {
						same = append(same, s)
					}
				}
				if len(same) == 0 {
					continue
				}
				list, n = same, len(same)
			}
			vals := make([]any, n)
			strs := make([]string, n)
			ok := true
			for i, s := range list {
				pr := e.Parse(s)
				if !pr.OK {
					ok = false
					break
				}
				vals[i] = pr.Val
				strs[i], _ = e.Str(pr.Val)
				// "outputs exactly the input strings": what sort prints for an input is String() of
				// the parsed value, which must be the input text (up to outer white space, C18)
				if strings.TrimSpace(strs[i]) != strings.TrimSpace(s) {
					res.violate(Violation{Eco: e.Name, Kind: "sort-output-not-input-text", Input: []string{s}, Expected: fmt.Sprintf("sort prints the input string %q back", strings.TrimSpace(s)), Actual: fmt.Sprintf("%q", strs[i])})
				}
			}
			if !ok {
				continue
			}
			consistent := consistentSet(e, vals)
			var perms [][]int
			if n <= 6 {
				perms = allIndexPerms(n)
				if n == 6 && ctx.Quick {
					perms = perms[:240]
				}
			} else {
				for k := 0; k < 6; k++ {
					perms = append(perms, r.Perm(n))
				}
			}
			var first []any
			g := groups
			groups++
			for _, pm := range perms {
				in := make([]string, n)
				iv := make([]any, n)
				for i, j := range pm {
					in[i] = list[j]
					iv[i] = vals[j]
				}
				// (a) the documented idiom
				sv := append([]any{}, iv...)
				pan := guard(func() { slices.SortFunc(sv, func(a, b any) int { c, _ := e.Compare(a, b); return c }) })
				res.Evaluations++
				nPerm++
				out := make([]string, n)
				for i, v := range sv {
					out[i], _ = e.Str(v)
				}
				exp := make([]string, n)
				for i, j := range pm {
					exp[i] = strs[j]
				}
				report := func(kind, detail string, outVals []any) {
					v := Violation{Eco: e.Name, Kind: kind, Input: in, Expected: "sorted permutation of the input with the same class sequence for every input order", Actual: detail}
					if !consistent {
						classifyOrder(e, &v, vals...)
					}
					res.violate(v)
				}
				if pan != "" {
					report("sort-panic", pan, nil)
					continue
				}
				if k, d := sortedOutputProblems(e, exp, out, sv); k != "" {
					report(k, d, sv)
				}
				if first == nil {
					first = sv
					groupSeq[g] = sv
				} else {
					for i := range sv {
						if cmpS(e, sv[i], first[i]) != 0 {
							report("sort-class-sequence", fmt.Sprintf("position %d holds %q here and %q for another input order", i, out[i], strOf(e, first[i])), sv)
							break
						}
					}
				}
				if len(cases) < 60000 {
					cases = append(cases, cliCase{e: e, argv: append([]string{e.Name, "sort"}, in...), in: exp, group: g})
				}
			}
			distinctVals := 0
			for i := range vals {
				isNew := true
				for j := 0; j < i; j++ {
					if cmpS(e, vals[i], vals[j]) == 0 {
						isNew = false
					}
				}
				if isNew {
					distinctVals++
				}
			}
			if distinctVals >= 2 {
				nNontriv += len(perms)
			}
			// invalid element somewhere
			if li%3 == 0 {
				bad := invalid[r.Intn(len(invalid))]
				pos := r.Intn(n + 1)
				if n > 16 && r.Chance(50) {
					pos = n // the last argument of a long list
				}
				in := append(append(append([]string{}, list[:pos]...), bad), list[pos:]...)
				firstBad := bad
				cases = append(cases, cliCase{e: e, argv: append([]string{e.Name, "sort"}, in...), bad: firstBad, group: -1})
			}
			if li == 0 {
				res.sample(map[string]any{"eco": e.Name, "list": list})
			}
		}
		distinct += nNontriv
		dist[e.Name] = map[string]int{"pool": len(p.Strs), "permutations": nPerm, "nontrivial": nNontriv}
	}
	// (b) the CLI
	argvs := make([][]string, len(cases))
	for i, c := range cases {
		argvs[i] = c.argv
	}
	outs, err := cliBatch(argvs)
	if err != nil {
		res.Notes = append(res.Notes, err.Error())
		res.violate(Violation{Eco: "cli", Kind: "machinery", Input: "univers-batch", Expected: "CLI built from /repo/cmd with the verif tag runs", Actual: err.Error()})
	} else {
		spawned := 0
		for i, c := range cases {
			got := outs[i]
			if spawned < 40 && i%(len(cases)/40+1) == 0 && !strings.ContainsRune(strings.Join(c.argv, ""), 0) {
				// (an argument with a NUL byte cannot be passed to a process)
				sp := cliSpawn(c.argv)
				spawned++
				if sp.Code != got.Code || sp.Out != got.Out {
					res.violate(Violation{Eco: c.e.Name, Kind: "cli-process-differs", Input: c.argv, Expected: fmt.Sprintf("exit %d %q (in-process run)", got.Code, got.Out), Actual: fmt.Sprintf("exit %d %q", sp.Code, sp.Out)})
				}
			}
			res.Evaluations++
			if c.in == nil {
				want := libAnswer{Mention: c.bad}
				if k, ex, ac := checkCLIResult(c.argv, got, want); k != "" {
					res.violate(Violation{Eco: c.e.Name, Kind: "sort-invalid-input/" + k, Input: c.argv, Expected: ex, Actual: ac})
				}
				continue
			}
			if k, ex, ac := checkCLIResult(c.argv, got, libAnswer{OK: true, SortSet: c.in}); k != "" {
				res.violate(Violation{Eco: c.e.Name, Kind: k, Input: c.argv, Expected: ex, Actual: ac})
				continue
			}
			line := strings.TrimSuffix(got.Out, "\n")
			out, ok := parseQuoted(line)
			if !ok {
				res.violate(Violation{Eco: c.e.Name, Kind: "cli-sort-format", Input: c.argv, Expected: "space-separated quoted strings", Actual: line})
				continue
			}
			ov := make([]any, len(out))
			okAll := true
			for j, s := range out {
				pr := c.e.Parse(s)
				if !pr.OK {
					okAll = false
					break
				}
				ov[j] = pr.Val
			}
			if !okAll {
				res.violate(Violation{Eco: c.e.Name, Kind: "sort-multiset", Input: c.argv, Expected: "the input strings", Actual: line})
				continue
			}
			report := func(kind, detail string) {
				v := Violation{Eco: c.e.Name, Kind: "cli-" + kind, Input: c.argv, Expected: "sorted permutation of the input with the same class sequence for every input order", Actual: detail}
				classifyOrder(c.e, &v, ov...)
				res.violate(v)
			}
			if k, d := sortedOutputProblems(c.e, c.in, out, ov); k != "" {
				report(k, d)
				continue
			}
			if ref := groupSeq[c.group]; len(ref) == len(ov) {
				for j := range ov {
					if cmpS(c.e, ov[j], ref[j]) != 0 {
						report("sort-class-sequence", fmt.Sprintf("position %d holds %q, library sort of another input order holds %q", j, out[j], strOf(c.e, ref[j])))
						break
					}
				}
			}
		}
		dist["cli"] = map[string]int{"cases": len(cases), "real_process_executions": spawned}
	}
	res.DistinctNontrivial = distinct
	res.Distribution["per_ecosystem"] = dist
}

func strOf(e *Eco, v any) string { s, _ := e.Str(v); return s }

func allIndexPerms(n int) [][]int {
	var out [][]int
	idx := make([]int, n)
	for i := range idx {
		idx[i] = i
	}
	var rec func(k int)
	rec = func(k int) {
		if k == n {
			out = append(out, append([]int{}, idx...))
			return
		}
		for i := k; i < n; i++ {
			idx[k], idx[i] = idx[i], idx[k]
			rec(k + 1)
			idx[k], idx[i] = idx[i], idx[k]
		}
	}
	rec(0)
	return out
}
