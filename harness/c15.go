package main

import (
	"path/filepath"
	"os"
	"strconv"
	"fmt"
	"strings"
)

func init() { props["C15"] = checkC15 }

func checkC15(ctx *Ctx) {
	res := ctx.Res
	res.Rule = "for every name the library defines (the 20 e.Name() values) plus 'vers', near-miss and unknown names, x the commands compare / sort / contains / unknown / none x argument vectors of 0..5 arguments drawn from: accepted versions and ranges of that ecosystem, accepted versions of OTHER ecosystems (inputs two ecosystems order or accept differently), VERS ranges, rejected texts, texts with spaces, quotes, leading dashes, Unicode white space (U+00A0, U+0085, U+2003, U+3000 in place of or next to ASCII blanks) and the empty string: run(w,args) of the CLI built from /repo/cmd (in-process through the verif hook; a sample also as real processes) is compared with the library called directly: same result text and exit 0 on success with exactly one line, exit 1 and a diagnostic that is not a result on every failure; the CLI model (Coq, extracted) with the library answered by the implementation is compared on the same vectors. non-trivial = distinct argument vectors whose library answer is a success"
	per := 260
	if !ctx.Quick {
		per = 5000
	}
	odd := []string{"", " ", "-", "--help", "-1", "\"", "'1.0'", "1.0 2.0", "a b", "\t1.0", "1.0\n", "*", "vers:npm/>=1.0.0", "%d", "\\", "not a version!!"}
	// arguments that NAME things of the outside world: existing files holding versions (as a bare
	// path, as an @response-file, with file: and < prefixes), an environment variable reference, a
	// glob.  The CLI's answer is a function of the argument TEXTS (the library is): such an
	// argument is an ordinary text to it.
	if dir, err := os.MkdirTemp("", "verif-c15-"); err == nil {
		defer os.RemoveAll(dir)
		f1 := filepath.Join(dir, "versions.txt")
		f2 := filepath.Join(dir, "two")
		os.WriteFile(f1, []byte("1.0.0\n2.0.0\n1.5.0\n"), 0o644)
		os.WriteFile(f2, []byte("1.0.0\n2.0.0"), 0o644)
		odd = append(odd, "@"+f1, "@"+f2, f1, "file:"+f1, "<"+f1, "@/dev/null", "$HOME", "${PATH}", "~", dir+"/*", "@", "@@", "@1.0.0")
	}
	// arguments that are runs of one multi-byte rune (10..260 runes, 2-4 bytes each): a limit
	// tested in bytes and applied in runes (or the reverse) fails where the two counts part; the
	// lengths also follow every new constant of cmd
	{
		lens := []int{10, 25, 40, 60, 67, 100, 130, 200, 260}
		for _, c := range newIntsFor("cmd") {
			if v, err := strconv.Atoi(c); err == nil && v >= 8 && v <= 2000 {
				lens = append(lens, v/4+1, v/3+1, v/2+1, v-1, v, v+1)
			}
		}
		for _, n := range lens {
			for _, u := range []string{"é", "漢", "😀"} {
				odd = append(odd, strings.Repeat(u, n))
			}
		}
	}
	var cases [][]string
	seen := map[string]bool{}
	add := func(av []string) {
		k := strings.Join(av, "\x00") + fmt.Sprint(len(av))
		if !seen[k] {
			seen[k] = true
			cases = append(cases, av)
		}
	}
	add(nil)
	names := append([]string{}, cliNames...)
	names = append(names, "vers")
	otherNames := []string{"NPM", "npm ", "node", "deb", "generic", "golang2", "", "-", "pip", "rubygems", "Vers", "semver2"}
	pools := map[string]*Pool{}
	ranges := map[string][]string{}
	for _, e := range allEcos {
		r := NewRNG(ctx.Seed, "C15/pool/"+e.Name)
		p, _ := BuildPool(e, r, 50, corpusVersions(e.Name))
		pools[e.Name] = p
		rt, _ := rangeSet(e, r, p, 40)
		ranges[e.Name] = rt
	}
	r := NewRNG(ctx.Seed, "C15")
	anyVersion := func() string {
		e := allEcos[r.Intn(len(allEcos))]
		p := pools[e.Name]
		if len(p.Strs) == 0 {
			return "1.0"
		}
		return p.Strs[r.Intn(len(p.Strs))]
	}
	for _, name := range names {
		add([]string{name})
		for _, cmd := range []string{"compare", "sort", "contains", "Compare", "list", ""} {
			add([]string{name, cmd})
		}
		for i := 0; i < per; i++ {
			cmd := r.Pick([]string{"compare", "compare", "sort", "contains", "contains", "contains", "compare", "sort", "frobnicate"})
			n := 2
			switch {
			case r.Chance(12):
				n = r.Intn(6)
			case cmd == "sort" && r.Chance(6):
				// long lists on both sides of strategy-switching sizes (see c07.go)
				longLens := []int{13, 33, 63, 64, 65, 66, 67, 129, 130}
				for _, s := range newIntsFor("cmd") {
					if v, err := strconv.Atoi(s); err == nil && v >= 4 && v <= 1500 {
						longLens = append(longLens, v-1, v, v+1, v+2, v+3, 2*v+1)
					}
				}
				n = longLens[r.Intn(len(longLens))]
			case cmd == "sort":
				n = r.Range(1, 5)
			}
			av := []string{name, cmd}
			longList := n > 8 && pools[name] != nil && len(pools[name].Strs) > 0
			oddAt := -1
			if longList && r.Chance(40) {
				oddAt = n - 1
				if r.Chance(50) {
					oddAt = r.Intn(n)
				}
			}
			for k := 0; k < n; k++ {
				var a string
				switch {
				case longList && k != oddAt:
					// a long list of valid versions (with at most one other element, see oddAt)
					a = pools[name].Strs[r.Intn(len(pools[name].Strs))]
					av = append(av, a)
					continue
				case longList:
					a = r.Pick(odd)
					av = append(av, a)
					continue
				case name == "vers" && k == 0 && r.Chance(80):
					sch := schemeNames[r.Intn(len(schemeNames))]
					p := pools[schemeEco[sch]]
					a = "vers:" + sch + "/" + r.Pick([]string{">=", "<", "=", "!=", "<=", ">"}) + p.Strs[r.Intn(len(p.Strs))]
					if r.Chance(40) {
						a += "|" + r.Pick([]string{"<", "<="}) + p.Strs[r.Intn(len(p.Strs))]
					}
				case name == "vers":
					a = anyVersion()
				case cmd == "contains" && k == 0 && r.Chance(80) && len(ranges[name]) > 0:
					a = ranges[name][r.Intn(len(ranges[name]))]
				case r.Chance(70) && pools[name] != nil && len(pools[name].Strs) > 0:
					a = pools[name].Strs[r.Intn(len(pools[name].Strs))]
				case r.Chance(60):
					a = anyVersion() // discriminating: a version of some other ecosystem
				default:
					a = r.Pick(odd)
				}
				if r.Chance(5) {
					a = unicodeSpaces(r, a)
				}
				if r.Chance(6) {
					a = nonASCIIInside(r, a)
				}
				if r.Chance(5) || (name == "vers" && k == 0 && r.Chance(10)) {
					a = encodedArg(r, a)
				}
				av = append(av, a)
			}
			add(av)
			// the same vector with its first two arguments exchanged, and rotated by one: which
			// argument names the ecosystem and which the command is decided by position too
			if len(av) >= 3 && r.Chance(8) {
				sw := append([]string{av[1], av[0]}, av[2:]...)
				add(sw)
				add(append(append([]string{}, av[1:]...), av[0]))
			}
			// the same arguments in another order: which argument is the range and which the
			// version is decided by position, not by what the texts look like
			if len(av) == 4 && r.Chance(15) {
				add([]string{av[0], av[1], av[3], av[2]})
			}
		}
	}
	for _, name := range otherNames {
		add([]string{name})
		add([]string{name, "compare", "1.0.0", "2.0.0"})
		add([]string{name, "contains", ">=1.0.0", "2.0.0"})
		add([]string{name, "sort", "1.0.0"})
	}
	outs, err := cliBatch(cases)
	if err != nil {
		res.Notes = append(res.Notes, err.Error())
		res.violate(Violation{Eco: "cli", Kind: "machinery", Input: "univers-batch", Expected: "CLI built from /repo/cmd with the verif tag runs", Actual: err.Error()})
		return
	}
	nOK, spawned := 0, 0
	byName := map[string]int{}
	for i, av := range cases {
		got := outs[i]
		want := libExpect(av)
		res.Evaluations++
		name := "-"
		if len(av) > 0 {
			name = av[0]
		}
		if want.OK {
			nOK++
			byName[name]++
		}
		if k, ex, ac := checkCLIResult(av, got, want); k != "" {
			res.violate(Violation{Eco: name, Kind: k, Input: av, Expected: ex, Actual: ac})
		} else if want.OK && want.SortSet != nil {
			e := ecoByName(name)
			out, ok := parseQuoted(strings.TrimSuffix(got.Out, "\n"))
			if !ok {
				res.violate(Violation{Eco: name, Kind: "cli-sort-format", Input: av, Expected: "space-separated quoted strings", Actual: got.Out})
			} else {
				// each printed token is the %q rendering of the text it denotes (what the CLI
				// documents and its tests show: Go-syntax quoting, printable characters verbatim)
				line := strings.TrimSuffix(got.Out, "\n")
				var want2 []string
				for _, s := range out {
					want2 = append(want2, fmt.Sprintf("%q", s))
				}
				if exp := strings.Join(want2, " "); exp != line {
					res.violate(Violation{Eco: name, Kind: "cli-sort-quoting", Input: av, Expected: exp, Actual: line})
				}
				ov := make([]any, 0, len(out))
				for _, s := range out {
					if pr := e.Parse(s); pr.OK {
						ov = append(ov, pr.Val)
					}
				}
				k, d := sortedOutputProblems(e, want.SortSet, out, ov)
				if k == "sort-order" && name == "alpm" && mixedPkgrel(ov) {
					// alpm versions with and without a pkgrel are not mutually comparable (the
					// exclusion of C01): the order of a mixed list is not claimed
					k = ""
				}
				if k != "" || len(ov) != len(out) {
					v := Violation{Eco: name, Kind: "cli-" + k, Input: av, Expected: "the quoted inputs in library order", Actual: d}
					classifyOrder(e, &v, want.SortVals...)
					res.violate(v)
				}
			}
		}
		if spawned < 60 && i%(len(cases)/60+1) == 0 {
			noNUL := true
			for _, a := range av {
				if strings.ContainsRune(a, 0) {
					noNUL = false
				}
			}
			if noNUL {
				sp := cliSpawn(av)
				spawned++
				if sp.Code != got.Code || sp.Out != got.Out {
					res.violate(Violation{Eco: name, Kind: "cli-process-differs", Input: av, Expected: fmt.Sprintf("exit %d %q (in-process run)", got.Code, got.Out), Actual: fmt.Sprintf("exit %d %q", sp.Code, sp.Out)})
				}
			}
		}
		if i < 3 {
			res.sample(map[string]any{"argv": av, "exit": got.Code, "stdout": got.Out})
		}
	}
	res.DistinctNontrivial = nOK
	res.Distribution["cases"] = len(cases)
	res.Distribution["successes_per_name"] = byName
	res.Distribution["real_process_executions"] = spawned
	// registry: every library name is served, under exactly its own ecosystem (discriminating
	// inputs above); reported separately so that a missing name is named
	for _, e := range allEcos {
		if byName[e.Name] == 0 {
			res.violate(Violation{Eco: e.Name, Kind: "cli-name-not-served", Input: e.Name, Expected: "at least one successful command under this name", Actual: "none"})
		}
		if e.LibName != e.Name {
			res.Notes = append(res.Notes, "Name() mismatch "+e.Name)
		}
	}
	// CLI model over the implementation's library
	if ctx.Pool != nil {
		var reqs []string
		var idx []int
		for i, av := range cases {
			ok := true
			for _, a := range av {
				if !isASCII(a) {
					ok = false
				}
			}
			if !ok || len(reqs) >= 30000 {
				continue
			}
			q := "CL O"
			for _, a := range av {
				q += " " + hx(a)
			}
			reqs = append(reqs, q)
			idx = append(idx, i)
		}
		ans, err := ctx.Pool.Map(reqs)
		if err != nil {
			res.Notes = append(res.Notes, "model error: "+err.Error())
			return
		}
		st := res.stream("CLI.run")
		for k, a := range ans {
			i := idx[k]
			got := outs[i]
			st.Cases++
			f := strings.SplitN(a, " ", 2)
			arg := ""
			if len(f) == 2 {
				arg = unhx(f[1])
			}
			agree := false
			impl := fmt.Sprintf("exit %d %q", got.Code, got.Out)
			switch f[0] {
			case "ok":
				agree = got.Code == 0 && got.Out == arg+"\n"
				if !agree && got.Code == 0 && len(cases[i]) > 1 && cases[i][1] == "sort" {
					// unstable sort: same multiset and class sequence is checked above
					mo, ok1 := parseQuoted(arg)
					io, ok2 := parseQuoted(strings.TrimSuffix(got.Out, "\n"))
					agree = ok1 && ok2 && len(mo) == len(io)
				}
			case "fail":
				agree = got.Code == 1 && strings.HasPrefix(got.Out, arg)
			}
			if !agree {
				res.disagree(Disagreement{Stream: "CLI.run", Eco: "cli", Request: reqs[k], Input: cases[i], Impl: impl, Model: a})
			}
		}
	}
}

// unicodeSpaces: the argument with its ASCII blanks replaced by (or, if it has none, with one
// inserted at a token boundary or at an end of) a Unicode white-space character.  The library
// decides what such text means; the CLI must pass it through unchanged.
func unicodeSpaces(r *RNG, a string) string {
	sp := r.Pick([]string{"\u00a0", "\u0085", "\u2003", "\u3000", "\u00a0", "\u2028"})
	if strings.Contains(a, " ") {
		if r.Chance(50) {
			return strings.ReplaceAll(a, " ", sp)
		}
		return strings.Replace(a, " ", sp, 1)
	}
	ts := tokens(a)
	switch r.Intn(4) {
	case 0:
		return a + sp
	case 1:
		return sp + a
	default:
		if len(ts) < 2 {
			return a + sp
		}
		i := 1 + r.Intn(len(ts)-1)
		return strings.Join(ts[:i], "") + sp + strings.Join(ts[i:], "")
	}
}

// nonASCIIInside: a printable non-ASCII letter (or a rune that case-folds to an ASCII letter, or a
// non-ASCII digit) in place of / next to one alphanumeric byte of a.  The permissive grammars
// (alpine, alpm, debian, maven, rpm) accept such texts; quoting, lower-casing and byte-wise
// scanners treat them differently from ASCII.
func nonASCIIInside(r *RNG, a string) string {
	// incl. runes whose lower- or upper-case form has another UTF-8 length (U+212A K -> k, U+2126
	// -> ω, U+212B -> å, U+1E9E -> ß, U+0130 -> i̇, U+023A -> ⱥ): offsets computed on one form
	// and applied to the other go out of range
	u := r.Pick([]string{"é", "ü", "ß", "Ω", "漢", "😀", "\u212a", "\u017f", "İ", "٣", "３", "ǅ", "\u2126", "\u212b", "\u1e9e", "\u023a", "ı"})
	var idx []int
	for i := 0; i < len(a); i++ {
		if tokClass(a[i]) != 2 {
			idx = append(idx, i)
		}
	}
	if len(idx) == 0 {
		return a + u
	}
	i := idx[r.Intn(len(idx))]
	switch r.Intn(3) {
	case 0:
		return a[:i] + u + a[i+1:]
	case 1:
		return a[:i] + u + a[i:]
	}
	return a + u
}

// mixedPkgrel: the alpm values do not all agree on having a pkgrel.
func mixedPkgrel(vals []any) bool {
	with, without := false, false
	for _, v := range vals {
		if b, ok := boolField(v, "hasPkgrel"); ok && b {
			with = true
		} else {
			without = true
		}
	}
	return with && without
}

// encodedArg: the argument with one or all of its punctuation bytes written in an escape notation
// some other tool would decode (percent-encoding, a backslash escape, an HTML entity, '+' for a
// blank).  To the CLI an argument is a text: the escaped text is what the library must be asked.
func encodedArg(r *RNG, a string) string {
	var pos []int
	for i := 0; i < len(a); i++ {
		c := a[i]
		if c < 0x80 && !(c >= '0' && c <= '9') && !(c >= 'a' && c <= 'z') && !(c >= 'A' && c <= 'Z') {
			pos = append(pos, i)
		}
	}
	if len(pos) == 0 {
		if len(a) == 0 {
			return "%20"
		}
		pos = []int{r.Intn(len(a))}
	}
	enc := func(c byte) string {
		switch r.Intn(6) {
		case 0:
			return fmt.Sprintf("\\x%02x", c)
		case 1:
			ent := map[byte]string{'>': "&gt;", '<': "&lt;", '&': "&amp;", '"': "&quot;"}
			if e, ok := ent[c]; ok {
				return e
			}
			return fmt.Sprintf("&#%d;", c)
		case 2:
			return fmt.Sprintf("%%%02x", c)
		default:
			return fmt.Sprintf("%%%02X", c)
		}
	}
	if r.Chance(45) {
		// every punctuation byte after the scheme separator (or all of them)
		from := strings.IndexByte(a, '/') + 1
		var b strings.Builder
		mode := r.Intn(2)
		for i := 0; i < len(a); i++ {
			c := a[i]
			isP := c < 0x80 && !(c >= '0' && c <= '9') && !(c >= 'a' && c <= 'z') && !(c >= 'A' && c <= 'Z')
			if isP && i >= from && (mode == 0 || c != '.') {
				b.WriteString(fmt.Sprintf("%%%02X", c))
			} else {
				b.WriteByte(c)
			}
		}
		return b.String()
	}
	i := pos[r.Intn(len(pos))]
	return a[:i] + enc(a[i]) + a[i+1:]
}
