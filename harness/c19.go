package main

import (
	"github.com/alowayed/go-univers/pkg/spec/vers"
	"fmt"
	"sync"
)

func init() { props["C19"] = checkC19 }

// checkC19: determinism, no observable mutation, and concurrent use.  When this binary is built
// with -race (bin/check does that for C19) the Go race detector watches every access below;
// a detected race makes the process exit with status 66 and a report on stderr.
func checkC19(ctx *Ctx) {
	res := ctx.Res
	res.Rule = "per ecosystem: one shared Ecosystem value, a pool of shared Version values and shared VersionRange values; G goroutines each run the whole query list (NewVersion, NewVersionRange, Compare on every pair, Contains on every (range, version), String, and vers.Contains on a VERS query list) in its own shuffled order, twice, on the SHARED values, while other goroutines do the same. Checked: every goroutine's answers equal the sequential answers computed before (determinism, history independence, schedule independence); a reflective deep dump (%+v of the pointed-to struct, unexported fields included) of every shared value is unchanged afterwards; under the race detector no data race is reported. non-trivial = distinct queries whose answer is not the default (Compare != 0, Contains true, parse accepted)"
	G, nV, nR := 8, 24, 16
	if !ctx.Quick {
		G, nV, nR = 16, 60, 40
	}
	dist := map[string]any{}
	nontrivial := 0
	for _, e := range allEcos {
		r := NewRNG(ctx.Seed, "C19/"+e.Name)
		p, cands := BuildPool(e, r, nV, corpusVersions(e.Name))
		if len(p.Strs) < 2 {
			continue
		}
		rtexts, rvals := rangeSet(e, r, p, nR)
		texts := append([]string{}, p.Strs...)
		for _, c := range cands {
			if len(texts) < 2*nV {
				texts = append(texts, c)
			}
		}
		type query struct {
			kind    string
			i, j    int
			text    string
			version string
		}
		var qs []query
		for i := range p.Vals {
			qs = append(qs, query{kind: "String", i: i})
			for j := range p.Vals {
				qs = append(qs, query{kind: "Compare", i: i, j: j})
			}
			for j := range rvals {
				qs = append(qs, query{kind: "Contains", i: i, j: j})
			}
		}
		for j := range rvals {
			qs = append(qs, query{kind: "RString", j: j})
		}
		for _, t := range texts {
			qs = append(qs, query{kind: "NewVersion", text: t})
		}
		for _, t := range rtexts {
			qs = append(qs, query{kind: "NewVersionRange", text: t})
		}
		for sch, eco := range schemeEco {
			if eco != e.Name {
				continue
			}
			for k := 0; k < 20; k++ {
				a := p.Strs[r.Intn(len(p.Strs))]
				b := p.Strs[r.Intn(len(p.Strs))]
				qs = append(qs, query{kind: "vers", text: "vers:" + sch + "/>=" + a + "|<" + b, version: p.Strs[r.Intn(len(p.Strs))]})
			}
		}
		answer := func(q query) string {
			switch q.kind {
			case "String":
				s, pan := e.Str(p.Vals[q.i])
				return s + pan
			case "RString":
				s, pan := e.StrR(rvals[q.j])
				return s + pan
			case "Compare":
				c, pan := e.Compare(p.Vals[q.i], p.Vals[q.j])
				return fmt.Sprint(c) + pan
			case "Contains":
				c, pan := e.Contains(rvals[q.j], p.Vals[q.i])
				return fmt.Sprint(c) + pan
			case "NewVersion":
				pr := e.Parse(q.text)
				if !pr.OK {
					return "err" + pr.Panic
				}
				return derefDump(pr.Val)
			case "NewVersionRange":
				pr := e.ParseRange(q.text)
				if !pr.OK {
					return "err" + pr.Panic
				}
				s, _ := e.StrR(pr.Val)
				return "ok " + s
			case "vers":
				return vresString(versContains(q.text, q.version))
			}
			return ""
		}
		dump := func() []string {
			var d []string
			for _, v := range p.Vals {
				d = append(d, deepDump(v))
			}
			for _, v := range rvals {
				d = append(d, deepDump(v))
			}
			return d
		}
		// Phase 0 — first use under concurrency: a second, freshly parsed copy of the shared
		// values is handed to the goroutines BEFORE anything has been called on it (lazily filled
		// caches are written on first use); the answers are compared with the sequential answers
		// computed below on the first copy.
		fresh := &Pool{Eco: e}
		for _, s := range p.Strs {
			if pr := e.Parse(s); pr.OK {
				fresh.Strs = append(fresh.Strs, s)
				fresh.Vals = append(fresh.Vals, pr.Val)
			}
		}
		var freshR []any
		for _, t := range rtexts {
			if pr := e.ParseRange(t); pr.OK {
				freshR = append(freshR, pr.Val)
			}
		}
		firstUse := make([][]string, G)
		if len(fresh.Vals) == len(p.Vals) && len(freshR) == len(rvals) {
			var wg0 sync.WaitGroup
			for g := 0; g < G; g++ {
				g := g
				wg0.Add(1)
				go func() {
					defer wg0.Done()
					out := make([]string, len(qs))
					rg := NewRNG(ctx.Seed+uint64(g)*104729, "C19/first/"+e.Name)
					for _, i := range rg.Perm(len(qs)) {
						q := qs[i]
						switch q.kind {
						case "Compare":
							c, pan := e.Compare(fresh.Vals[q.i], fresh.Vals[q.j])
							out[i] = fmt.Sprint(c) + pan
						case "Contains":
							c, pan := e.Contains(freshR[q.j], fresh.Vals[q.i])
							out[i] = fmt.Sprint(c) + pan
						case "String":
							s, pan := e.Str(fresh.Vals[q.i])
							out[i] = s + pan
						default:
							out[i] = "-"
						}
					}
					firstUse[g] = out
				}()
			}
			wg0.Wait()
		}
		before := dump()
		seq := make([]string, len(qs))
		for i, q := range qs {
			seq[i] = answer(q)
			if (q.kind == "Compare" && seq[i] != "0") || (q.kind == "Contains" && seq[i] == "true") || (q.kind == "NewVersion" && seq[i] != "err") {
				nontrivial++
			}
		}
		for g := range firstUse {
			for i, got := range firstUse[g] {
				if got != "" && got != "-" && got != seq[i] {
					res.violate(Violation{Eco: e.Name, Kind: "result-differs-under-concurrency", Input: map[string]any{"query": qs[i].kind, "args": queryArgs(p, rtexts, qs[i].i, qs[i].j, qs[i].text, qs[i].version), "goroutine": g, "phase": "first use of freshly parsed shared values"},
						Expected: seq[i] + " (sequential answer)", Actual: got})
				}
			}
		}
		res.Evaluations += len(qs) * G
		var wg sync.WaitGroup
		var mu sync.Mutex
		for g := 0; g < G; g++ {
			g := g
			wg.Add(1)
			go func() {
				defer wg.Done()
				rg := NewRNG(ctx.Seed+uint64(g)*7919, "C19/g/"+e.Name)
				for round := 0; round < 2; round++ {
					order := rg.Perm(len(qs))
					for _, i := range order {
						got := answer(qs[i])
						if got != seq[i] {
							mu.Lock()
							res.violate(Violation{Eco: e.Name, Kind: "result-differs-under-concurrency", Input: map[string]any{"query": qs[i].kind, "args": queryArgs(p, rtexts, qs[i].i, qs[i].j, qs[i].text, qs[i].version), "goroutine": g, "round": round},
								Expected: seq[i] + " (sequential answer)", Actual: got})
							mu.Unlock()
						}
					}
				}
			}()
		}
		wg.Wait()
		res.Evaluations += len(qs) * (2*G + 1)
		after := dump()
		for i := range before {
			if before[i] != after[i] {
				res.violate(Violation{Eco: e.Name, Kind: "shared-value-modified", Input: before[i], Expected: "unchanged after all calls", Actual: after[i]})
			}
		}
		// repeated sequential evaluation (history independence)
		for i := len(qs) - 1; i >= 0; i-- {
			if got := answer(qs[i]); got != seq[i] {
				res.violate(Violation{Eco: e.Name, Kind: "result-depends-on-history", Input: map[string]any{"query": qs[i].kind, "args": queryArgs(p, rtexts, qs[i].i, qs[i].j, qs[i].text, qs[i].version)}, Expected: seq[i], Actual: got})
			}
		}
		dist[e.Name] = map[string]int{"queries": len(qs), "shared_versions": len(p.Vals), "shared_ranges": len(rvals), "goroutines": G}
		if len(qs) > 0 {
			res.sample(map[string]any{"eco": e.Name, "query": qs[len(qs)/2].kind, "answer": seq[len(qs)/2]})
		}
	}
	// repeated calls return the same results, error values included: the same failing call is made
	// thirty times (map iteration order, pooled buffers and time stamps show as a text that
	// varies).  Malformed VERS ranges of every class, with every proper prefix and one-byte
	// extension of every scheme name, and rejected versions and ranges of every ecosystem.
	{
		r := NewRNG(ctx.Seed, "C19/errors")
		var failing []func() string
		var descr []string
		addVers := func(rng, probe string) {
			failing = append(failing, func() string {
				_, err := vers.Contains(rng, probe)
				if err == nil {
					return "<nil>"
				}
				return err.Error()
			})
			descr = append(descr, fmt.Sprintf("vers.Contains(%q, %q)", rng, probe))
		}
		for _, sch := range schemeNames {
			for k := 1; k < len(sch); k++ {
				addVers("vers:"+sch[:k]+"/>=1.0.0", "1.0.0")
			}
			addVers("vers:"+sch+"x/>=1.0.0", "1.0.0")
			addVers("vers:"+sch+"/>=!!bad!!", "1.0.0")
			addVers("vers:"+sch+"/>=1.0.0|<", "1.0.0")
			addVers("vers:"+sch+"/>=1.0.0", "!!bad!!")
			addVers("vers:"+sch+"/*|>=1", "1.0.0")
		}
		for _, e := range allEcos {
			e := e
			for _, bad := range []string{"!!bad!!", "", "1..2", ">=", "^^1", r.Pick([]string{"1.0.0-", "v", "[1,", "~>"})} {
				bad := bad
				failing = append(failing, func() string { p := e.Parse(bad); return fmt.Sprint(p.OK, p.Err) })
				descr = append(descr, e.Name+".NewVersion("+fmt.Sprintf("%q", bad)+")")
				failing = append(failing, func() string { p := e.ParseRange(bad); return fmt.Sprint(p.OK, p.Err) })
				descr = append(descr, e.Name+".NewVersionRange("+fmt.Sprintf("%q", bad)+")")
			}
		}
		for i, f := range failing {
			first := f()
			for k := 0; k < 30; k++ {
				res.Evaluations++
				if got := f(); got != first {
					res.violateKey(Violation{Eco: "-", Kind: "repeated-call-differs", Input: descr[i], Expected: first + " (the result of the first call)", Actual: got}, "error-text")
					break
				}
			}
		}
	}
	res.DistinctNontrivial = nontrivial
	res.Distribution["per_ecosystem"] = dist
	res.Distribution["race_detector"] = raceEnabled
}

func queryArgs(p *Pool, rtexts []string, i, j int, text, version string) []string {
	var a []string
	if text != "" {
		a = append(a, text)
	}
	if version != "" {
		a = append(a, version)
	}
	if text == "" {
		if i < len(p.Strs) {
			a = append(a, p.Strs[i])
		}
		if j < len(p.Strs) {
			a = append(a, fmt.Sprintf("#%d", j))
		}
	}
	return a
}
