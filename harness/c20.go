package main

import (
	"fmt"
	"sort"
	"strings"
)

func init() {
	props["C20"] = checkC20
	props["C18"] = checkC18
}

// spellingVariants: candidate respellings of an accepted version text; the caller keeps those
// that parse and compare equal to the original.
func spellingVariants(r *RNG, eco, s string) []string {
	var out []string
	add := func(x string) {
		if x != s && x != "" {
			out = append(out, x)
		}
	}
	add("v" + s)
	add("V" + s)
	if strings.HasPrefix(s, "v") || strings.HasPrefix(s, "V") {
		add(s[1:])
	}
	add("=" + s)
	add(s + ".0")
	add(s + ".0.0")
	add(s + "-0")
	add(s + "-r0")
	add(s + "_p0")
	add("0:" + s)
	add(s + "+build")
	add(s + "+b.1")
	add(s + ".final")
	add(s + "-ga")
	add(s + ".post0")
	if i := strings.IndexByte(s, '+'); i > 0 {
		add(s[:i])
		add(s[:i] + "+other")
	}
	if strings.HasSuffix(s, ".0") {
		add(s[:len(s)-2])
	}
	add(strings.ToUpper(s))
	add(strings.ToLower(s))
	add(strings.Replace(s, "-", ".", 1))
	add(strings.Replace(s, ".", "-", 1))
	add(strings.Replace(s, "-", "_", 1))
	for _, al := range [][2]string{{"alpha", "a"}, {"beta", "b"}, {"rc", "c"}, {"rc", "cr"}, {"milestone", "m"}, {"post", "rev"}, {"post", "r"},
		{"alpha", "ALPHA"}, {"rc", "RC"}, {"-rc", "rc"}, {"-alpha", "alpha"}, {"-beta", "beta"}, {".rc", "rc"}, {"snapshot", "SNAPSHOT"}, {"-", "."}} {
		if strings.Contains(s, al[0]) {
			add(strings.Replace(s, al[0], al[1], 1))
		}
		if strings.Contains(s, al[1]) {
			add(strings.Replace(s, al[1], al[0], 1))
		}
	}
	// leading zeros in the first numeric component
	if len(s) > 0 && s[0] >= '0' && s[0] <= '9' {
		add("0" + s)
	}
	return out
}

type eqPair struct {
	a, b   string
	va, vb any
}

// equalPairs: Compare-equal, textually different pairs of the ecosystem.
func equalPairs(e *Eco, r *RNG, p *Pool, max int) []eqPair {
	var out []eqPair
	seen := map[string]bool{}
	addPair := func(a, b string, va, vb any) {
		if a == b || seen[a+"\x00"+b] || len(out) >= max {
			return
		}
		if e.Name == "alpm" {
			ha, _ := boolField(va, "hasPkgrel")
			hb, _ := boolField(vb, "hasPkgrel")
			if ha != hb {
				return
			}
		}
		seen[a+"\x00"+b] = true
		out = append(out, eqPair{a, b, va, vb})
	}
	for i, s := range p.Strs {
		for _, x := range spellingVariants(r, e.Name, s) {
			pr := e.Parse(x)
			if !pr.OK {
				continue
			}
			if cmpS(e, p.Vals[i], pr.Val) == 0 && cmpS(e, pr.Val, p.Vals[i]) == 0 {
				addPair(s, x, p.Vals[i], pr.Val)
			}
		}
	}
	for i := range p.Strs {
		for j := i + 1; j < len(p.Strs); j++ {
			if cmpS(e, p.Vals[i], p.Vals[j]) == 0 && cmpS(e, p.Vals[j], p.Vals[i]) == 0 {
				addPair(p.Strs[i], p.Strs[j], p.Vals[i], p.Vals[j])
			}
		}
	}
	return out
}

// rangeSet: accepted range texts of the full native grammar over bounds from the pool.
func rangeSet(e *Eco, r *RNG, p *Pool, n int) ([]string, []any) {
	seen := map[string]bool{}
	var texts []string
	var vals []any
	add := func(s string) {
		if seen[s] {
			return
		}
		seen[s] = true
		pr := e.ParseRange(s)
		if pr.OK {
			texts = append(texts, s)
			vals = append(vals, pr.Val)
		}
	}
	for _, s := range corpusRanges(e.Name) {
		add(s)
	}
	// range literals of the repository's own tests (a seed-dependent sample of them)
	_, hr := harvestedFor(e)
	for k, i := range r.Perm(len(hr)) {
		if k >= 1+n/5 {
			break
		}
		add(hr[i])
	}
	var cands []string
	for i := 0; i < 8*n && len(texts) < n; i++ {
		s := genRange(r, e.Name, p)
		cands = append(cands, s)
		add(s)
		switch {
		case i%16 == 7 && len(cands) > 2:
			// crossover of two range texts, or of a range text and a harvested one
			b := cands[r.Intn(len(cands))]
			if len(hr) > 0 && r.Chance(50) {
				b = hr[r.Intn(len(hr))]
			}
			add(splice(r, s, b))
		case i%16 == 11:
			// a long conjunction / disjunction: many comparators in one text (length limits)
			add(longRange(r, e.Name, p))
		}
	}
	return texts, vals
}

func conjOnlyText(eco, s string) bool {
	if strings.Contains(s, "|") || strings.Contains(s, "!") || strings.Contains(s, "<>") {
		return false
	}
	return true
}

func checkC20(ctx *Ctx) {
	res := ctx.Res
	res.Rule = "per ecosystem: Compare-equal, textually different pairs (spelling variants of pool members that parse and compare equal both ways: prefix v, trailing zeros, build metadata, letter case, alias qualifiers, separators; plus equal pool pairs) x accepted ranges of the full native grammar (comparators, shorthands, brackets, wildcards, AND/OR): Contains must agree on both members; for conjunction-only range texts (no '|', '!=', '<>') membership over the pool sorted by Compare must be one contiguous block (convexity). Excluded as stated by the property: pypi '===', alpm pairs differing in pkgrel presence. non-trivial = distinct (range, pair) with the pair textually different, plus (range) whose member block is neither empty nor the whole pool"
	nPool, nRanges, nPairs := 80, 250, 400
	if !ctx.Quick {
		nPool, nRanges, nPairs = 240, 3000, 4000
	}
	dist := map[string]any{}
	distinct := 0
	for _, e := range allEcos {
		r := NewRNG(ctx.Seed, "C20/"+e.Name)
		p, _ := BuildPool(e, r, nPool, corpusVersions(e.Name))
		if len(p.Strs) < 3 {
			continue
		}
		pairs := equalPairs(e, r, p, nPairs)
		texts, rvals := rangeSet(e, r, p, nRanges)
		// sorted pool per comparability class (alpm: versions with and without pkgrel are
		// separate classes, as in C01); only order-consistent classes are used for convexity
		classes := map[int][]int{}
		for i := range p.Strs {
			g := 0
			if e.Name == "alpm" {
				if b, ok := boolField(p.Vals[i], "hasPkgrel"); ok && b {
					g = 1
				}
			}
			classes[g] = append(classes[g], i)
		}
		var sortedClasses [][]int
		var looseClasses [][]int // classes on which Compare is not one linear preorder
		for g := 0; g < 2; g++ {
			idx := classes[g]
			if len(idx) < 3 {
				continue
			}
			sort.SliceStable(idx, func(a, b int) bool { return cmpS(e, p.Vals[idx[a]], p.Vals[idx[b]]) < 0 })
			ok := true
			for a := 0; a+1 < len(idx) && ok; a++ {
				for b := a + 1; b < len(idx); b++ {
					if cmpS(e, p.Vals[idx[a]], p.Vals[idx[b]]) > 0 {
						ok = false
						break
					}
				}
			}
			if ok {
				sortedClasses = append(sortedClasses, idx)
			} else {
				looseClasses = append(looseClasses, idx)
			}
		}
		nConvex, nEq := 0, 0
		for ri, rt := range texts {
			if e.Name == "pypi" && strings.Contains(rt, "===") {
				continue
			}
			for _, pq := range pairs {
				ca, pa := e.Contains(rvals[ri], pq.va)
				cb, pb := e.Contains(rvals[ri], pq.vb)
				res.Evaluations += 2
				nEq++
				if pa != "" || pb != "" || ca != cb {
					v := Violation{Eco: e.Name, Kind: "equal-versions-differ", Input: map[string]any{"range": rt, "a": pq.a, "b": pq.b},
						Expected: "Contains(a) == Contains(b) since Compare(a,b) == 0", Actual: fmt.Sprintf("%v vs %v %s%s", ca, cb, pa, pb)}
					classifyC20(e, &v, rt, pq)
					res.violate(v)
				}
			}
			if !conjOnlyText(e.Name, rt) {
				continue
			}
			for _, idx := range sortedClasses {
				// convexity: members form one block in the sorted class (up to equal neighbours)
				first, last := -1, -1
				mem := make([]bool, len(idx))
				for k, i := range idx {
					c, _ := e.Contains(rvals[ri], p.Vals[i])
					res.Evaluations++
					mem[k] = c
					if c {
						if first < 0 {
							first = k
						}
						last = k
					}
				}
				if first >= 0 && (first > 0 || last < len(idx)-1) {
					nConvex++
				}
				for k := first + 1; first >= 0 && k < last; k++ {
					if !mem[k] {
						v := Violation{Eco: e.Name, Kind: "not-convex", Input: map[string]any{"range": rt, "a": p.Strs[idx[first]], "b": p.Strs[idx[k]], "c": p.Strs[idx[last]]},
							Expected: "a <= b <= c, range contains a and c, so it contains b", Actual: "b not contained"}
						classifyConvex(e, &v, rt, p.Vals[idx[k]])
						res.violate(v)
						break
					}
				}
			}
		}
		// classes that Compare does not order linearly (C01 reports that; for maven it is a
		// recorded finding): convexity is checked as the property states it, on triples —
		// a and c contained, a <= b, b <= c, b not contained — without relying on a sorted pool
		for _, idx := range looseClasses {
			n := len(idx)
			le := make([][]bool, n)
			for a := range le {
				le[a] = make([]bool, n)
				for b := range le[a] {
					le[a][b] = cmpS(e, p.Vals[idx[a]], p.Vals[idx[b]]) <= 0
				}
			}
			reported := 0
			for ri, rt := range texts {
				if reported >= 3 || !conjOnlyText(e.Name, rt) || (e.Name == "pypi" && strings.Contains(rt, "===")) {
					continue
				}
				mem := make([]bool, n)
				for k, i := range idx {
					mem[k], _ = e.Contains(rvals[ri], p.Vals[i])
					res.Evaluations++
				}
			search:
				for b := 0; b < n; b++ {
					if mem[b] {
						continue
					}
					for a := 0; a < n; a++ {
						if !mem[a] || !le[a][b] {
							continue
						}
						for c := 0; c < n; c++ {
							if mem[c] && le[b][c] {
								v := Violation{Eco: e.Name, Kind: "not-convex", Input: map[string]any{"range": rt, "a": p.Strs[idx[a]], "b": p.Strs[idx[b]], "c": p.Strs[idx[c]]},
									Expected: "a <= b <= c, range contains a and c, so it contains b", Actual: "b not contained"}
								classifyConvex(e, &v, rt, p.Vals[idx[b]])
								if v.Finding == "" {
									classifyOrder(e, &v, p.Vals[idx[a]], p.Vals[idx[b]], p.Vals[idx[c]])
								}
								res.violate(v)
								reported++
								break search
							}
						}
					}
				}
			}
		}
		distinct += nEq + nConvex
		dist[e.Name] = map[string]int{"pool": len(p.Strs), "equal_pairs": len(pairs), "ranges": len(texts), "convexity_ranges_nontrivial": nConvex}
		if len(pairs) > 0 && len(texts) > 0 {
			res.sample(map[string]any{"eco": e.Name, "pair": []string{pairs[0].a, pairs[0].b}, "range": texts[0]})
		}
	}
	res.DistinctNontrivial = distinct
	res.Distribution["per_ecosystem"] = dist
}

// classifyC20 / classifyConvex attach the recorded finding whose class contains the violation.
func classifyC20(e *Eco, v *Violation, rng string, pq eqPair) {
	if f := findingFor("C20", e.Name, v.Kind, rng, []string{pq.a, pq.b}); f != "" {
		v.Finding = f
	}
}

func classifyConvex(e *Eco, v *Violation, rng string, b any) {
	s, _ := e.Str(b)
	if f := findingFor("C20", e.Name, v.Kind, rng, []string{s}); f != "" {
		v.Finding = f
	}
}

// ---------- C18 ----------

var pads = []string{" ", "\t", "\n", "\r", "  ", "\r\n", " \t ", "\n\n", "\v", "\f", " \f\v"}

func checkC18(ctx *Ctx) {
	res := ctx.Res
	res.Rule = "per ecosystem, for every accepted version text of the pool (generated, mutated, corpus; incl. v/=/release- prefixes and upper-case qualifiers) and every accepted range text of the full grammar: TrimSpace(String()) == TrimSpace(input); parsing String() again succeeds and the value compares equal to the first (ranges: same Contains on every pool probe); padding the input with leading/trailing SP TAB CR LF changes neither acceptance (also for rejected texts) nor any Compare / Contains result against the pool. non-trivial = distinct (text, padding) cases of accepted texts"
	nPool, nRanges, nProbe := 90, 200, 30
	if !ctx.Quick {
		nPool, nRanges, nProbe = 260, 2500, 120
	}
	dist := map[string]any{}
	distinct := map[string]bool{}
	for _, e := range allEcos {
		r := NewRNG(ctx.Seed, "C18/"+e.Name)
		p, cands := BuildPool(e, r, nPool, corpusVersions(e.Name))
		if len(p.Strs) == 0 {
			continue
		}
		probes := p.Vals
		if len(probes) > nProbe {
			probes = probes[:nProbe]
		}
		nv, nr, nrej := 0, 0, 0
		for i, s := range p.Strs {
			v := p.Vals[i]
			str, _ := e.Str(v)
			res.Evaluations++
			if strings.TrimSpace(str) != strings.TrimSpace(s) {
				res.violate(Violation{Eco: e.Name, Kind: "version-string", Input: s, Expected: "String() == input up to surrounding whitespace", Actual: str})
			}
			re := e.Parse(str)
			if !re.OK || cmpS(e, v, re.Val) != 0 || cmpS(e, re.Val, v) != 0 {
				res.violate(Violation{Eco: e.Name, Kind: "version-reparse", Input: s, Expected: "NewVersion(String()) succeeds and compares equal", Actual: fmt.Sprintf("ok=%v", re.OK)})
			}
			pad := r.Pick(pads) + s + r.Pick(append(pads, ""))
			if r.Chance(30) {
				pad = s + r.Pick(pads)
			}
			pp := e.Parse(pad)
			nv++
			distinct[e.Name+"\x00v\x00"+pad] = true
			if !pp.OK {
				res.violate(Violation{Eco: e.Name, Kind: "version-padding-acceptance", Input: pad, Expected: "accepted like the unpadded text", Actual: "rejected"})
				continue
			}
			for _, q := range probes {
				res.Evaluations++
				if cmpS(e, pp.Val, q) != cmpS(e, v, q) || cmpS(e, q, pp.Val) != cmpS(e, q, v) {
					qs, _ := e.Str(q)
					res.violate(Violation{Eco: e.Name, Kind: "version-padding-compare", Input: []string{pad, qs}, Expected: fmt.Sprint(cmpS(e, v, q)), Actual: fmt.Sprint(cmpS(e, pp.Val, q))})
					break
				}
			}
		}
		// rejected texts stay rejected when padded
		for _, s := range cands {
			if e.Parse(s).OK || strings.TrimSpace(s) == "" {
				continue
			}
			pad := r.Pick(pads) + s + r.Pick(pads)
			nrej++
			res.Evaluations++
			if e.Parse(pad).OK {
				res.violate(Violation{Eco: e.Name, Kind: "version-padding-acceptance", Input: pad, Expected: "rejected like the unpadded text", Actual: "accepted"})
			}
		}
		texts, rvals := rangeSet(e, r, p, nRanges)
		if e.Name == "pypi" {
			// identity operator: its result must not depend on padding of the probe either
			for i := 0; i < 12 && i < len(p.Strs); i++ {
				if pr := e.ParseRange("===" + strings.TrimSpace(p.Strs[i])); pr.OK {
					texts = append(texts, "==="+strings.TrimSpace(p.Strs[i]))
					rvals = append(rvals, pr.Val)
				}
			}
		}
		// padded versions against every range
		for i, s := range p.Strs {
			if i%2 == 1 {
				continue
			}
			pad := r.Pick(pads) + s + r.Pick(pads)
			pp := e.Parse(pad)
			if !pp.OK {
				continue // reported above
			}
			for k, rv := range rvals {
				c0, _ := e.Contains(rv, p.Vals[i])
				c1, _ := e.Contains(rv, pp.Val)
				res.Evaluations += 2
				if c0 != c1 {
					v := Violation{Eco: e.Name, Kind: "version-padding-contains", Input: []string{texts[k], pad}, Expected: fmt.Sprint(c0) + " (as for the unpadded version)", Actual: fmt.Sprint(c1)}
					if f := findingFor("C18", e.Name, v.Kind, texts[k], []string{pad}); f != "" {
						v.Finding = f
					}
					res.violate(v)
					break
				}
			}
		}
		for i, rt := range texts {
			str, _ := e.StrR(rvals[i])
			if strings.TrimSpace(str) != strings.TrimSpace(rt) {
				res.violate(Violation{Eco: e.Name, Kind: "range-string", Input: rt, Expected: "String() == input up to surrounding whitespace", Actual: str})
			}
			re := e.ParseRange(str)
			pad := r.Pick(pads) + rt + r.Pick(append(pads, ""))
			pp := e.ParseRange(pad)
			nr++
			distinct[e.Name+"\x00r\x00"+pad] = true
			if !re.OK {
				res.violate(Violation{Eco: e.Name, Kind: "range-reparse", Input: rt, Expected: "NewVersionRange(String()) succeeds", Actual: "rejected"})
				continue
			}
			if !pp.OK {
				res.violate(Violation{Eco: e.Name, Kind: "range-padding-acceptance", Input: pad, Expected: "accepted like the unpadded text", Actual: "rejected"})
				continue
			}
			for k, q := range probes {
				c0, _ := e.Contains(rvals[i], q)
				c1, _ := e.Contains(re.Val, q)
				c2, _ := e.Contains(pp.Val, q)
				res.Evaluations += 3
				if c0 != c1 {
					res.violate(Violation{Eco: e.Name, Kind: "range-reparse", Input: []string{rt, p.Strs[k]}, Expected: fmt.Sprint(c0), Actual: fmt.Sprint(c1)})
					break
				}
				if c0 != c2 {
					res.violate(Violation{Eco: e.Name, Kind: "range-padding-contains", Input: []string{pad, p.Strs[k]}, Expected: fmt.Sprint(c0), Actual: fmt.Sprint(c2)})
					break
				}
			}
		}
		dist[e.Name] = map[string]int{"versions": nv, "rejected_texts": nrej, "ranges": nr}
		res.sample(map[string]any{"eco": e.Name, "version": p.Strs[0], "padded": "\t" + p.Strs[0] + " \n"})
		if !ctx.Quick || true {
			// V- and R-layer correspondence on String() and padded inputs (streams of CORR)
			if ctx.MEcos[e.Name] {
				corrV(ctx, e, 500, 0)
			}
		}
	}
	res.DistinctNontrivial = len(distinct)
	res.Distribution["per_ecosystem"] = dist
}
