package main

import (
	"bufio"
	"bytes"
	"encoding/hex"
	"fmt"
	"os"
	"os/exec"
	"strconv"
	"strings"

	"github.com/alowayed/go-univers/pkg/spec/vers"
)

// ---------- running the CLI ----------

type cliRes struct {
	Code  int
	Out   string
	Panic string
}

func batchBin() string {
	if p := os.Getenv("UNIVERS_BATCH"); p != "" {
		return p
	}
	return verifRoot() + "/_build/univers-batch"
}
func plainBin() string {
	if p := os.Getenv("UNIVERS_BIN"); p != "" {
		return p
	}
	return verifRoot() + "/_build/univers"
}

// cliBatch runs run(w, args) in-process for every argument vector (binary built from /repo/cmd
// with the verif tag, see cmd/verif_hook.go).
func cliBatch(argvs [][]string) ([]cliRes, error) {
	var in bytes.Buffer
	for _, av := range argvs {
		for i, a := range av {
			if i > 0 {
				in.WriteByte(' ')
			}
			if a == "" {
				in.WriteByte('-')
			} else {
				in.WriteString(hex.EncodeToString([]byte(a)))
			}
		}
		in.WriteByte('\n')
	}
	cmd := exec.Command(batchBin())
	cmd.Env = append(os.Environ(), "UNIVERS_VERIF_BATCH=1")
	cmd.Stdin = &in
	var out bytes.Buffer
	cmd.Stdout = &out
	if err := cmd.Run(); err != nil {
		return nil, fmt.Errorf("batch CLI: %v", err)
	}
	res := make([]cliRes, 0, len(argvs))
	sc := bufio.NewScanner(&out)
	sc.Buffer(make([]byte, 1<<24), 1<<24)
	unh := func(s string) string {
		if s == "-" {
			return ""
		}
		b, _ := hex.DecodeString(s)
		return string(b)
	}
	for sc.Scan() {
		f := strings.Split(sc.Text(), " ")
		if len(f) != 3 {
			return nil, fmt.Errorf("batch CLI: bad line %q", sc.Text())
		}
		c, _ := strconv.Atoi(f[0])
		res = append(res, cliRes{c, unh(f[1]), unh(f[2])})
	}
	if len(res) != len(argvs) {
		return nil, fmt.Errorf("batch CLI: %d answers for %d requests", len(res), len(argvs))
	}
	return res, nil
}

// cliSpawn executes the real binary once.
func cliSpawn(argv []string) cliRes {
	cmd := exec.Command(plainBin(), argv...)
	var out bytes.Buffer
	cmd.Stdout = &out
	err := cmd.Run()
	code := 0
	if err != nil {
		if ee, ok := err.(*exec.ExitError); ok {
			code = ee.ExitCode()
		} else {
			return cliRes{-1, "", err.Error()}
		}
	}
	return cliRes{code, out.String(), ""}
}

// ---------- what the library says (the oracle of C15) ----------

type libAnswer struct {
	OK       bool
	Line     string   // expected stdout line without the trailing newline (OK)
	SortSet  []string // for sort: the String() of every input, unsorted
	SortVals []any
	Mention  string // for failures that must name an argument: that argument
}

var cliNames = func() []string {
	var n []string
	for _, e := range allEcos {
		n = append(n, e.Name)
	}
	return n
}()

func libExpect(argv []string) libAnswer {
	if len(argv) == 0 {
		return libAnswer{}
	}
	name, rest := argv[0], argv[1:]
	if name == "vers" {
		if len(rest) == 0 || rest[0] != "contains" || len(rest) != 3 {
			return libAnswer{}
		}
		ok, err := vers.Contains(rest[1], rest[2])
		if err != nil {
			return libAnswer{}
		}
		return libAnswer{OK: true, Line: fmt.Sprintf("%t", ok)}
	}
	e := ecoByName(name)
	if e == nil || len(rest) == 0 {
		return libAnswer{}
	}
	cmd, args := rest[0], rest[1:]
	switch cmd {
	case "compare":
		if len(args) != 2 {
			return libAnswer{}
		}
		a, b := e.Parse(args[0]), e.Parse(args[1])
		if !a.OK {
			return libAnswer{Mention: args[0]}
		}
		if !b.OK {
			return libAnswer{Mention: args[1]}
		}
		c, _ := e.Compare(a.Val, b.Val)
		return libAnswer{OK: true, Line: fmt.Sprintf("%d", c)}
	case "contains":
		if len(args) != 2 {
			return libAnswer{}
		}
		r := e.ParseRange(args[0])
		if !r.OK {
			return libAnswer{Mention: args[0]}
		}
		v := e.Parse(args[1])
		if !v.OK {
			return libAnswer{Mention: args[1]}
		}
		c, _ := e.Contains(r.Val, v.Val)
		return libAnswer{OK: true, Line: fmt.Sprintf("%t", c)}
	case "sort":
		if len(args) == 0 {
			return libAnswer{}
		}
		var set []string
		var vals []any
		for _, a := range args {
			p := e.Parse(a)
			if !p.OK {
				return libAnswer{Mention: a}
			}
			s, _ := e.Str(p.Val)
			set = append(set, s)
			vals = append(vals, p.Val)
		}
		return libAnswer{OK: true, SortSet: set, SortVals: vals}
	}
	return libAnswer{}
}

// parseQuoted splits a line of space-separated Go-quoted strings.
func parseQuoted(line string) ([]string, bool) {
	var out []string
	s := line
	for len(s) > 0 {
		if s[0] == ' ' {
			s = s[1:]
			continue
		}
		q, err := strconv.QuotedPrefix(s)
		if err != nil {
			return nil, false
		}
		u, err := strconv.Unquote(q)
		if err != nil {
			return nil, false
		}
		out = append(out, u)
		s = s[len(q):]
	}
	return out, true
}

func isResultLine(s string) bool {
	switch strings.TrimSuffix(s, "\n") {
	case "-1", "0", "1", "true", "false":
		return true
	}
	return strings.HasPrefix(s, "\"")
}

// checkCLIResult compares one CLI outcome with the library's answer; returns "" or a description.
func checkCLIResult(argv []string, got cliRes, want libAnswer) (kind, expected, actual string) {
	if got.Panic != "" {
		return "cli-panic", "no panic", got.Panic
	}
	line := strings.TrimSuffix(got.Out, "\n")
	if want.OK && (!strings.HasSuffix(got.Out, "\n") || strings.Count(got.Out, "\n") != 1) {
		return "cli-one-line", "exactly one line on stdout", strconv.Quote(got.Out)
	}
	if !want.OK {
		if got.Out == "" {
			return "cli-diagnostic", "a diagnostic on stdout", "nothing written"
		}
		if got.Code != 1 {
			return "cli-exit-status", "exit status 1", fmt.Sprintf("exit %d, output %q", got.Code, line)
		}
		if isResultLine(got.Out) {
			return "cli-diagnostic", "a diagnostic, not a result", strconv.Quote(line)
		}
		if want.Mention != "" && !strings.Contains(line, want.Mention) {
			return "cli-diagnostic-names-input", "diagnostic naming " + strconv.Quote(want.Mention), strconv.Quote(line)
		}
		return "", "", ""
	}
	if got.Code != 0 {
		return "cli-exit-status", "exit status 0 and " + strconv.Quote(want.Line), fmt.Sprintf("exit %d, output %q", got.Code, line)
	}
	if want.SortSet == nil {
		if line != want.Line {
			return "cli-result", strconv.Quote(want.Line), strconv.Quote(line)
		}
		return "", "", ""
	}
	// sort: multiset, order, handled by the caller (needs the ecosystem)
	return "", "", ""
}
