package main

import (
	"hash/crc32"
	"hash/adler32"
	"fmt"
	"encoding/json"
	"go/ast"
	"go/constant"
	"go/parser"
	"go/token"
	"math/big"
	"os"
	"path/filepath"
	"sort"
	"strconv"
	"strings"
	"sync"
)

// Change-directed literals.  Every integer and string constant of the non-test sources is a
// potential boundary of the code's behaviour (a digit-count guard, a packed-key width, a length
// limit, a marker word).  The pinned tree's constants are recorded in
// snapshot/source-literals.json; constants of the tree under check that are NOT in that record
// were introduced by whoever changed the code, and the generators give them a family of their
// own: numbers on both sides of the constant at one position of otherwise equal versions, digit
// runs and texts whose LENGTH is around the constant, and the new words spliced into versions.
// On the pinned tree there are no new constants and nothing is added.

type litSet struct {
	Ints    []string `json:"ints"`
	Strs    []string `json:"strs"`
	Imports []string `json:"imports"`
}

var mathConsts = map[string]string{
	"MaxInt8": "127", "MaxInt16": "32767", "MaxInt32": "2147483647", "MaxInt64": "9223372036854775807",
	"MaxUint8": "255", "MaxUint16": "65535", "MaxUint32": "4294967295", "MaxUint64": "18446744073709551615",
	"MaxInt": "9223372036854775807", "MaxUint": "18446744073709551615",
}

// constValue folds literal integer expressions (1<<21, 10*1000, 1<<16-1, math.MaxInt32).
func constValue(e ast.Expr) (constant.Value, bool) {
	switch x := e.(type) {
	case *ast.BasicLit:
		if x.Kind == token.INT {
			v := constant.MakeFromLiteral(x.Value, token.INT, 0)
			return v, v.Kind() == constant.Int
		}
		if x.Kind == token.FLOAT {
			v := constant.ToInt(constant.MakeFromLiteral(x.Value, token.FLOAT, 0))
			return v, v.Kind() == constant.Int
		}
	case *ast.ParenExpr:
		return constValue(x.X)
	case *ast.SelectorExpr:
		if id, ok := x.X.(*ast.Ident); ok && id.Name == "math" {
			if s, ok := mathConsts[x.Sel.Name]; ok {
				return constant.MakeFromLiteral(s, token.INT, 0), true
			}
		}
	case *ast.CallExpr:
		// conversions such as uint64(1) << 40, int64(...)
		if id, ok := x.Fun.(*ast.Ident); ok && len(x.Args) == 1 && (strings.HasPrefix(id.Name, "int") || strings.HasPrefix(id.Name, "uint")) {
			return constValue(x.Args[0])
		}
	case *ast.UnaryExpr:
		if v, ok := constValue(x.X); ok && x.Op == token.SUB {
			return constant.UnaryOp(token.SUB, v, 0), true
		}
	case *ast.BinaryExpr:
		a, ok1 := constValue(x.X)
		b, ok2 := constValue(x.Y)
		if !ok1 || !ok2 {
			return nil, false
		}
		switch x.Op {
		case token.SHL:
			if n, ok := constant.Uint64Val(b); ok && n <= 200 {
				return constant.Shift(a, token.SHL, uint(n)), true
			}
		case token.ADD, token.SUB, token.MUL:
			return constant.BinaryOp(a, x.Op, b), true
		}
	}
	return nil, false
}

func literalsOfDir(dir string) litSet {
	files, _ := filepath.Glob(filepath.Join(dir, "*.go"))
	sort.Strings(files)
	ints, strs, imps := map[string]bool{}, map[string]bool{}, map[string]bool{}
	for _, fn := range files {
		if strings.HasSuffix(fn, "_test.go") || strings.HasSuffix(fn, "verif_hook.go") {
			continue
		}
		fset := token.NewFileSet()
		f, err := parser.ParseFile(fset, fn, nil, 0)
		if err != nil {
			continue
		}
		for _, im := range f.Imports {
			if path, err := strconv.Unquote(im.Path.Value); err == nil {
				imps[path] = true
			}
		}
		ast.Inspect(f, func(n ast.Node) bool {
			if _, ok := n.(*ast.ImportSpec); ok {
				return false
			}
			if e, ok := n.(ast.Expr); ok {
				if v, ok := constValue(e); ok {
					if v.Kind() == constant.Int && constant.Sign(v) >= 0 {
						ints[v.ExactString()] = true
					}
				}
			}
			if b, ok := n.(*ast.BasicLit); ok {
				switch b.Kind {
				case token.STRING:
					if s, err := strconv.Unquote(b.Value); err == nil && len(s) > 0 && len(s) <= 40 {
						strs[s] = true
					}
				case token.CHAR:
					if s, err := strconv.Unquote(b.Value); err == nil && len(s) > 0 {
						strs[s] = true
					}
				}
			}
			return true
		})
	}
	var out litSet
	for k := range ints {
		out.Ints = append(out.Ints, k)
	}
	for k := range strs {
		out.Strs = append(out.Strs, k)
	}
	for k := range imps {
		out.Imports = append(out.Imports, k)
	}
	sort.Strings(out.Ints)
	sort.Strings(out.Strs)
	sort.Strings(out.Imports)
	return out
}

func allSourceDirs(root string) map[string]string {
	dirs := map[string]string{"vers": filepath.Join(root, "pkg/spec/vers"), "cmd": filepath.Join(root, "cmd")}
	ents, _ := os.ReadDir(filepath.Join(root, "pkg/ecosystem"))
	for _, e := range ents {
		if e.IsDir() {
			dirs[e.Name()] = filepath.Join(root, "pkg/ecosystem", e.Name())
		}
	}
	return dirs
}

func sourceLiterals(root string) map[string]litSet {
	out := map[string]litSet{}
	for k, d := range allSourceDirs(root) {
		out[k] = literalsOfDir(d)
	}
	return out
}

// dumpLiterals: the -dump-literals mode (bin/snapshot-gen).
func dumpLiterals(path string) error {
	b, _ := json.MarshalIndent(sourceLiterals(repoRoot()), "", " ")
	return os.WriteFile(path, append(b, '\n'), 0o644)
}

var newLitOnce sync.Once
var newInts map[string][]string // directory key -> integer constants absent from the pinned tree
var newStrs map[string][]string
var newImports map[string][]string // directory key -> imported packages absent from the pinned tree

func loadNewLiterals() {
	newLitOnce.Do(func() {
		newInts, newStrs, newImports = map[string][]string{}, map[string][]string{}, map[string][]string{}
		b, err := os.ReadFile(filepath.Join(verifRoot(), "snapshot", "source-literals.json"))
		if err != nil {
			return
		}
		snap := map[string]litSet{}
		if json.Unmarshal(b, &snap) != nil {
			return
		}
		for k, cur := range sourceLiterals(repoRoot()) {
			old := map[string]bool{}
			for _, s := range snap[k].Ints {
				old["i"+s] = true
			}
			for _, s := range snap[k].Strs {
				old["s"+s] = true
			}
			for _, s := range cur.Ints {
				if !old["i"+s] {
					newInts[k] = append(newInts[k], s)
				}
			}
			for _, s := range cur.Strs {
				if !old["s"+s] && isASCII(s) {
					newStrs[k] = append(newStrs[k], s)
				}
			}
			oldImp := map[string]bool{}
			for _, s := range snap[k].Imports {
				oldImp[s] = true
			}
			for _, s := range cur.Imports {
				if !oldImp[s] {
					newImports[k] = append(newImports[k], s)
				}
			}
		}
	})
}

// newLiteralNote: one line for the evidence.
func newLiteralNote() string {
	loadNewLiterals()
	var parts []string
	for _, k := range sortedLitKeys() {
		if len(newInts[k])+len(newStrs[k]) > 0 {
			parts = append(parts, k+": ints "+strings.Join(newInts[k], ",")+" strings "+strconv.Quote(strings.Join(newStrs[k], " | ")))
		}
	}
	for _, k := range sortedImportKeys() {
		parts = append(parts, k+": new imports "+strings.Join(newImports[k], ","))
	}
	if len(parts) == 0 {
		return ""
	}
	return "constants not present in the pinned tree (given generator families of their own): " + strings.Join(parts, "; ")
}

func sortedLitKeys() []string {
	m := map[string]bool{}
	for k := range newInts {
		m[k] = true
	}
	for k := range newStrs {
		m[k] = true
	}
	var ks []string
	for k := range m {
		ks = append(ks, k)
	}
	sort.Strings(ks)
	return ks
}

// newIntsFor: the new integer constants relevant to an ecosystem (its own directory, plus vers
// and cmd, whose code handles every ecosystem's texts).
func newIntsFor(eco string) []string {
	loadNewLiterals()
	var out []string
	seen := map[string]bool{}
	for _, k := range []string{eco, "vers", "cmd"} {
		for _, s := range newInts[k] {
			if !seen[s] {
				seen[s] = true
				out = append(out, s)
			}
		}
	}
	return out
}

func newStrsFor(eco string) []string {
	loadNewLiterals()
	var out []string
	seen := map[string]bool{}
	for _, k := range []string{eco, "vers", "cmd"} {
		for _, s := range newStrs[k] {
			if !seen[s] && !strings.ContainsAny(s, "%\n") && len(s) <= 24 {
				seen[s] = true
				out = append(out, s)
			}
		}
	}
	return out
}

// codeClusters: for every new integer constant c, (1) the numbers c-2..c+2 (and, when c looks like
// a bit width or a decimal width, 2^c-1..2^c+1 and 10^c-1..10^c+1), (2) when c is small enough to
// be a LENGTH, digit runs of c-1, c, c+1 digits.
func codeClusters(eco string) [][]string {
	var out [][]string
	for _, s := range newIntsFor(eco) {
		b, ok := new(big.Int).SetString(s, 10)
		if !ok {
			continue
		}
		out = append(out, clusterAround(b))
		if b.IsInt64() && b.Int64() >= 2 && b.Int64() <= 4096 {
			n := int(b.Int64())
			var runs []string
			for d := -1; d <= 1; d++ {
				if n+d >= 1 {
					runs = append(runs, strings.Repeat("9", n+d), "1"+strings.Repeat("0", n+d-1), "2"+strings.Repeat("7", n+d-1))
				}
			}
			out = append(out, runs)
			if n <= 128 {
				out = append(out, clusterAround(new(big.Int).Lsh(big.NewInt(1), uint(n))))
			}
			if n <= 40 {
				out = append(out, clusterAround(new(big.Int).Exp(big.NewInt(10), big.NewInt(int64(n)), nil)))
			}
		}
	}
	if len(out) > 24 {
		out = out[:24]
	}
	return out
}

// codeLiteralVariants: texts derived from s for the new constants of the ecosystem: every cluster
// at every digit run (up to a cap), and every new word in place of / next to an alphabetic token.
func codeLiteralVariants(r *RNG, eco string, s string, capN int) []string {
	var out []string
	runs := digitRuns(s)
	for _, c := range codeClusters(eco) {
		// every digit run in turn (a sentinel value matters in the slot it is a sentinel for), with
		// the text up to that run as a sibling (the same version without what follows)
		for _, run := range runs {
			for _, m := range c {
				out = append(out, s[:run[0]]+m+s[run[1]:])
			}
			// one leading-zero spelling per cluster
			out = append(out, s[:run[0]]+"0"+c[len(c)/2]+s[run[1]:])
			v := s[:run[0]] + c[len(c)/2] + s[run[1]:]
			out = append(out, tokenPrefixes(v)...)
		}
	}
	words := newStrsFor(eco)
	toks := tokens(s)
	for _, w := range words {
		// in place of each alphabetic token, appended with the usual joiners, and alone
		for i, t := range toks {
			if tokClass(t[0]) == 1 {
				cp := append([]string{}, toks...)
				cp[i] = w
				out = append(out, strings.Join(cp, ""))
			}
		}
		for _, j := range []string{"", "-", ".", "_", "+", "~"} {
			out = append(out, s+j+w, s+j+w+"1")
		}
		out = append(out, w, w+s, strings.ToUpper(w), s+"-"+strings.ToUpper(w))
	}
	if capN > 0 && len(out) > capN {
		perm := r.Perm(len(out))
		cut := make([]string, 0, capN)
		for _, i := range perm[:capN] {
			cut = append(cut, out[i])
		}
		out = cut
	}
	return out
}

func sortedImportKeys() []string {
	var ks []string
	for k, v := range newImports {
		if len(v) > 0 {
			ks = append(ks, k)
		}
	}
	sort.Strings(ks)
	return ks
}

// newHashImport: the tree under check imports a hash package (hash/fnv, hash/crc32, hash/maphash,
// crypto/...) that the pinned tree does not, in this ecosystem's directory, vers or cmd.
func newHashImport(eco string) bool {
	loadNewLiterals()
	for _, k := range []string{eco, "vers", "cmd"} {
		for _, im := range newImports[k] {
			if strings.HasPrefix(im, "hash/") || strings.HasPrefix(im, "crypto/") || im == "hash" {
				return true
			}
		}
	}
	return false
}

var collMu sync.Mutex
var collCache = map[string][][2]string{}

// hashCollisionPairs: pairs of different accepted version texts of the ecosystem whose 32-bit
// FNV-1a / FNV-1 / CRC-32 / Adler-32 checksums collide (found by a birthday search over about
// 1.5 million generated texts): "identity by checksum" shortcuts treat them as the same text.
// Only computed when the tree under check newly imports a hash package.
func hashCollisionPairs(e *Eco, seed uint64) [][2]string {
	collMu.Lock()
	defer collMu.Unlock()
	if c, ok := collCache[e.Name]; ok {
		return c
	}
	r := NewRNG(seed, "collisions/"+e.Name)
	gen := versionGens[e.Name]
	type hf func(string) uint32
	fnv1a := func(s string) uint32 {
		h := uint32(2166136261)
		for i := 0; i < len(s); i++ {
			h ^= uint32(s[i])
			h *= 16777619
		}
		return h
	}
	fnv1 := func(s string) uint32 {
		h := uint32(2166136261)
		for i := 0; i < len(s); i++ {
			h *= 16777619
			h ^= uint32(s[i])
		}
		return h
	}
	hs := []hf{fnv1a, fnv1, func(s string) uint32 { return crc32.ChecksumIEEE([]byte(s)) }, func(s string) uint32 { return adler32.Checksum([]byte(s)) }}
	// plain numeric shapes collide as well as anything else and are accepted nearly everywhere
	seen := make([]map[uint32]string, len(hs))
	for i := range seen {
		seen[i] = map[uint32]string{}
	}
	var out [][2]string
	perHash := make([]int, len(hs))
	uniq := map[string]bool{}
	for n := 0; n < 1500000 && len(out) < 40; n++ {
		var s string
		if n%3 == 0 {
			s = gen(r)
		} else {
			s = fmt.Sprintf("%d.%d.%d", r.Intn(40), r.Intn(100), r.Intn(100))
			if n%6 == 1 {
				s += fmt.Sprintf("-%d.el%d", r.Intn(400), r.Intn(10))
			}
			if e.Name == "golang" {
				s = "v" + s
			}
		}
		s = strings.TrimSpace(s)
		if s == "" || uniq[s] {
			continue
		}
		uniq[s] = true
		for i, h := range hs {
			if perHash[i] >= 10 {
				continue
			}
			k := h(s)
			if t, ok := seen[i][k]; ok && t != s {
				if e.Parse(s).OK && e.Parse(t).OK {
					out = append(out, [2]string{t, s})
					perHash[i]++
				}
			} else {
				seen[i][k] = s
			}
		}
	}
	collCache[e.Name] = out
	return out
}
