package main

import (
	"reflect"
	"sort"
	"strings"
)

// ---------- order helpers on the implementation ----------

func cmpS(e *Eco, a, b any) int {
	c, _ := e.Compare(a, b)
	return sign(c)
}

// consistentSet: every pair is antisymmetric and every triple transitive (the set lies inside
// one linear preorder).  Used to separate a property's own failures from consequences of an
// intransitive Compare (which is C01's business and, for maven, a recorded finding).
func consistentSet(e *Eco, vals []any) bool {
	n := len(vals)
	m := make([][]int, n)
	for i := range m {
		m[i] = make([]int, n)
		for j := range m[i] {
			m[i][j] = cmpS(e, vals[i], vals[j])
		}
	}
	for i := 0; i < n; i++ {
		if m[i][i] != 0 {
			return false
		}
		for j := 0; j < n; j++ {
			if m[i][j] != -m[j][i] {
				return false
			}
			if m[i][j] > 0 {
				continue
			}
			for k := 0; k < n; k++ {
				if m[j][k] > 0 {
					continue
				}
				strict := m[i][j] < 0 || m[j][k] < 0
				if m[i][k] > 0 || (strict && m[i][k] == 0) {
					return false
				}
			}
		}
	}
	return true
}

// mavenMix: class predicate of F-maven-order-cycle — among the versions involved, one has an
// unknown qualifier element and one has a release ("" / ga / final / release) or sp element.
// (Coq: Eco/Maven/VersionFacts.v proves TotalPreorderOn for no_unknown and for no_release_sp.)
func mavenMix(vals []any) bool {
	known := map[string]bool{"alpha": true, "a": true, "beta": true, "b": true, "milestone": true, "m": true, "rc": true, "cr": true, "snapshot": true}
	relsp := map[string]bool{"": true, "ga": true, "final": true, "release": true, "sp": true}
	hasUnknown, hasRelSp := false, false
	for _, v := range vals {
		rv := reflect.ValueOf(v)
		if rv.Kind() == reflect.Ptr {
			rv = rv.Elem()
		}
		if rv.Kind() != reflect.Struct {
			continue
		}
		el := rv.FieldByName("elements")
		if !el.IsValid() {
			continue
		}
		for i := 0; i < el.Len(); i++ {
			x := el.Index(i)
			if x.FieldByName("isNumber").Bool() {
				continue
			}
			val := x.FieldByName("value")
			if val.Kind() == reflect.Interface {
				val = val.Elem()
			}
			if val.Kind() != reflect.String {
				continue
			}
			t := val.String()
			switch {
			case relsp[t]:
				hasRelSp = true
			case !known[t]:
				hasUnknown = true
			}
		}
	}
	return hasUnknown && hasRelSp
}

// classifyOrder separates a property's own failures from consequences of an intransitive
// Compare: when the versions involved do not lie in one linear preorder and they fall into the
// class of the recorded maven finding, the violation is attributed to that finding; any other
// inconsistency is kept as a violation (it is also what C01 reports).
func classifyOrder(e *Eco, v *Violation, vals ...any) bool {
	if consistentSet(e, vals) {
		return true
	}
	if e.Name == "maven" && mavenMix(vals) {
		v.Finding = "F-maven-order-cycle"
		return true
	}
	v.Kind += "+order-inconsistent"
	return true
}

// ---------- comparator syntax per ecosystem (C02, C20, C18) ----------

type cmpSyntax struct {
	Ops    map[string]string // spelling -> canonical comparator
	And    []string
	Or     []string
	Single func(op, a string) string // text of a one-comparator range
}

func ops6() map[string]string {
	return map[string]string{"=": "=", "!=": "!=", "<": "<", "<=": "<=", ">": ">", ">=": ">="}
}
func ops5() map[string]string {
	return map[string]string{"=": "=", "<": "<", "<=": "<=", ">": ">", ">=": ">="}
}
func withOps(m map[string]string, kv ...string) map[string]string {
	for i := 0; i+1 < len(kv); i += 2 {
		m[kv[i]] = kv[i+1]
	}
	return m
}

var cmpSyn = map[string]*cmpSyntax{
	"alpine":     {Ops: ops6(), And: []string{" "}},
	"alpm":       {Ops: ops5(), And: []string{" ", " and "}},
	"apache":     {Ops: ops5(), And: []string{" "}},
	"github":     {Ops: ops5(), And: []string{" "}},
	"mattermost": {Ops: ops5(), And: []string{" "}},
	"cargo":      {Ops: ops6(), And: []string{",", ", "}},
	"composer":   {Ops: withOps(ops6(), "<>", "!=", "==", "="), And: []string{" ", ",", ", "}, Or: []string{"||", " || "}},
	"conan":      {Ops: ops6(), And: []string{",", " ", ", "}, Or: []string{"||", " || "}},
	"cran":       {Ops: ops6(), And: []string{",", ", "}},
	"debian":     {Ops: withOps(ops6(), ">>", ">", "<<", "<"), And: []string{",", ", "}},
	"gem":        {Ops: ops6(), And: []string{",", ", "}},
	"gentoo":     {Ops: ops6(), And: []string{",", " ", ", "}},
	"rpm":        {Ops: ops6(), And: []string{",", " ", ", "}},
	"golang":     {Ops: ops6(), And: []string{" "}},
	"hex":        {Ops: ops5(), And: []string{" ", " and "}},
	"npm":        {Ops: ops5(), And: []string{" "}, Or: []string{"||", " || "}},
	"nuget":      {Ops: ops6(), And: []string{",", ", "}, Single: func(op, a string) string { return op + a + "," }},
	"pypi":       {Ops: map[string]string{"==": "=", "!=": "!=", "<": "<", "<=": "<=", ">": ">", ">=": ">="}, And: []string{",", ", "}},
	"semver":     {Ops: ops6(), And: []string{" ", ",", ", "}},
}

func satOp(op string, c int) bool {
	switch op {
	case "=":
		return c == 0
	case "!=":
		return c != 0
	case "<":
		return c < 0
	case "<=":
		return c <= 0
	case ">":
		return c > 0
	case ">=":
		return c >= 0
	}
	return false
}

// boundInScope: C02's scope clause — the bound's text does not begin with a comparator
// character and contains none of the ecosystem's separator characters (nor the characters
// that select another construct of the range grammar).
func boundInScope(eco, s string) bool {
	if s == "" || strings.TrimSpace(s) != s || !isASCII(s) {
		return false
	}
	if strings.ContainsAny(s[:1], "<>=!~^*") {
		return false
	}
	if strings.ContainsAny(s, " \t\r\n\v\f,|()[]*@") {
		return false
	}
	if strings.EqualFold(s, "and") {
		return false
	}
	switch eco {
	case "npm", "composer", "cargo", "semver":
		// an x / X in a major, minor or patch position selects the wildcard construct; one among
		// the pre-release or build identifiers (1.0.0-alpha.x) is an ordinary identifier of a
		// valid version and stays in scope
		core := s
		if i := strings.IndexAny(core, "-+"); i >= 0 {
			core = core[:i]
		}
		for _, part := range strings.Split(core, ".") {
			if part == "x" || part == "X" {
				return false
			}
		}
	}
	if eco == "npm" && strings.ContainsAny(s, "@#$%&!") {
		return false
	}
	if eco == "pypi" && strings.HasSuffix(s, ".*") {
		return false
	}
	return true
}

func sortedStrs(m map[string]string) []string {
	ks := make([]string, 0, len(m))
	for k := range m {
		ks = append(ks, k)
	}
	sort.Strings(ks)
	return ks
}

// scopedPool: pool members in C02's scope.
func scopedPool(e *Eco, p *Pool) ([]string, []any) {
	var ss []string
	var vs []any
	for i, s := range p.Strs {
		if boundInScope(e.Name, s) {
			ss = append(ss, s)
			vs = append(vs, p.Vals[i])
		}
	}
	return ss, vs
}
