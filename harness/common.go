package main

import (
	"sort"
	"strings"
)

// ---------- order helpers on the implementation ----------

func cmpS(e *Eco, a, b any) int {
	c, _ := e.Compare(a, b)
	return sign(c)
}

// consistentSet: every pair is antisymmetric and every triple transitive (the set lies inside
// one linear preorder).  Used to separate a property's own failures from consequences of an
// intransitive Compare (which is C01's business and, for maven, a recorded finding).
func consistentSet(e *Eco, vals []any) bool {
	n := len(vals)
	m := make([][]int, n)
	for i := range m {
		m[i] = make([]int, n)
		for j := range m[i] {
			m[i][j] = cmpS(e, vals[i], vals[j])
		}
	}
	for i := 0; i < n; i++ {
		if m[i][i] != 0 {
			return false
		}
		for j := 0; j < n; j++ {
			if m[i][j] != -m[j][i] {
				return false
			}
			if m[i][j] > 0 {
				continue
			}
			for k := 0; k < n; k++ {
				if m[j][k] > 0 {
					continue
				}
				strict := m[i][j] < 0 || m[j][k] < 0
				if m[i][k] > 0 || (strict && m[i][k] == 0) {
					return false
				}
			}
		}
	}
	return true
}

// orderFinding: the id of the open finding that covers consequences of an intransitive
// Compare in this ecosystem ("" if none).
func orderFinding(eco string) string {
	if eco == "maven" {
		return "F-maven-order-cycle"
	}
	return ""
}

// classifyOrder fills v.Finding when the values involved do not lie in one linear preorder
// and the ecosystem has a recorded order finding.  Returns false when the violation should be
// dropped altogether (inconsistent set but no finding: C01 reports that, not this property).
func classifyOrder(e *Eco, v *Violation, vals ...any) bool {
	if consistentSet(e, vals) {
		return true
	}
	if f := orderFinding(e.Name); f != "" {
		v.Finding = f
		return true
	}
	// an intransitivity without a recorded finding is itself a violation; keep it, marked
	v.Kind += "+order-inconsistent"
	return true
}

// ---------- comparator syntax per ecosystem (C02, C20, C18) ----------

type cmpSyntax struct {
	Ops    map[string]string // spelling -> canonical comparator
	And    []string
	Or     []string
	Single func(op, a string) string // text of a one-comparator range
}

func ops6() map[string]string {
	return map[string]string{"=": "=", "!=": "!=", "<": "<", "<=": "<=", ">": ">", ">=": ">="}
}
func ops5() map[string]string {
	return map[string]string{"=": "=", "<": "<", "<=": "<=", ">": ">", ">=": ">="}
}
func withOps(m map[string]string, kv ...string) map[string]string {
	for i := 0; i+1 < len(kv); i += 2 {
		m[kv[i]] = kv[i+1]
	}
	return m
}

var cmpSyn = map[string]*cmpSyntax{
	"alpine":     {Ops: ops6(), And: []string{" "}},
	"alpm":       {Ops: ops5(), And: []string{" ", " and "}},
	"apache":     {Ops: ops5(), And: []string{" "}},
	"github":     {Ops: ops5(), And: []string{" "}},
	"mattermost": {Ops: ops5(), And: []string{" "}},
	"cargo":      {Ops: ops6(), And: []string{",", ", "}},
	"composer":   {Ops: withOps(ops6(), "<>", "!=", "==", "="), And: []string{" ", ",", ", "}, Or: []string{"||", " || "}},
	"conan":      {Ops: ops6(), And: []string{",", " ", ", "}, Or: []string{"||", " || "}},
	"cran":       {Ops: ops6(), And: []string{",", ", "}},
	"debian":     {Ops: withOps(ops6(), ">>", ">", "<<", "<"), And: []string{",", ", "}},
	"gem":        {Ops: ops6(), And: []string{",", ", "}},
	"gentoo":     {Ops: ops6(), And: []string{",", " ", ", "}},
	"rpm":        {Ops: ops6(), And: []string{",", " ", ", "}},
	"golang":     {Ops: ops6(), And: []string{" "}},
	"hex":        {Ops: ops5(), And: []string{" ", " and "}},
	"npm":        {Ops: ops5(), And: []string{" "}, Or: []string{"||", " || "}},
	"nuget":      {Ops: ops6(), And: []string{",", ", "}, Single: func(op, a string) string { return op + a + "," }},
	"pypi":       {Ops: map[string]string{"==": "=", "!=": "!=", "<": "<", "<=": "<=", ">": ">", ">=": ">="}, And: []string{",", ", "}},
	"semver":     {Ops: ops6(), And: []string{" ", ",", ", "}},
}

func satOp(op string, c int) bool {
	switch op {
	case "=":
		return c == 0
	case "!=":
		return c != 0
	case "<":
		return c < 0
	case "<=":
		return c <= 0
	case ">":
		return c > 0
	case ">=":
		return c >= 0
	}
	return false
}

// boundInScope: C02's scope clause — the bound's text does not begin with a comparator
// character and contains none of the ecosystem's separator characters (nor the characters
// that select another construct of the range grammar).
func boundInScope(eco, s string) bool {
	if s == "" || strings.TrimSpace(s) != s || !isASCII(s) {
		return false
	}
	if strings.ContainsAny(s[:1], "<>=!~^*") {
		return false
	}
	if strings.ContainsAny(s, " \t\r\n\v\f,|()[]*@") {
		return false
	}
	if strings.EqualFold(s, "and") {
		return false
	}
	switch eco {
	case "npm", "composer", "cargo", "semver":
		for _, part := range strings.Split(s, ".") {
			if part == "x" || part == "X" {
				return false
			}
		}
	}
	if eco == "npm" && strings.ContainsAny(s, "@#$%&!") {
		return false
	}
	if eco == "pypi" && strings.HasSuffix(s, ".*") {
		return false
	}
	return true
}

func sortedStrs(m map[string]string) []string {
	ks := make([]string, 0, len(m))
	for k := range m {
		ks = append(ks, k)
	}
	sort.Strings(ks)
	return ks
}

// scopedPool: pool members in C02's scope.
func scopedPool(e *Eco, p *Pool) ([]string, []any) {
	var ss []string
	var vs []any
	for i, s := range p.Strs {
		if boundInScope(e.Name, s) {
			ss = append(ss, s)
			vs = append(vs, p.Vals[i])
		}
	}
	return ss, vs
}
