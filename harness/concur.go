package main

import (
	"fmt"
	"sync"
)

// concurrentRecheck: the answers of eval(0..n-1) computed one after the other must be the answers
// obtained when G goroutines evaluate the same cases at the same time, each in its own order.  A
// property about results ("Contains returns ...", "Compare gives ...") is claimed for every
// caller, also one that is not alone in the process; state shared between calls (a recycled
// buffer, a cache) shows as an answer that depends on the schedule.  Nothing is reported when the
// operations are pure, whatever the schedule: no false alarm is possible, only a miss.
func concurrentRecheck(ctx *Ctx, eco, what string, n int, eval func(i int) string, describe func(i int) any) {
	if n == 0 {
		return
	}
	if n > 1500 {
		n = 1500
	}
	base := make([]string, n)
	for i := 0; i < n; i++ {
		base[i] = eval(i)
	}
	const G = 12
	type bad struct {
		i   int
		got string
	}
	var mu sync.Mutex
	var first *bad
	var wg sync.WaitGroup
	for g := 0; g < G; g++ {
		g := g
		wg.Add(1)
		go func() {
			defer wg.Done()
			defer func() {
				if r := recover(); r != nil {
					mu.Lock()
					if first == nil {
						first = &bad{-1, fmt.Sprint("panic: ", r)}
					}
					mu.Unlock()
				}
			}()
			r := NewRNG(ctx.Seed, fmt.Sprintf("concur/%s/%d", what, g))
			for round := 0; round < 2; round++ {
				for _, i := range r.Perm(n) {
					if got := eval(i); got != base[i] {
						mu.Lock()
						if first == nil {
							first = &bad{i, got}
						}
						mu.Unlock()
						return
					}
				}
			}
		}()
	}
	wg.Wait()
	ctx.Res.Evaluations += n * (1 + 2*G)
	if first != nil {
		var in any = "(panic in a concurrent evaluation)"
		exp := ""
		if first.i >= 0 {
			in = describe(first.i)
			exp = base[first.i]
		}
		ctx.Res.violateKey(Violation{Eco: eco, Kind: "result-depends-on-schedule", Input: map[string]any{"case": in, "what": what, "goroutines": G}, Expected: exp + " (the answer of the same call made alone)", Actual: first.got}, what)
	}
}
