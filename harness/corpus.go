package main

import (
	"bufio"
	"os"
	"strings"
)

// corpus/versions.txt: lines "<eco>\t<go-quoted string>"; minimised disagreements, finding
// witnesses and interesting seeds.  They are tried first in every pool.
var corpusV map[string][]string

func loadCorpus() {
	corpusV = map[string][]string{}
	f, err := os.Open(verifRoot() + "/corpus/versions.txt")
	if err != nil {
		return
	}
	defer f.Close()
	sc := bufio.NewScanner(f)
	sc.Buffer(make([]byte, 1<<20), 1<<20)
	for sc.Scan() {
		line := sc.Text()
		if line == "" || strings.HasPrefix(line, "#") {
			continue
		}
		tab := strings.IndexByte(line, '\t')
		if tab < 0 {
			continue
		}
		s, err := unquote(line[tab+1:])
		if err != nil {
			continue
		}
		corpusV[line[:tab]] = append(corpusV[line[:tab]], s)
	}
}

var corpusR map[string][]string

func corpusRanges(eco string) []string {
	if corpusR == nil {
		corpusR = map[string][]string{}
		f, err := os.Open(verifRoot() + "/corpus/ranges.txt")
		if err == nil {
			defer f.Close()
			sc := bufio.NewScanner(f)
			sc.Buffer(make([]byte, 1<<20), 1<<20)
			for sc.Scan() {
				line := sc.Text()
				if line == "" || strings.HasPrefix(line, "#") {
					continue
				}
				tab := strings.IndexByte(line, '\t')
				if tab < 0 {
					continue
				}
				if s, err := unquote(line[tab+1:]); err == nil {
					corpusR[line[:tab]] = append(corpusR[line[:tab]], s)
				}
			}
		}
	}
	return corpusR[eco]
}

func corpusVersions(eco string) []string {
	if corpusV == nil {
		loadCorpus()
	}
	return corpusV[eco]
}
