package main

import (
	"bufio"
	"os"
	"path/filepath"
	"sort"
	"strings"
)

// corpus/versions.txt, corpus/versions.d/*.txt (and ranges.txt, ranges.d/*.txt): lines
// "<eco>\t<go-quoted string>"; minimised disagreements, finding witnesses and interesting
// seeds.  They are tried first in every pool / range stream.
var corpusV map[string][]string
var corpusR map[string][]string

func loadCorpusFiles(base string) map[string][]string {
	out := map[string][]string{}
	files := []string{verifRoot() + "/corpus/" + base + ".txt"}
	more, _ := filepath.Glob(verifRoot() + "/corpus/" + base + ".d/*.txt")
	sort.Strings(more)
	files = append(files, more...)
	for _, fn := range files {
		f, err := os.Open(fn)
		if err != nil {
			continue
		}
		sc := bufio.NewScanner(f)
		sc.Buffer(make([]byte, 1<<20), 1<<20)
		for sc.Scan() {
			line := sc.Text()
			if line == "" || strings.HasPrefix(line, "#") {
				continue
			}
			tab := strings.IndexByte(line, '\t')
			if tab < 0 {
				continue
			}
			s, err := unquote(line[tab+1:])
			if err != nil {
				continue
			}
			out[line[:tab]] = append(out[line[:tab]], s)
		}
		f.Close()
	}
	return out
}

func corpusRanges(eco string) []string {
	if corpusR == nil {
		corpusR = loadCorpusFiles("ranges")
	}
	return corpusR[eco]
}

func corpusVersions(eco string) []string {
	if corpusV == nil {
		corpusV = loadCorpusFiles("versions")
	}
	return corpusV[eco]
}
