package main

import (
	"fmt"
	"os"
	"strings"
)

func init() { props["CORR"] = checkCORR }

var ecoFilter string

func ecoSelected(name string) bool {
	if ecoFilter == "" {
		return true
	}
	for _, n := range strings.Split(ecoFilter, ",") {
		if n == name {
			return true
		}
	}
	return false
}

// versionCandidates: corpus + generated (some mutated) + padded + exhaustive short strings.
func versionCandidates(ctx *Ctx, e *Eco, r *RNG, nGen int, exhLen int) (*Pool, []string) {
	p, cands := BuildPool(e, r, 160, corpusVersions(e.Name))
	seen := map[string]bool{}
	for _, s := range cands {
		seen[s] = true
	}
	add := func(s string) {
		if !seen[s] {
			seen[s] = true
			cands = append(cands, s)
		}
	}
	gen := versionGens[e.Name]
	for i := 0; i < nGen; i++ {
		s := gen(r)
		switch {
		case r.Chance(12):
			s = mutate(r, s)
		case r.Chance(4):
			s = mutate(r, mutate(r, s))
		}
		add(s)
	}
	// a non-ASCII rune inside an accepted string (domain.go)
	for i, s := range p.Strs {
		if i%5 == 2 {
			add(nonASCIIInside(r, s))
		}
	}
	// padded variants of accepted strings
	for i, s := range p.Strs {
		if i%4 == 0 {
			add(r.Pick([]string{" ", "\t", "\n", "\r\n ", "  "}) + s + r.Pick([]string{"", " ", "\n", "\t\r"}))
		}
	}
	if exhLen > 0 {
		for _, s := range shortStrings(versionAlphabet, exhLen) {
			add(s)
		}
	}
	return p, cands
}

// corrV: V-layer correspondence of one ecosystem.
func corrV(ctx *Ctx, e *Eco, nGen int, exhLen int) (*Pool, [][]int) {
	r := NewRNG(ctx.Seed, "corrV/"+e.Name)
	p, cands := versionCandidates(ctx, e, r, nGen, exhLen)
	m, pan := pairMatrix(p)
	if pan != "" {
		ctx.Res.violate(Violation{Eco: e.Name, Kind: "panic", Input: pan, Expected: "no panic", Actual: "panic"})
		return p, nil
	}
	corrVersions(ctx, e, cands, p, m)
	ctx.Res.Evaluations += len(cands) + len(p.Strs)*len(p.Strs)
	return p, m
}

// corrR: R-layer correspondence of one ecosystem, the version layer being answered by the
// implementation (mode O), so that only range logic is compared.
func corrR(ctx *Ctx, e *Eco, nGen int, exhLen int, nProbe int) {
	if ctx.Pool == nil || !ctx.MEcos[e.Name] {
		return
	}
	res := ctx.Res
	r := NewRNG(ctx.Seed, "corrR/"+e.Name)
	p, _ := BuildPool(e, r, 120, corpusVersions(e.Name))
	if len(p.Strs) == 0 {
		return
	}
	seen := map[string]bool{}
	var ranges []string
	add := func(s string) {
		if !seen[s] && rInDomain(e.Name, s) {
			seen[s] = true
			ranges = append(ranges, s)
		}
	}
	for _, s := range corpusRanges(e.Name) {
		add(s)
	}
	for i := 0; i < nGen; i++ {
		s := genRange(r, e.Name, p)
		switch {
		case r.Chance(12):
			s = mutate(r, s)
		case r.Chance(5):
			s = r.Pick([]string{" ", "\t", "\n"}) + s + r.Pick([]string{" ", "", "\n"})
		case r.Chance(4):
			s = nonASCIIInside(r, s)
		}
		add(s)
	}
	if exhLen > 0 {
		for _, s := range shortStrings(rangeAlphabet, exhLen) {
			add(s)
		}
	}
	// acceptance + String()
	reqs := make([]string, len(ranges))
	for i, s := range ranges {
		reqs[i] = "RS O " + e.Name + " " + hx(s)
	}
	ans, err := ctx.Pool.Map(reqs)
	if err != nil {
		res.Notes = append(res.Notes, "model error: "+err.Error())
		return
	}
	st := res.stream("R.accept/" + e.Name)
	var okRanges []string
	var okVals []any
	for i, a := range ans {
		pr := e.ParseRange(ranges[i])
		impl := "0"
		if pr.OK {
			s, _ := e.StrR(pr.Val)
			impl = "1 " + hx(s)
			okRanges = append(okRanges, ranges[i])
			okVals = append(okVals, pr.Val)
		}
		st.Cases++
		if impl != a {
			res.disagree(Disagreement{Stream: "R.accept/" + e.Name, Eco: e.Name, Request: reqs[i], Input: ranges[i], Impl: impl, Model: a})
		}
	}
	// containment on accepted ranges x probes
	reqs = reqs[:0]
	type rp struct{ ri, pi int }
	var idx []rp
	// probes: random pool members, plus — for a third of the ranges — versions derived from the
	// numbers written in the range itself (its bases with fewer / more components, a changed last
	// component, each under the pre-release spellings the parser accepts): the boundary of a range
	// is next to what is written in it
	relPre := append([]string{"-alpha", "-rc.1", "-rc.2", "rc1", ".dev1", "_rc1", "~rc1", "-0", ".post1", "-beta1"}, c06ExtraPre...)
	probeStrs := append([]string{}, p.Strs...)
	probeVals := append([]any{}, p.Vals...)
	probeIdx := map[string]int{}
	for i, s := range probeStrs {
		probeIdx[s] = i
	}
	for ri := range okRanges {
		for k := 0; k < nProbe; k++ {
			pi := r.Intn(len(p.Strs))
			if !isASCII(p.Strs[pi]) {
				continue
			}
			reqs = append(reqs, "RC O "+e.Name+" "+hx(okRanges[ri])+" "+hx(p.Strs[pi]))
			idx = append(idx, rp{ri, pi})
		}
		if ri%3 == 0 && len(okRanges[ri]) < 80 {
			rel := prefixRelatives(okRanges[ri], "", relPre)
			n := 0
			for _, k := range r.Perm(len(rel)) {
				t := rel[k]
				if n >= nProbe || !isASCII(t) {
					break
				}
				pi, ok := probeIdx[t]
				if !ok {
					pv := e.Parse(t)
					if !pv.OK {
						continue
					}
					pi = len(probeStrs)
					probeStrs, probeVals = append(probeStrs, t), append(probeVals, pv.Val)
					probeIdx[t] = pi
				}
				reqs = append(reqs, "RC O "+e.Name+" "+hx(okRanges[ri])+" "+hx(probeStrs[pi]))
				idx = append(idx, rp{ri, pi})
				n++
			}
		}
	}
	ans, err = ctx.Pool.Map(reqs)
	if err != nil {
		res.Notes = append(res.Notes, "model error: "+err.Error())
		return
	}
	st = res.stream("R.contains/" + e.Name)
	nTrue := 0
	for k, a := range ans {
		c, pan := e.Contains(okVals[idx[k].ri], probeVals[idx[k].pi])
		impl := "f"
		if pan != "" {
			impl = "panic"
		} else if c {
			impl = "t"
			nTrue++
		}
		st.Cases++
		if impl != a {
			res.disagree(Disagreement{Stream: "R.contains/" + e.Name, Eco: e.Name, Request: reqs[k], Input: []string{okRanges[idx[k].ri], probeStrs[idx[k].pi]}, Impl: impl, Model: a})
		}
	}
	res.Evaluations += len(ranges) + len(reqs)
	res.Distribution["R/"+e.Name] = map[string]int{"ranges": len(ranges), "accepted": len(okRanges), "contains_cases": len(reqs), "contains_true": nTrue}
}

func checkCORR(ctx *Ctx) {
	exh := 3
	if os.Getenv("CORR_EXH") != "" {
		fmt.Sscan(os.Getenv("CORR_EXH"), &exh)
	}
	for _, e := range allEcos {
		if !ecoSelected(e.Name) {
			continue
		}
		if !ctx.MEcos[e.Name] {
			ctx.Res.Notes = append(ctx.Res.Notes, e.Name+": not in the model")
			continue
		}
		corrV(ctx, e, 4000, exh)
		corrR(ctx, e, 3000, exh, 12)
	}
}
