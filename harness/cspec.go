package main

import (
	"math/big"
	"fmt"
	"regexp"
	"strings"
)

// C08..C14: the implementation's Compare against the reference orders of coq/Spec (extracted),
// on pairs of strings that the implementation accepts and the reference calls valid.

type specProp struct {
	Ecos []string // ecosystem = name of the spec in Spec/All.v
	Rule string
}

var specProps = map[string]specProp{
	"C08": {[]string{"semver", "npm", "cargo", "hex", "golang", "nuget"}, "SemVer 2.0.0 section 11 (Spec/SemVer.v)"},
	"C09": {[]string{"pypi"}, "PEP 440 sort key (Spec/Pep440.v)"},
	"C10": {[]string{"debian"}, "dpkg verrevcmp (Spec/Dpkg.v)"},
	"C11": {[]string{"rpm"}, "rpmvercmp (Spec/Rpm.v)"},
	"C12": {[]string{"maven"}, "Maven 3.8 ComparableVersion on conventional shapes (Spec/MavenCV.v)"},
	"C13": {[]string{"gem"}, "Gem::Version (Spec/GemVersion.v)"},
	"C14": {[]string{"alpine"}, "apk-tools version order on the claimed grammar (Spec/Apk.v)"},
}

func init() {
	for id := range specProps {
		id := id
		props[id] = func(ctx *Ctx) { checkSpec(ctx, id) }
	}
}

var longDigits = regexp.MustCompile(`\d{19,}`)
var upperCase = regexp.MustCompile(`[A-Z]`)

// specScope: the part of the property's quantifier that is not already the reference's own
// validity predicate.  C08: numeric identifiers of at most 18 digits; C13: letters in a single
// case (lower); numbers of any length (those of 2^63 or more are the recorded finding
// F-gem-long-number: go-univers keeps them as text); C12: numbers of any length (since fix 94889ac;
// before it the same 18-digit reading applied, and hid the defect of DESIGN 13.12).
func specScope(id, eco, s string) bool {
	switch id {
	case "C08":
		return !longDigits.MatchString(s)
	case "C13":
		// the property's shape: groups are .<letters>[N] or -<letters>[.N]: no empty '-' field
		t := strings.TrimSpace(s)
		// numbers of any length are compared; those that do not fit int fall into the class of the
		// recorded finding F-gem-long-number (findings.go)
		return !upperCase.MatchString(s) && !strings.Contains(t, "--") && !strings.HasSuffix(t, "-")
	}
	return true
}

// extraSpecGens: generators aimed at the quantifier of the property (in addition to the
// ecosystem's general generator).
var extraSpecGens = map[string]func(r *RNG) string{}

func checkSpec(ctx *Ctx, id string) {
	res := ctx.Res
	sp := specProps[id]
	res.Rule = "per ecosystem: pool of accepted version texts (grammar-directed generator aimed at the property's quantifier, corpus, 8% mutated) restricted to texts the reference order calls valid; the sign of the implementation's Compare on every ordered pair is compared with the reference order " + sp.Rule + " evaluated by the code extracted from Coq; for the strict semver ecosystem acceptance is compared with the SemVer BNF recogniser on every candidate. non-trivial = unordered pairs the reference orders strictly"
	if ctx.Pool == nil {
		res.Notes = append(res.Notes, "model driver unavailable: no reference order to compare with")
		res.violate(Violation{Eco: "-", Kind: "machinery", Input: "driver", Expected: "extracted reference order available", Actual: "driver missing"})
		return
	}
	n := 150
	if !ctx.Quick {
		n = 420
	}
	if len(sp.Ecos) == 1 {
		// one ecosystem to cover: a pool that holds every marker family of every seed
		n = 2*n + 100
	}
	dist := map[string]any{}
	for _, name := range sp.Ecos {
		e := ecoByName(name)
		r := NewRNG(ctx.Seed, id+"/"+name)
		var extra []string
		// maven (C12 claims numbers of any length since fix 94889ac): one prefix, its last number
		// taken from both sides of 2^63, 2^64, 10^19 and 10^20, plain and zero-padded (a padded text
		// that is longer while its value is smaller), so that long numbers meet at the same position; first in the stream: the head of the stream always joins the pool
		if name == "maven" {
			longs := []string{"9223372036854775807", "9223372036854775808", "18446744073709551615", "18446744073709551616", "010000000000000000000",
				"10000000000000000000", "99999999999999999999", "100000000000000000000", "0018446744073709551616", "00000000000000000000018446744073709551617"}
			for _, pre := range []string{"", "1.", r.Pick([]string{"2.0.", "0.", "1.0.0."})} {
				for _, l := range longs {
					extra = append(extra, pre+l)
				}
			}
		}
		extra = append(extra, corpusVersions(name)...)
		if g := extraSpecGens[name]; g != nil {
			for i := 0; i < n; i++ {
				extra = append(extra, g(r))
			}
		}
		// families: the same numeric base under every marker spelling of the ecosystem (so that
		// alias spellings such as pypi c/rc, maven a/alpha, cr/rc meet each other in the pool)
		if sh := numShapes[name]; sh != nil {
			for f := 0; f < 6; f++ {
				ar := sh.Arities[r.Intn(len(sh.Arities))]
				parts := make([]string, ar)
				for i := range parts {
					parts[i] = r.Pick([]string{"0", "1", "2", "3", "10"})
				}
				base := sh.Prefix + strings.Join(parts, ".")
				extra = append(extra, base)
				for _, tpl := range append(append([]string{}, sh.Pre...), sh.Post...) {
					for _, k := range []string{"1", "2"} {
						extra = append(extra, base+strings.ReplaceAll(strings.ReplaceAll(tpl, "%k", k), "%K", k))
					}
					// the marker with number 0 and without a number: a marker whose rank ties with
					// "no marker" is told from it by its number only
					if f < 3 {
						t0 := strings.ReplaceAll(strings.ReplaceAll(tpl, "%k", "0"), "%K", "0")
						tn := strings.ReplaceAll(strings.ReplaceAll(strings.ReplaceAll(strings.ReplaceAll(tpl, ".%k", ""), ".%K", ""), "%k", ""), "%K", "")
						extra = append(extra, base+t0, base+tn)
					}
				}
			}
		}
		// marker numbers at word boundaries: every marker template of the ecosystem with the numbers
		// 2^32-1, 2^32, 2^32+1 (and one of 2^31, 2^63-1, 2^64) on one base, alone and after another
		// marker with a small number (1.0a1.dev4294967296)
		if sh := numShapes[name]; sh != nil {
			ar := sh.Arities[r.Intn(len(sh.Arities))]
			parts := make([]string, ar)
			for i := range parts {
				parts[i] = r.Pick([]string{"1", "2", "0"})
			}
			base := sh.Prefix + strings.Join(parts, ".")
			tpls := append(append([]string{}, sh.Pre...), sh.Post...)
			bigs := []string{"4294967295", "4294967296", "4294967297", r.Pick([]string{"2147483648", "9223372036854775807", "18446744073709551616", "202310051230"})}
			var fam []string
			// the usual "absent" sentinels (MaxInt64, MaxInt32) in every numbered marker slot, alone
			// and behind another marker, next to the same text without that marker: always kept
			for _, tpl := range tpls {
				if !strings.Contains(tpl, "%k") && !strings.Contains(tpl, "%K") {
					continue
				}
				for _, k := range []string{"9223372036854775807", "2147483647"} {
					m := strings.ReplaceAll(strings.ReplaceAll(tpl, "%k", k), "%K", k)
					extra = append([]string{base + m, base}, extra...)
					if len(tpls) > 1 {
						first := strings.ReplaceAll(strings.ReplaceAll(tpls[r.Intn(len(tpls))], "%k", "1"), "%K", "1")
						extra = append([]string{base + first + m, base + first}, extra...)
					}
				}
			}
			for _, tpl := range tpls {
				if !strings.Contains(tpl, "%k") && !strings.Contains(tpl, "%K") {
					continue
				}
				for _, k := range bigs {
					m := strings.ReplaceAll(strings.ReplaceAll(tpl, "%k", k), "%K", k)
					fam = append(fam, base+m)
					if r.Chance(35) && len(tpls) > 1 {
						first := strings.ReplaceAll(strings.ReplaceAll(tpls[r.Intn(len(tpls))], "%k", "1"), "%K", "1")
						fam = append(fam, base+first+m, base+first)
					}
				}
			}
			// a seed-dependent third of them, so that the pool keeps room for everything else
			for i, f := range fam {
				if (i+int(ctx.Seed))%3 == 0 || !ctx.Quick {
					extra = append([]string{f}, extra...)
				}
			}
		}
		// two markers in a row with the numbers 0 / absent / 1 on each (rc0-b vs rc-b vs rc.0-b):
		// zero and absent numbers are where "insignificant zero" shortcuts go wrong
		if sh := numShapes[name]; sh != nil {
			tpls := append(append([]string{}, sh.Pre...), sh.Post...)
			inst := func(tpl, k string) string {
				if k == "" {
					tpl = strings.ReplaceAll(strings.ReplaceAll(tpl, ".%k", ""), ".%K", "")
				}
				return strings.ReplaceAll(strings.ReplaceAll(tpl, "%k", k), "%K", k)
			}
			for f := 0; f < 3 && len(tpls) > 0; f++ {
				ar := sh.Arities[r.Intn(len(sh.Arities))]
				parts := make([]string, ar)
				for i := range parts {
					parts[i] = r.Pick([]string{"1", "2", "0"})
				}
				base := sh.Prefix + strings.Join(parts, ".")
				a, b := tpls[r.Intn(len(tpls))], tpls[r.Intn(len(tpls))]
				for _, ka := range []string{"0", "", "1"} {
					for _, kb := range []string{"0", "", "1"} {
						extra = append([]string{base + inst(a, ka) + inst(b, kb)}, extra...)
					}
					extra = append([]string{base + inst(a, ka)}, extra...)
				}
			}
		}
		// word-boundary family: one base, one position, the numbers 2^k-1, 2^k, 2^k+1 for a
		// seed-dependent half of the usual widths (8..64 bits): a single mishandled value meets
		// its two neighbours and small numbers at the same position
		if sh := numShapes[name]; sh != nil {
			ar := sh.Arities[r.Intn(len(sh.Arities))]
			pos := r.Intn(ar)
			if name == "github" && pos == 0 && ar > 1 {
				pos = 1
			}
			for ki, k := range []uint{8, 15, 16, 20, 21, 24, 31, 32, 53, 63, 64} {
				if (ki+int(ctx.Seed))%2 == 0 && ctx.Quick {
					continue
				}
				for d := int64(-1); d <= 1; d++ {
					parts := make([]string, ar)
					for i := range parts {
						parts[i] = "1"
					}
					parts[pos] = new(big.Int).Add(new(big.Int).Lsh(big.NewInt(1), k), big.NewInt(d)).String()
					extra = append([]string{sh.Prefix + strings.Join(parts, ".")}, extra...)
				}
			}
		}
		// deep arities with all their prefixes (rules about "the first k components" and implicit
		// zero padding are decided between a tuple and its own prefixes), and punctuation pairs
		// after a numeric and after an alphabetic tail (variants.go)
		{
			gen := versionGens[name]
			var sample []string
			for i := 0; i < 40; i++ {
				sample = append(sample, gen(r))
			}
			base := "1"
			if sh := numShapes[name]; sh != nil {
				base = sh.Prefix + "1"
			}
			fam := deepArity(r, base, ".")
			if len(fam) > 0 {
				fam = append(fam, tokenPrefixes(fam[len(fam)-1])...)
			}
			fam = append(fam, overflowSums(base, ".")...)
			b2 := base + ".0"
			// a full-arity base with digit-free identifier lists that differ only in their joiners
			// (a.b / a-b / a.b.c / a-b.c / a.b-c): one identifier "a-b" against the two "a", "b"
			b3 := b2
			if sh := numShapes[name]; sh != nil {
				ar := sh.Arities[0]
				for _, a := range sh.Arities {
					if a == 3 {
						ar = 3
					}
				}
				parts := make([]string, ar)
				for i := range parts {
					parts[i] = r.Pick([]string{"1", "0", "2"})
				}
				b3 = sh.Prefix + strings.Join(parts, ".")
			}
			for _, j := range []string{"-", ".", "_", "~", "+"} {
				for _, ids := range []string{"a.b", "a-b", "a.b.c", "a-b.c", "a.b-c", "a-b-c", "x.y", "x-y", "a.c1", "a-c1"} {
					fam = append(fam, b3+j+ids)
				}
			}
			fam = append(fam, joinerSwaps(r, b3+"-a.b", sample)...)
			fam = append(fam, punctuationPairs(r, b2, sample)...)
			fam = append(fam, punctuationPairs(r, b2+r.Pick([]string{"a", "rc", "b"}), sample)...)
			extra = append(fam, extra...)
		}
		p, cands := BuildPool(e, r, n+len(extra)/2+120, extra)
		// reference validity
		var reqs []string
		var keep []int
		for i, s := range p.Strs {
			if isASCII(s) {
				reqs = append(reqs, "SV "+name+" "+hx(s))
				keep = append(keep, i)
			}
		}
		ans, err := ctx.Pool.Map(reqs)
		if err != nil {
			res.Notes = append(res.Notes, "model error: "+err.Error())
			continue
		}
		var idx []int
		for k, a := range ans {
			if a == "1" && specScope(id, name, p.Strs[keep[k]]) {
				idx = append(idx, keep[k])
			}
			if a == "nospec" {
				res.Notes = append(res.Notes, name+": no reference order in the extracted model")
				break
			}
		}
		// strict grammar of semver: accepted iff the BNF recogniser accepts
		if name == "semver" {
			var rq []string
			var cs []string
			// the BNF is over ASCII: a text with any other byte is invalid, whatever Unicode makes
			// of it (letters that case-fold to ASCII ones, digits of other scripts); the recogniser
			// is byte-exact, so such texts are compared too (outer Unicode white space excepted:
			// TrimSpace removes it before the grammar is consulted)
			rn := NewRNG(ctx.Seed, "C08/nonascii")
			extra := []string{}
			for i, s := range p.Strs {
				if i%3 == 0 {
					extra = append(extra, nonASCIIInside(rn, s))
				}
			}
			for _, s := range append(append([]string{}, cands...), extra...) {
				if strings.TrimSpace(s) == s {
					rq = append(rq, "SV semver "+hx(s))
					cs = append(cs, s)
				}
			}
			an, _ := ctx.Pool.Map(rq)
			for k, a := range an {
				ok := e.Parse(cs[k]).OK
				res.Evaluations++
				if a == "1" && !specScope(id, name, cs[k]) {
					continue // must-accept direction only inside the claimed scope (numbers of <= 18 digits)
				}
				if ok != (a == "1") {
					res.violate(Violation{Eco: name, Kind: "strict-grammar", Input: cs[k], Expected: fmt.Sprintf("accepted=%v (SemVer 2.0.0 BNF)", a == "1"), Actual: fmt.Sprintf("accepted=%v", ok)})
				}
			}
		}
		reqs = reqs[:0]
		type ij struct{ i, j int }
		var pairs []ij
		for _, i := range idx {
			for _, j := range idx {
				reqs = append(reqs, "SP "+name+" "+hx(p.Strs[i])+" "+hx(p.Strs[j]))
				pairs = append(pairs, ij{i, j})
			}
		}
		// parse-and-compare of the same pairs from several goroutines at once (concur.go): the
		// order a caller observes must not depend on who else is parsing
		concurrentRecheck(ctx, name, "parse+Compare/"+name, len(pairs),
			func(k int) string {
				a, b := e.Parse(p.Strs[pairs[k].i]), e.Parse(p.Strs[pairs[k].j])
				if !a.OK || !b.OK {
					return "rejected"
				}
				return fmt.Sprint(cmpS(e, a.Val, b.Val))
			},
			func(k int) any { return []string{p.Strs[pairs[k].i], p.Strs[pairs[k].j]} })
		ans, err = ctx.Pool.Map(reqs)
		if err != nil {
			res.Notes = append(res.Notes, "model error: "+err.Error())
			continue
		}
		strict := 0
		var devs []Violation
		var devReqs []string
		for k, a := range ans {
			if a == "x" {
				continue
			}
			pq := pairs[k]
			got := cmpS(e, p.Vals[pq.i], p.Vals[pq.j])
			res.Evaluations++
			if a != "0" && pq.i < pq.j {
				strict++
			}
			if fmt.Sprint(got) != a {
				devs = append(devs, Violation{Eco: name, Kind: "reference-order", Input: []string{p.Strs[pq.i], p.Strs[pq.j]}, Expected: a + " (" + sp.Rule + ")", Actual: fmt.Sprint(got)})
				devReqs = append(devReqs, "VC "+name+" "+hx(p.Strs[pq.i])+" "+hx(p.Strs[pq.j]))
			}
		}
		classifyDevs(ctx, id, name, devs, devReqs)
		// long runs: one digit run / one letter run stretched to the lengths where fixed-size
		// buffers and narrow length fields end (64, 256, 1024), each against the same run one
		// byte shorter, one longer, and with a different last byte, and against two short texts
		nLong := longRunStream(ctx, id, name, e, sp.Rule)
		res.DistinctNontrivial += strict
		dist[name] = map[string]int{"pool": len(p.Strs), "reference_valid": len(idx), "pairs": len(pairs), "strictly_ordered_pairs": strict, "long_run_pairs": nLong}
		if len(idx) >= 2 {
			res.sample(map[string]any{"eco": name, "a": p.Strs[idx[0]], "b": p.Strs[idx[1]], "impl": cmpS(e, p.Vals[idx[0]], p.Vals[idx[1]])})
		}
		if ctx.MEcos[name] {
			corrV(ctx, e, 600, 0)
		}
	}
	res.Distribution["per_ecosystem"] = dist
}

// longRunStream: see the call site.  Texts are built on the ecosystem's numeric shape; those the
// ecosystem or the reference rejects are skipped.
func longRunStream(ctx *Ctx, id, name string, e *Eco, rule string) int {
	res := ctx.Res
	sh := numShapes[name]
	if sh == nil {
		return 0
	}
	ar := sh.Arities[0]
	for _, a := range sh.Arities {
		if a == 3 {
			ar = 3
		}
	}
	mk := func(last string) string {
		parts := make([]string, ar)
		for i := range parts {
			parts[i] = "1"
		}
		parts[ar-1] = last
		return sh.Prefix + strings.Join(parts, ".")
	}
	var groups [][]string
	for _, L := range []int{64, 256, 1024} {
		for _, kind := range []string{"digits", "letters-plus", "letters-dash", "letters-glued", "tildes"} {
			var fam []string
			rep := func(c string, k int) string { return strings.Repeat(c, k) }
			switch kind {
			case "digits":
				fam = []string{mk(rep("1", L-1)), mk(rep("1", L)), mk(rep("1", L+1)), mk(rep("1", L-1) + "2"), mk("5"), mk("1")}

			case "letters-plus":
				b := mk("0") + "+"
				fam = []string{b + rep("a", L-1), b + rep("a", L), b + rep("a", L+1), b + rep("a", L) + "b", b + rep("a", L) + "c", mk("0"), b + "b"}
			case "letters-dash":
				b := mk("0") + "-"
				fam = []string{b + rep("a", L-1), b + rep("a", L), b + rep("a", L+1), b + rep("a", L) + "b", b + rep("a", L) + "c", mk("0"), b + "b"}
			case "letters-glued":
				b := mk("0")
				fam = []string{b + rep("a", L-1), b + rep("a", L), b + rep("a", L+1), b + rep("a", L) + "b", b + rep("a", L) + "c", mk("0")}
			case "tildes":
				b := mk("0")
				fam = []string{b + rep("~", L-1), b + rep("~", L), b + rep("~", L+1), b + rep("~", L) + "a", mk("0")}
			}
			groups = append(groups, fam)
		}
	}
	n := 0
	var devs []Violation
	var devReqs []string
	defer func() { classifyDevs(ctx, id, name, devs, devReqs) }()
	// digit runs around 2^16 digits (where a 16-bit length field wraps): C10 and C11 say "as
	// integers of any length", so the expected sign is the comparison of the integers themselves
	// (math/big); the extracted reference is not asked (its numeral conversion is quadratic)
	if id == "C10" || id == "C11" {
		for _, L := range []int{65535, 65536, 65537} {
			rep := func(c string, k int) string { return strings.Repeat(c, k) }
			lasts := []string{rep("1", L-1), rep("1", L), rep("1", L-1) + "2", "0" + rep("1", L), "2" + rep("0", L-1), "5", "70000"}
			var vals []any
			var nums []*big.Int
			var strs []string
			for _, l := range lasts {
				if pr := e.Parse(mk(l)); pr.OK {
					b, _ := new(big.Int).SetString(l, 10)
					vals, nums, strs = append(vals, pr.Val), append(nums, b), append(strs, mk(l))
				}
			}
			for i := range vals {
				for j := range vals {
					got := cmpS(e, vals[i], vals[j])
					want := nums[i].Cmp(nums[j])
					res.Evaluations++
					n++
					if got != want {
						short := func(s string) string {
							if len(s) > 60 {
								return fmt.Sprintf("%s...(%d bytes)...%s", s[:16], len(s), s[len(s)-8:])
							}
							return s
						}
						res.violateKey(Violation{Eco: name, Kind: "reference-order/long-run", Input: map[string]any{"a": short(strs[i]), "b": short(strs[j]), "a_last_component_digits": len(lasts[i]), "b_last_component_digits": len(lasts[j])}, Expected: fmt.Sprintf("%d (digit runs compare as integers of any length)", want), Actual: fmt.Sprint(got)}, "2^16-digits")
					}
				}
			}
		}
	}
	for _, fam := range groups {
		var strs []string
		var vals []any
		var reqs []string
		for _, s := range fam {
			if pr := e.Parse(s); pr.OK && specScope(id, name, s) {
				strs = append(strs, s)
				vals = append(vals, pr.Val)
				reqs = append(reqs, "SV "+name+" "+hx(s))
			}
		}
		if len(strs) < 2 {
			continue
		}
		ans, err := ctx.Pool.Map(reqs)
		if err != nil {
			return n
		}
		var ks []int
		for k, a := range ans {
			if a == "1" {
				ks = append(ks, k)
			}
		}
		reqs = reqs[:0]
		type ij struct{ i, j int }
		var pairs []ij
		for _, i := range ks {
			for _, j := range ks {
				if i != j {
					reqs = append(reqs, "SP "+name+" "+hx(strs[i])+" "+hx(strs[j]))
					pairs = append(pairs, ij{i, j})
				}
			}
		}
		ans, err = ctx.Pool.Map(reqs)
		if err != nil {
			return n
		}
		for k, a := range ans {
			if a == "x" {
				continue
			}
			pq := pairs[k]
			got := cmpS(e, vals[pq.i], vals[pq.j])
			res.Evaluations++
			n++
			if fmt.Sprint(got) != a {
				short := func(s string) string {
					if len(s) > 80 {
						return fmt.Sprintf("%s...(%d bytes)...%s", s[:24], len(s), s[len(s)-8:])
					}
					return s
				}
				devs = append(devs, Violation{Eco: name, Kind: "reference-order/long-run", Input: []string{strs[pq.i], strs[pq.j]}, Expected: a + " (" + rule + ") for " + short(strs[pq.i]) + " vs " + short(strs[pq.j]), Actual: fmt.Sprint(got)})
				devReqs = append(devReqs, "VC "+name+" "+hx(strs[pq.i])+" "+hx(strs[pq.j]))
			}
		}
	}
	return n
}

// classifyDevs: a deviation from the reference is covered by a recorded finding only where the
// verified model — the code as it was when the finding was recorded, for which the deviation
// class is characterised and the theorem proved on its complement — deviates in the same way.  A
// pair on which the model agrees with the reference but the implementation does not is new.
func classifyDevs(ctx *Ctx, id, name string, devs []Violation, devReqs []string) {
	res := ctx.Res
	modelAns := make([]string, len(devReqs))
	if ctx.MEcos[name] && len(devReqs) > 0 {
		if ma, err := ctx.Pool.Map(devReqs); err == nil {
			modelAns = ma
		}
	}
	for k, v := range devs {
		in := v.Input.([]string)
		if f := findingFor(id, name, "reference-order", "", in); f != "" && (modelAns[k] == "" || modelAns[k] == v.Actual) {
			v.Finding = f
		} else if f != "" {
			v.Kind += "/new-inside-finding-class"
			v.Expected += "; the verified model also answers " + strings.Fields(v.Expected)[0] + " here, so this deviation is not the recorded one"
		}
		res.violate(v)
	}
}
