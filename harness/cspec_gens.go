package main

import "strings"

// generators aimed at the quantifiers of C08..C14 (inputs inside the claimed grammars)

func init() {
	small := func(r *RNG) string { return r.Pick([]string{"0", "1", "2", "3", "9", "10", "11", "20", "99", "100"}) }
	nums := func(r *RNG, n int) string {
		p := make([]string, n)
		for i := range p {
			p[i] = small(r)
			if r.Chance(10) {
				p[i] = r.Pick([]string{"999", "1000", "65535", "2147483647", "2147483648", "4294967296", "20240101120000", "123456789012345678"})
			}
		}
		return strings.Join(p, ".")
	}
	// maven: conventional shapes N(.N){0,3} [sep group]
	extraSpecGens["maven"] = func(r *RNG) string {
		s := nums(r, r.Range(1, 4))
		if r.Chance(12) {
			// numbers of any length: on both sides of 2^63 and 2^64, with and without leading zeros
			long := r.Pick([]string{"9223372036854775807", "9223372036854775808", "18446744073709551615", "18446744073709551616", "010000000000000000000",
				"99999999999999999999", "100000000000000000000", "0018446744073709551616", "1000000000000000000", "123456789012345678901234567890"})
			if i := strings.LastIndexByte(s, '.'); i >= 0 && r.Chance(70) {
				s = s[:i+1] + long
			} else {
				s = long
			}
		}
		if r.Chance(25) {
			return s
		}
		sep := r.Pick([]string{"-", "."})
		q := r.Pick([]string{"alpha", "beta", "milestone", "rc", "cr", "snapshot", "ga", "final", "release", "sp", "foo", "bar", "jre", "xyz", "dev"})
		q = r.Case(q)
		switch r.Intn(6) {
		case 0:
			return s + sep + q
		case 1:
			return s + sep + q + small(r)
		case 2:
			return s + sep + q + r.Pick([]string{"-", "."}) + small(r)
		case 3:
			return s + sep + r.Pick([]string{"a", "b", "m", "A", "B", "M"}) + small(r)
		case 4:
			return s + "-" + small(r)
		default:
			return s + sep + q
		}
	}
	// rpm: the simple sub-grammar D(.D)*(~L+D*)?(-D(.L+D*)?)? with optional epoch, plus the
	// adjacency / caret / tilde cases the property names
	extraSpecGens["rpm"] = func(r *RNG) string {
		s := nums(r, r.Range(1, 4))
		if r.Chance(15) {
			s = small(r) + ":" + s
		}
		if r.Chance(30) {
			s += "~" + r.Pick([]string{"rc", "alpha", "beta", "pre"}) + r.Pick([]string{"", "1", "2", "10"})
		}
		if r.Chance(50) {
			s += "-" + small(r)
			if r.Chance(50) {
				s += "." + r.Pick([]string{"el", "fc", "git"}) + r.Pick([]string{"", "7", "8", "30"})
			}
		}
		if r.Chance(12) {
			s += r.Pick([]string{"a", "^git1", "^20200101", "_1", ".a", "~", "b1"})
		}
		return s
	}
	// gem: N(.N)* followed by .<letters>[N] / -<letters>[.N] groups, single case
	extraSpecGens["gem"] = func(r *RNG) string {
		s := nums(r, r.Range(1, 4))
		k := r.Intn(3)
		for i := 0; i < k; i++ {
			w := r.Pick([]string{"rc", "beta", "alpha", "pre", "a", "b", "x", "dev"})
			if r.Chance(50) {
				s += "." + w + r.Pick([]string{"", "1", "2", "10"})
			} else {
				s += "-" + w
				if r.Chance(50) {
					s += "." + small(r)
				}
			}
		}
		return s
	}
	// pypi: [N!]N(.N)*[{a|b|rc|alpha|beta|c}N][.postN|.revN|.rN][.devN][+local]
	extraSpecGens["pypi"] = func(r *RNG) string {
		s := ""
		if r.Chance(12) {
			s = small(r) + "!"
		}
		s += nums(r, r.Range(1, 5))
		if r.Chance(45) {
			s += r.Pick([]string{"", "."}) + r.Pick([]string{"a", "b", "rc", "alpha", "beta", "c"}) + small(r)
		}
		if r.Chance(35) {
			s += r.Pick([]string{".post", "post", ".rev", ".r"}) + small(r)
		}
		if r.Chance(35) {
			s += r.Pick([]string{".dev", "dev"}) + small(r)
		}
		if r.Chance(12) {
			s += "+" + r.Pick([]string{"abc", "1", "local.1", "ubuntu1", "a.2"})
		}
		return s
	}
	// debian: [epoch:]upstream[-revision] over [0-9A-Za-z.+~-]
	extraSpecGens["debian"] = func(r *RNG) string {
		s := ""
		if r.Chance(15) {
			s = small(r) + ":"
		}
		s += small(r)
		k := r.Range(0, 4)
		for i := 0; i < k; i++ {
			s += r.Pick([]string{".", ".", "+", "~", "-", "a", "rc", "~rc", "+dfsg", "~~", "z", "A", ""}) + r.Pick([]string{small(r), "", "00" + small(r), "123456789012345678901234"})
		}
		if r.Chance(50) {
			s += "-" + r.Pick([]string{"0", "1", "2", "1ubuntu1", "0+b1", "1~bpo10"})
		}
		return s
	}
	// alpine: digits{.digits}[letter]{_suffix[digits]}[-rN], no leading zeros
	extraSpecGens["alpine"] = func(r *RNG) string {
		n := r.Range(1, 3)
		if r.Chance(70) {
			n = 3
		}
		s := nums(r, n)
		if r.Chance(25) {
			s += r.Pick([]string{"a", "b", "z"})
		}
		k := r.Intn(4)
		for i := 0; i < k; i++ {
			s += "_" + r.Pick([]string{"alpha", "beta", "pre", "rc", "cvs", "svn", "git", "hg", "p"}) + r.Pick([]string{"", "1", "2", "10"})
		}
		if r.Chance(40) {
			s += "-r" + small(r)
		}
		return s
	}
	// SemVer family: identifiers of every kind
	sem := func(prefix string, four bool) func(r *RNG) string {
		return func(r *RNG) string {
			n := 3
			if four {
				n = r.Range(1, 4)
			}
			s := prefix + nums(r, n)
			if r.Chance(65) {
				k := r.Range(1, 6)
				ids := make([]string, k)
				for i := range ids {
					ids[i] = r.Pick([]string{"0", "1", "2", "10", "11", "123456789012345678", "4294967296", "99999999999", "100000000000", "20240101120000", "3000000000000", "5000000000", "alpha", "beta", "rc", "a", "A", "a-b", "-5", "-", "x1", "1x", "rc1", "Alpha"})
				}
				s += "-" + strings.Join(ids, ".")
			}
			if r.Chance(25) {
				s += "+" + r.Pick([]string{"build", "1", "b.1", "001"})
			}
			return s
		}
	}
	extraSpecGens["semver"] = sem("", false)
	extraSpecGens["npm"] = sem("", false)
	extraSpecGens["cargo"] = sem("", false)
	extraSpecGens["hex"] = sem("", false)
	extraSpecGens["nuget"] = sem("", true)
	golangBase := sem("v", false)
	extraSpecGens["golang"] = func(r *RNG) string {
		if r.Chance(60) {
			return golangBase(r)
		}
		ts := r.Pick([]string{"20191109021931", "20200101000000", "20191109021932", "20180228235959"})
		h := r.Pick([]string{"abcdefabcdef", "0123456789ab"})
		b := small(r) + "." + small(r) + "." + small(r)
		switch r.Intn(3) {
		case 0:
			return "v" + b[:strings.LastIndex(b, ".")] + ".0-" + ts + "-" + h
		case 1:
			return "v" + b + "-" + r.Pick([]string{"pre", "rc.1", "alpha"}) + ".0." + ts + "-" + h
		default:
			return "v" + b + "-0." + ts + "-" + h
		}
	}
}
