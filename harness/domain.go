package main

import "unicode"

// Model domain for inputs with bytes >= 0x80.  The models are byte-exact except where the Go code
// consults Unicode tables: strings.TrimSpace / strings.Fields (Unicode white space), and — in
// alpm, debian, rpm (unicode.IsLetter/IsDigit in validation), conan (strings.ToLower) and maven
// (unicode.IsDigit/IsLetter in the tokenizer) — letter, digit and case tables.  Measured on the
// pinned tree (about 2000 texts per ecosystem and layer with a non-ASCII rune or an invalid UTF-8
// byte inserted into an accepted text): outside those five version parsers every disagreement
// between model and implementation comes from a Unicode white-space rune.  So a text without such
// a rune is inside the modelled domain of every range parser and of the other fifteen version
// parsers, and is compared like an ASCII text.
var unicodeTableEcos = map[string]bool{"alpm": true, "debian": true, "rpm": true, "conan": true, "maven": true}

func hasUnicodeSpace(s string) bool {
	for _, r := range s {
		if r >= 0x80 && unicode.IsSpace(r) {
			return true
		}
	}
	return false
}

// vInDomain: version texts the V-layer model of the ecosystem is exact on.
func vInDomain(eco, s string) bool {
	if isASCII(s) {
		return true
	}
	return !unicodeTableEcos[eco] && !hasUnicodeSpace(s)
}

// rInDomain: range texts the R-layer model (version layer answered by the implementation) is
// exact on.
func rInDomain(eco, s string) bool {
	if isASCII(s) {
		return true
	}
	// conan lower-cases the whole range text with strings.ToLower (Unicode case tables)
	return eco != "conan" && !hasUnicodeSpace(s)
}
