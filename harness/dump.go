package main

import (
	"fmt"
	"reflect"
	"sort"
	"strings"
)

// deepDump renders a value structurally (pointers followed, unexported fields included,
// map keys sorted), so that two dumps are equal iff the reachable contents are equal.
func deepDump(v any) string {
	var b strings.Builder
	dumpValue(&b, reflect.ValueOf(v), 0)
	return b.String()
}

func derefDump(v any) string { return deepDump(v) }

func dumpValue(b *strings.Builder, v reflect.Value, depth int) {
	if depth > 12 {
		b.WriteString("…")
		return
	}
	if !v.IsValid() {
		b.WriteString("<invalid>")
		return
	}
	switch v.Kind() {
	case reflect.Ptr:
		if v.IsNil() {
			b.WriteString("nil")
			return
		}
		b.WriteString("&")
		dumpValue(b, v.Elem(), depth+1)
	case reflect.Interface:
		if v.IsNil() {
			b.WriteString("nil")
			return
		}
		dumpValue(b, v.Elem(), depth+1)
	case reflect.Struct:
		b.WriteString(v.Type().Name() + "{")
		for i := 0; i < v.NumField(); i++ {
			if i > 0 {
				b.WriteString(" ")
			}
			b.WriteString(v.Type().Field(i).Name + ":")
			dumpValue(b, v.Field(i), depth+1)
		}
		b.WriteString("}")
	case reflect.Slice, reflect.Array:
		if v.Kind() == reflect.Slice && v.IsNil() {
			b.WriteString("nil[]")
			return
		}
		b.WriteString("[")
		for i := 0; i < v.Len(); i++ {
			if i > 0 {
				b.WriteString(" ")
			}
			dumpValue(b, v.Index(i), depth+1)
		}
		b.WriteString("]")
	case reflect.Map:
		keys := v.MapKeys()
		ks := make([]string, len(keys))
		m := map[string]reflect.Value{}
		for i, k := range keys {
			var kb strings.Builder
			dumpValue(&kb, k, depth+1)
			ks[i] = kb.String()
			m[ks[i]] = v.MapIndex(k)
		}
		sort.Strings(ks)
		b.WriteString("map[")
		for _, k := range ks {
			b.WriteString(k + ":")
			dumpValue(b, m[k], depth+1)
			b.WriteString(" ")
		}
		b.WriteString("]")
	case reflect.String:
		fmt.Fprintf(b, "%q", v.String())
	case reflect.Bool:
		fmt.Fprintf(b, "%t", v.Bool())
	case reflect.Int, reflect.Int8, reflect.Int16, reflect.Int32, reflect.Int64:
		fmt.Fprintf(b, "%d", v.Int())
	case reflect.Uint, reflect.Uint8, reflect.Uint16, reflect.Uint32, reflect.Uint64, reflect.Uintptr:
		fmt.Fprintf(b, "%d", v.Uint())
	case reflect.Float32, reflect.Float64:
		fmt.Fprintf(b, "%g", v.Float())
	case reflect.Func, reflect.Chan, reflect.UnsafePointer:
		if v.IsNil() {
			b.WriteString("nil")
		} else {
			b.WriteString(v.Kind().String())
		}
	default:
		b.WriteString(v.Kind().String())
	}
}
