package main

import (
	"fmt"
	"reflect"
	"time"

	"github.com/alowayed/go-univers/pkg/ecosystem/alpine"
	"github.com/alowayed/go-univers/pkg/ecosystem/alpm"
	"github.com/alowayed/go-univers/pkg/ecosystem/apache"
	"github.com/alowayed/go-univers/pkg/ecosystem/cargo"
	"github.com/alowayed/go-univers/pkg/ecosystem/composer"
	"github.com/alowayed/go-univers/pkg/ecosystem/conan"
	"github.com/alowayed/go-univers/pkg/ecosystem/cran"
	"github.com/alowayed/go-univers/pkg/ecosystem/debian"
	"github.com/alowayed/go-univers/pkg/ecosystem/gem"
	"github.com/alowayed/go-univers/pkg/ecosystem/gentoo"
	"github.com/alowayed/go-univers/pkg/ecosystem/github"
	"github.com/alowayed/go-univers/pkg/ecosystem/golang"
	"github.com/alowayed/go-univers/pkg/ecosystem/hex"
	"github.com/alowayed/go-univers/pkg/ecosystem/mattermost"
	"github.com/alowayed/go-univers/pkg/ecosystem/maven"
	"github.com/alowayed/go-univers/pkg/ecosystem/npm"
	"github.com/alowayed/go-univers/pkg/ecosystem/nuget"
	"github.com/alowayed/go-univers/pkg/ecosystem/pypi"
	"github.com/alowayed/go-univers/pkg/ecosystem/rpm"
	"github.com/alowayed/go-univers/pkg/ecosystem/semver"
	"github.com/alowayed/go-univers/pkg/univers"
)

// Eco is a type-erased view of one ecosystem of the implementation.
// Every call is made under recover(); a panic is reported in the Outcome.
type Eco struct {
	Name     string
	parse    func(string) (any, bool, error) // value, value-is-nil, error
	compare  func(a, b any) int
	str      func(any) string
	parseR   func(string) (any, bool, error)
	contains func(r, v any) bool
	strR     func(any) string
	LibName  string // what e.Name() returns
}

func wrap[V univers.Version[V], VR univers.VersionRange[V]](e univers.Ecosystem[V, VR]) *Eco {
	isNilV := func(v V) bool { return isNilAny(any(v)) }
	isNilR := func(v VR) bool { return isNilAny(any(v)) }
	return &Eco{
		Name:    e.Name(),
		LibName: e.Name(),
		parse: func(s string) (any, bool, error) {
			v, err := e.NewVersion(s)
			return v, isNilV(v), err
		},
		compare: func(a, b any) int { return a.(V).Compare(b.(V)) },
		str:     func(a any) string { return a.(V).String() },
		parseR: func(s string) (any, bool, error) {
			r, err := e.NewVersionRange(s)
			return r, isNilR(r), err
		},
		contains: func(r, v any) bool { return r.(VR).Contains(v.(V)) },
		strR:     func(r any) string { return r.(VR).String() },
	}
}

var allEcos = []*Eco{
	wrap[*alpine.Version, *alpine.VersionRange](&alpine.Ecosystem{}),
	wrap[*alpm.Version, *alpm.VersionRange](&alpm.Ecosystem{}),
	wrap[*apache.Version, *apache.VersionRange](&apache.Ecosystem{}),
	wrap[*cargo.Version, *cargo.VersionRange](&cargo.Ecosystem{}),
	wrap[*composer.Version, *composer.VersionRange](&composer.Ecosystem{}),
	wrap[*conan.Version, *conan.VersionRange](&conan.Ecosystem{}),
	wrap[*cran.Version, *cran.VersionRange](&cran.Ecosystem{}),
	wrap[*debian.Version, *debian.VersionRange](&debian.Ecosystem{}),
	wrap[*gem.Version, *gem.VersionRange](&gem.Ecosystem{}),
	wrap[*gentoo.Version, *gentoo.VersionRange](&gentoo.Ecosystem{}),
	wrap[*github.Version, *github.VersionRange](&github.Ecosystem{}),
	wrap[*golang.Version, *golang.VersionRange](&golang.Ecosystem{}),
	wrap[*hex.Version, *hex.VersionRange](&hex.Ecosystem{}),
	wrap[*mattermost.Version, *mattermost.VersionRange](&mattermost.Ecosystem{}),
	wrap[*maven.Version, *maven.VersionRange](&maven.Ecosystem{}),
	wrap[*npm.Version, *npm.VersionRange](&npm.Ecosystem{}),
	wrap[*nuget.Version, *nuget.VersionRange](&nuget.Ecosystem{}),
	wrap[*pypi.Version, *pypi.VersionRange](&pypi.Ecosystem{}),
	wrap[*rpm.Version, *rpm.VersionRange](&rpm.Ecosystem{}),
	wrap[*semver.Version, *semver.VersionRange](&semver.Ecosystem{}),
}

func isNilAny(x any) bool {
	if x == nil {
		return true
	}
	rv := reflect.ValueOf(x)
	switch rv.Kind() {
	case reflect.Ptr, reflect.Map, reflect.Slice, reflect.Interface, reflect.Func, reflect.Chan:
		return rv.IsNil()
	}
	return false
}

func ecoByName(n string) *Eco {
	for _, e := range allEcos {
		if e.Name == n {
			return e
		}
	}
	return nil
}

// ---------- guarded calls ----------

// Parsed is the outcome of NewVersion / NewVersionRange.
type Parsed struct {
	Val    any
	OK     bool   // value usable, error nil
	Panic  string // non-empty if the call panicked
	XorBad bool   // neither (value,nil) nor (nil,error)
	Dur    time.Duration
	Err    string // text of the returned error ("" if none)
}

func guard(f func()) (p string) {
	return guardDesc(func() string { return "a call into the implementation" }, f)
}

func (e *Eco) Parse(s string) Parsed {
	var out Parsed
	t0 := time.Now()
	out.Panic = guardDesc(func() string { return fmt.Sprintf("%s NewVersion(%q)", e.Name, s) }, func() {
		v, isNil, err := e.parse(s)
		out.Val = v
		out.OK = err == nil && !isNil
		out.XorBad = (err == nil) == isNil
		if err != nil {
			out.Err = err.Error()
		}
	})
	out.Dur = time.Since(t0)
	if out.Panic != "" {
		out.OK = false
	}
	return out
}

func (e *Eco) ParseRange(s string) Parsed {
	var out Parsed
	t0 := time.Now()
	out.Panic = guardDesc(func() string { return fmt.Sprintf("%s NewVersionRange(%q)", e.Name, s) }, func() {
		v, isNil, err := e.parseR(s)
		out.Val = v
		out.OK = err == nil && !isNil
		out.XorBad = (err == nil) == isNil
		if err != nil {
			out.Err = err.Error()
		}
	})
	out.Dur = time.Since(t0)
	if out.Panic != "" {
		out.OK = false
	}
	return out
}

// Compare returns the raw int and a panic text.
func (e *Eco) Compare(a, b any) (r int, p string) {
	p = guardDesc(func() string { return fmt.Sprintf("%s Compare(%q, %q)", e.Name, e.str(a), e.str(b)) }, func() { r = e.compare(a, b) })
	return
}

func (e *Eco) Contains(rg, v any) (r bool, p string) {
	p = guardDesc(func() string { return fmt.Sprintf("%s Contains(%q, %q)", e.Name, e.strR(rg), e.str(v)) }, func() { r = e.contains(rg, v) })
	return
}

func (e *Eco) Str(v any) (s string, p string) {
	p = guard(func() { s = e.str(v) })
	return
}

func (e *Eco) StrR(v any) (s string, p string) {
	p = guard(func() { s = e.strR(v) })
	return
}
