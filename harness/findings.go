package main

import (
	"encoding/json"
	"fmt"
	"os"
	"regexp"
	"strings"
)

// ---------- known findings: classes and witness replay ----------

// findingFor: the id of the OPEN known finding (known_findings.json) whose class contains a
// violation of property prop in ecosystem eco, or "".  The classes are deliberately narrow: a
// violation outside them is reported as a new VIOLATION.  The same predicates are stated as Coq
// definitions in coq/Findings.v, where the property theorems are proved on their complement.
func findingFor(prop, eco, kind, rng string, versions []string) string {
	for _, c := range findingClasses {
		if c.prop == prop && c.eco == eco && c.match(kind, rng, versions) {
			return c.id
		}
	}
	return ""
}

type findingClass struct {
	id, prop, eco string
	match         func(kind, rng string, versions []string) bool
}

func composerStability(s string) (int64, bool) {
	e := ecoByName("composer")
	pr := e.Parse(s)
	if !pr.OK {
		return 0, false
	}
	return intField(pr.Val, "stability")
}

// rpmSimple: the sub-grammar on which go-univers' rpm comparison coincides with rpmvercmp:
// [epoch:] D(.D)* [~L+D*] [-D[.L+D*]]
var rpmSimpleRe = regexp.MustCompile(`^(\d+:)?\d+(\.\d+)*(~[A-Za-z]+\d*)?(-\d+(\.[A-Za-z]+\d*)?)?$`)

func rpmSimple(s string) bool { return rpmSimpleRe.MatchString(strings.TrimSpace(s)) }

// mavenCore: the sub-grammar on which go-univers' maven comparison coincides with
// ComparableVersion: N(.N){0,3} optionally followed by one known pre-release qualifier with a
// glued number (or the aliases a/b/m directly followed by digits), joined by '.' or '-', the
// number before the qualifier not being 0, every number of at most 18 digits.
var mavenCoreRe = regexp.MustCompile(`(?i)^((\d+)(\.\d+){0,3})([.-]((alpha|beta|milestone|rc|cr|snapshot)\d*|[abm]\d+))?$`)

func mavenCore(s string) bool {
	m := mavenCoreRe.FindStringSubmatch(strings.TrimSpace(s))
	if m == nil {
		return false
	}
	if m[4] != "" {
		parts := strings.Split(m[1], ".")
		if strings.Trim(parts[len(parts)-1], "0") == "" {
			return false
		}
	}
	return true
}

var findingClasses = []findingClass{
	// composer: a stability flag (@dev, @RC, ...) selects by stability, not by position in the order
	{"F-composer-stability-flag", "C20", "composer", func(kind string, rng string, vs []string) bool {
		// the recorded finding is the BARE flag (a constraint that is only "@dev", "@RC", ">=@dev"): it
		// selects by stability.  A flag behind a version ("1.0@beta", ">=1.0@beta") is not in the
		// class: on the recorded tree it denotes a point
		if kind != "not-convex" {
			return false
		}
		for _, tok := range strings.FieldsFunc(rng, func(r rune) bool { return r == ' ' || r == ',' || r == '|' || r == '\t' }) {
			if strings.HasPrefix(strings.TrimLeft(tok, "<>=!~^"), "@") {
				return true
			}
		}
		return false
	}},
	// composer: the literal text "1.0b1" is special-cased in matchesCaret, so padding it matters
	{"F-composer-caret-text-case", "C18", "composer", func(kind string, rng string, vs []string) bool {
		if kind != "version-padding-contains" || !strings.Contains(rng, "^") {
			return false
		}
		for _, v := range vs {
			if strings.TrimSpace(v) == "1.0b1" {
				return true
			}
		}
		return false
	}},
	// hex ~>X.Y with Y>0 stops at X.(Y+1).0 instead of (X+1).0.0
	{"F-hex-pessimistic-minor", "C05", "hex", func(kind string, rng string, vs []string) bool {
		m := regexp.MustCompile(`^~>\s*(\d+)\.(\d+)$`).FindStringSubmatch(strings.TrimSpace(rng))
		return kind == "shorthand-interval" && m != nil && strings.TrimLeft(m[2], "0") != ""
	}},
	// conan ^0.0.Z keeps only the first two parts fixed
	{"F-conan-caret-00z", "C05", "conan", func(kind string, rng string, vs []string) bool {
		m := regexp.MustCompile(`^\^\s*0+\.0+\.(\d+)$`).FindStringSubmatch(strings.TrimSpace(rng))
		return kind == "shorthand-interval" && m != nil
	}},
	// conan ~ and ^ compare the leading parts for equality: a probe part such as "3w" never matches
	{"F-conan-shorthand-alnum-part", "C05", "conan", func(kind string, rng string, vs []string) bool {
		if kind != "shorthand-interval" || len(vs) < 2 || !strings.ContainsAny(strings.TrimSpace(rng)[:1], "~^") {
			return false
		}
		probe := vs[1]
		if i := strings.IndexAny(probe, "-+"); i >= 0 {
			probe = probe[:i]
		}
		for _, part := range strings.Split(probe, ".") {
			for _, c := range part {
				if c < '0' || c > '9' {
					return true
				}
			}
		}
		return false
	}},
	// pypi: local version labels are ignored by Compare
	{"F-pypi-local-label", "C09", "pypi", func(kind string, rng string, vs []string) bool {
		if kind != "reference-order" {
			return false
		}
		for _, v := range vs {
			if strings.Contains(v, "+") {
				return true
			}
		}
		return false
	}},
	// rpm: a different algorithm outside the simple sub-grammar
	{"F-rpm-not-rpmvercmp", "C11", "rpm", func(kind string, rng string, vs []string) bool {
		if kind != "reference-order" {
			return false
		}
		for _, v := range vs {
			if !rpmSimple(v) {
				return true
			}
		}
		return false
	}},
	// gem: a digit segment whose value does not fit int is kept as a string segment
	{"F-gem-long-number", "C13", "gem", func(kind string, rng string, vs []string) bool {
		if kind != "reference-order" {
			return false
		}
		for _, v := range vs {
			if overflowsInt(v) {
				return true
			}
		}
		return false
	}},
	// maven: flat element list instead of ComparableVersion's nested lists
	{"F-maven-not-comparableversion", "C12", "maven", func(kind string, rng string, vs []string) bool {
		if kind != "reference-order" {
			return false
		}
		for _, v := range vs {
			if !mavenCore(v) {
				return true
			}
		}
		return false
	}},
	// composer ^X.Y.Z with a stable base rejects non-stable versions inside its interval
	{"F-composer-caret-stability", "C20", "composer", func(kind, rng string, vs []string) bool {
		if kind != "not-convex" || !strings.Contains(rng, "^") || len(vs) == 0 {
			return false
		}
		st, ok := composerStability(vs[0])
		return ok && st != 4
	}},
	// composer: the literal pair ("1.0.0", "1.0b1") is special-cased by text in matchesCaret
	{"F-composer-caret-text-case", "C20", "composer", func(kind, rng string, vs []string) bool {
		if kind != "equal-versions-differ" || !strings.Contains(rng, "^") {
			return false
		}
		for _, v := range vs {
			if strings.TrimSpace(v) == "1.0b1" {
				return true
			}
		}
		return false
	}},
}

type Finding struct {
	ID       string   `json:"id"`
	Property []string `json:"property"`
	Status   string   `json:"status"`
	Eco      string   `json:"ecosystem"`
	Witness  struct {
		Op   string   `json:"op"`
		Args []string `json:"args"`
	} `json:"witness"`
	Fails string `json:"fails"`
}

type FindingStatus struct {
	ID         string `json:"id"`
	Status     string `json:"status"`
	StillFails bool   `json:"still_fails"`
	Note       string `json:"note,omitempty"`
}

func loadFindings() []Finding {
	b, err := os.ReadFile(verifRoot() + "/known_findings.json")
	if err != nil {
		return nil
	}
	var d struct {
		Findings []Finding `json:"findings"`
	}
	if json.Unmarshal(b, &d) != nil {
		return nil
	}
	return d.Findings
}

// replayWitness runs a finding's witness on the implementation: true = the defect is still there.
func replayWitness(f Finding) (bool, string) {
	a := f.Witness.Args
	e := ecoByName(f.Eco)
	pv := func(s string) (any, bool) {
		if e == nil {
			return nil, false
		}
		p := e.Parse(s)
		return p.Val, p.OK
	}
	switch f.Witness.Op {
	case "compare3":
		if len(a) != 3 {
			return false, "bad witness"
		}
		x, ok1 := pv(a[0])
		y, ok2 := pv(a[1])
		z, ok3 := pv(a[2])
		if !ok1 || !ok2 || !ok3 {
			return false, "witness no longer parses"
		}
		return !consistentSet(e, []any{x, y, z}), ""
	case "compare":
		if len(a) != 3 {
			return false, "bad witness"
		}
		x, ok1 := pv(a[0])
		y, ok2 := pv(a[1])
		if !ok1 || !ok2 {
			return false, "witness no longer parses"
		}
		return fmt.Sprint(cmpS(e, x, y)) != a[2], ""
	case "contains":
		if len(a) != 3 {
			return false, "bad witness"
		}
		r := e.ParseRange(a[0])
		v, ok := pv(a[1])
		if !r.OK || !ok {
			return a[2] != "error", "range or version rejected"
		}
		c, _ := e.Contains(r.Val, v)
		return fmt.Sprint(c) != a[2], ""
	case "contains-differ":
		if len(a) != 3 {
			return false, "bad witness"
		}
		r := e.ParseRange(a[0])
		x, ok1 := pv(a[1])
		y, ok2 := pv(a[2])
		if !r.OK || !ok1 || !ok2 {
			return false, "witness no longer parses"
		}
		cx, _ := e.Contains(r.Val, x)
		cy, _ := e.Contains(r.Val, y)
		return cmpS(e, x, y) == 0 && cx != cy, ""
	case "not-convex":
		if len(a) != 4 {
			return false, "bad witness"
		}
		r := e.ParseRange(a[0])
		x, ok1 := pv(a[1])
		y, ok2 := pv(a[2])
		z, ok3 := pv(a[3])
		if !r.OK || !ok1 || !ok2 || !ok3 {
			return false, "witness no longer parses"
		}
		cx, _ := e.Contains(r.Val, x)
		cy, _ := e.Contains(r.Val, y)
		cz, _ := e.Contains(r.Val, z)
		return cmpS(e, x, y) <= 0 && cmpS(e, y, z) <= 0 && cx && cz && !cy, ""
	case "vers":
		if len(a) != 3 {
			return false, "bad witness"
		}
		return vresString(versContains(a[0], a[1])) != a[2], ""
	}
	return false, "unknown witness op " + f.Witness.Op
}

// findingStatuses: replay of every finding listed for the property.
func findingStatuses(prop string) []FindingStatus {
	var out []FindingStatus
	for _, f := range loadFindings() {
		has := false
		for _, p := range f.Property {
			if p == prop {
				has = true
			}
		}
		if !has {
			continue
		}
		still, note := replayWitness(f)
		out = append(out, FindingStatus{ID: f.ID, Status: f.Status, StillFails: still, Note: note})
	}
	return out
}

// overflowsInt: the text has a run of digits whose value is 2^63 or more
func overflowsInt(s string) bool {
	for _, run := range digitRuns(s) {
		d := strings.TrimLeft(s[run[0]:run[1]], "0")
		if len(d) > 19 || (len(d) == 19 && d >= "9223372036854775808") {
			return true
		}
	}
	return false
}
