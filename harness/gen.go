package main

import (
	"sort"
	"strings"
)

// ---------- PRNG: every random choice of a run derives from VERIF_SEED ----------

type RNG struct {
	s     uint64
	vocab []string // pool-local vocabulary of numbers: most draws come from it, so that pools contain close neighbours
}

func NewRNG(seed uint64, stream string) *RNG {
	r := &RNG{s: seed*0x9E3779B97F4A7C15 + 0x1234567}
	for _, c := range []byte(stream) {
		r.s = (r.s ^ uint64(c)) * 0x100000001B3
	}
	r.Next()
	return r
}

func (r *RNG) Next() uint64 {
	r.s += 0x9E3779B97F4A7C15
	z := r.s
	z = (z ^ (z >> 30)) * 0xBF58476D1CE4E5B9
	z = (z ^ (z >> 27)) * 0x94D049BB133111EB
	return z ^ (z >> 31)
}
func (r *RNG) Intn(n int) int {
	if n <= 0 {
		return 0
	}
	return int(r.Next() % uint64(n))
}
func (r *RNG) Chance(pct int) bool    { return r.Intn(100) < pct }
func (r *RNG) Pick(xs []string) string { return xs[r.Intn(len(xs))] }
func (r *RNG) Range(lo, hi int) int    { return lo + r.Intn(hi-lo+1) }

// ---------- numbers ----------

var numsSmall = []string{"0", "1", "2", "3", "9", "10", "11"}
var numsMid = []string{"12", "20", "99", "100", "999", "1000", "65535", "2147483647", "2147483648"}
var numsBig = []string{"9223372036854775806", "9223372036854775807", "9223372036854775808", "18446744073709551615",
	"18446744073709551616", "99999999999999999999", "100000000000000000000", "123456789012345678"}
var numsZero = []string{"00", "01", "007", "010", "0000000000000000000001", "000"}

// Num: profile 0 = small only, 1 = small+mid, 2 = also big, 3 = also leading zeros
func (r *RNG) Num(profile int) string {
	if len(r.vocab) > 0 && r.Intn(100) < 70 {
		return r.vocab[r.Intn(len(r.vocab))]
	}
	k := r.Intn(100)
	switch {
	case k < 62 || profile == 0:
		return r.Pick(numsSmall)
	case k < 85 || profile == 1:
		return r.Pick(numsMid)
	case k < 93 || profile == 2:
		return r.Pick(numsBig)
	default:
		return r.Pick(numsZero)
	}
}

func (r *RNG) Dotted(n int, profile int, sep string) string {
	parts := make([]string, n)
	for i := range parts {
		parts[i] = r.Num(profile)
	}
	return strings.Join(parts, sep)
}

func (r *RNG) Case(s string) string {
	switch r.Intn(6) {
	case 0:
		return strings.ToUpper(s)
	case 1:
		if len(s) > 0 {
			return strings.ToUpper(s[:1]) + s[1:]
		}
	}
	return s
}

// ---------- per-ecosystem version generators (mostly valid) ----------

var semverIds = []string{"alpha", "beta", "rc", "rc1", "RC", "a", "b", "0", "1", "2", "10", "11", "x", "pre", "dev", "SNAPSHOT", "-5", "a-b", "-", "0a", "1a", "123456789012345678", "next", "Alpha"}

func genSemverPre(r *RNG) string {
	n := 1
	if r.Chance(55) {
		n = r.Range(2, 3)
	}
	if r.Chance(5) {
		n = r.Range(4, 6)
	}
	ids := make([]string, n)
	for i := range ids {
		ids[i] = r.Pick(semverIds)
	}
	return strings.Join(ids, ".")
}

func genSemverLike(r *RNG, prefix []string, profile int) string {
	s := r.Pick(prefix) + r.Dotted(3, profile, ".")
	if r.Chance(55) {
		s += "-" + genSemverPre(r)
	}
	if r.Chance(15) {
		s += "+" + r.Pick([]string{"build", "1", "exp.sha.5114f85", "001", "b-1"})
	}
	return s
}

var hexdigs12 = []string{"abcdef123456", "0123456789ab", "ffffffffffff", "000000000000"}
var stamps = []string{"20190101000000", "20210304050607", "20191231235959", "20200229120000", "20210304050608"}

func genGolang(r *RNG) string {
	k := r.Intn(100)
	switch {
	case k < 55:
		return genSemverLike(r, []string{"v", "v", "v", ""}, 1)
	case k < 70: // form 1: vX.0.0-ts-hash
		return "v" + r.Num(0) + ".0.0-" + r.Pick(stamps) + "-" + r.Pick(hexdigs12)
	case k < 85: // form 2: vX.Y.Z-pre.0.ts-hash
		return "v" + r.Dotted(3, 0, ".") + "-" + r.Pick([]string{"rc1", "alpha", "pre", "beta2", "0"}) + ".0." + r.Pick(stamps) + "-" + r.Pick(hexdigs12)
	default: // form 3: vX.Y.Z-0.ts-hash
		return "v" + r.Dotted(3, 0, ".") + "-0." + r.Pick(stamps) + "-" + r.Pick(hexdigs12)
	}
}

var alpineSuffixes = []string{"alpha", "beta", "pre", "rc", "cvs", "svn", "git", "hg", "p", "foo", "zz"}

func genAlpine(r *RNG) string {
	if r.Chance(6) { // "invalid but accepted" fallback strings
		return r.Pick([]string{"1.0bc", "1.5bc", "1.x", "2.0_", "1..2", "1.0-r", "1.0_alpha_", "abc1", "1.0~zz", "1.0-rc1", "v1.0"})
	}
	s := r.Dotted(r.Range(1, 4), 3, ".")
	if r.Chance(25) {
		s += r.Pick([]string{"a", "b", "z", "c"})
	}
	ns := 0
	if r.Chance(50) {
		ns = 1
		if r.Chance(30) {
			ns = r.Range(2, 3)
		}
	}
	for i := 0; i < ns; i++ {
		s += "_" + r.Pick(alpineSuffixes)
		if r.Chance(65) {
			s += r.Num(1)
		}
	}
	if r.Chance(8) {
		s += "~" + r.Pick([]string{"abc123", "0", "ff", "deadbeef"})
	}
	if r.Chance(35) {
		s += "-r" + r.Num(1)
	}
	return s
}

func genAlpm(r *RNG) string {
	s := ""
	if r.Chance(20) {
		s = r.Pick([]string{"0", "1", "2", ""}) + ":"
	}
	n := r.Range(1, 4)
	for i := 0; i < n; i++ {
		if i > 0 {
			s += r.Pick([]string{".", ".", ".", "_", "+", ""})
		}
		switch r.Intn(10) {
		case 0:
			s += r.Pick([]string{"a", "b", "beta", "rc", "alpha", "p", "pre", "git"})
		case 1:
			s += r.Num(2) + r.Pick([]string{"a", "b", "beta", "rc", "alpha", "p", "pre"})
		case 2:
			s += r.Pick([]string{"rc", "beta", "r"}) + r.Num(0)
		default:
			s += r.Num(3)
		}
	}
	if r.Chance(50) {
		s += "-" + r.Num(1)
	}
	return s
}

func genApache(r *RNG) string {
	s := r.Dotted(3, 2, ".")
	if r.Chance(60) {
		s += "-" + r.Pick([]string{"alpha", "beta", "M", "milestone", "RC", "rc", "SNAPSHOT", "snapshot", "dev", "foo", "ALPHA", "Beta", "final", "m"})
		if r.Chance(60) {
			s += r.Num(1)
		}
	}
	return s
}

func genComposer(r *RNG) string {
	k := r.Intn(100)
	if k < 6 {
		return "dev-" + r.Pick([]string{"master", "main", "feature/x", "1.x", "a"})
	}
	if k < 10 {
		return r.Pick([]string{"1.x-dev", "master", "2.0.x-dev", "feature-foo", "dev"})
	}
	s := r.Pick([]string{"", "", "", "v"}) + r.Dotted(r.Range(1, 4), 1, ".")
	if r.Chance(4) {
		s += "." + r.Num(0) // fifth component
	}
	switch r.Intn(10) {
	case 0, 1, 2:
		s += "-" + r.Pick([]string{"alpha", "beta", "RC", "a", "b", "rc", "dev", "patch"})
		if r.Chance(70) {
			s += r.Pick([]string{"", "."}) + r.Num(1)
		}
	case 3, 4:
		s += r.Pick([]string{"alpha", "beta", "RC", "a", "b", "rc", "dev", "pl"})
		if r.Chance(80) {
			s += r.Num(1)
		}
	}
	if r.Chance(8) {
		s += "+" + r.Pick([]string{"build", "1", "a.b"})
	}
	return s
}

func genConan(r *RNG) string {
	n := r.Range(1, 4)
	parts := make([]string, n)
	for i := range parts {
		switch r.Intn(12) {
		case 0:
			parts[i] = r.Pick([]string{"a", "b", "x", "rc", "beta"})
		case 1:
			parts[i] = r.Num(0) + r.Pick([]string{"a", "b", "rc1", "x"})
		case 2:
			parts[i] = r.Pick([]string{"01", "007", "0010", "1A", "B"})
		default:
			parts[i] = r.Num(2)
		}
	}
	s := strings.Join(parts, ".")
	if r.Chance(40) {
		s += "-" + r.Pick([]string{"alpha", "beta", "rc", "rc.1", "rc.2", "rc.10", "1", "2", "10", "a.b", "alpha.1", "x-y", "pre", "RC.1", "dev"})
	}
	if r.Chance(10) {
		s += "+" + r.Pick([]string{"build", "1", "b.2"})
	}
	return s
}

func genCran(r *RNG) string {
	n := r.Range(2, 5)
	s := r.Num(3)
	for i := 1; i < n; i++ {
		s += r.Pick([]string{".", ".", ".", "-"}) + r.Num(3)
	}
	return s
}

var debUpChunks = []string{".", ".", ".", "+", "~", "-", "a", "b", "rc", "beta", "alpha", "dfsg", "ubuntu", "~rc", "+b", "~~", "A", "Z", "+dfsg", "~beta"}

func genDebLike(r *RNG, extra []string, revOK bool) string {
	s := ""
	if r.Chance(20) {
		s = r.Pick([]string{"0", "1", "2", "10"}) + ":"
	}
	s += r.Num(3)
	n := r.Range(0, 5)
	for i := 0; i < n; i++ {
		if r.Chance(12) && len(extra) > 0 {
			s += r.Pick(extra)
		} else {
			s += r.Pick(debUpChunks)
		}
		if r.Chance(75) {
			s += r.Num(3)
		}
	}
	if revOK && r.Chance(45) {
		s += "-" + r.Pick([]string{"0", "1", "2", "10", "1ubuntu1", "1~bpo1", "0+b1", "1.1", "a", "01", "1+deb10u1"})
	}
	return s
}

func genDebian(r *RNG) string { return genDebLike(r, nil, true) }
func genRpm(r *RNG) string {
	return genDebLike(r, []string{"^", "_", "^git", "..", "^~", "_1", "^20200101"}, true)
}

func genGem(r *RNG) string {
	s := r.Pick([]string{"", "", "", "", "v"}) + r.Dotted(r.Range(1, 4), 3, ".")
	k := r.Intn(100)
	switch {
	case k < 25:
		n := r.Range(1, 2)
		for i := 0; i < n; i++ {
			s += "." + r.Case(r.Pick([]string{"rc", "beta", "alpha", "pre", "a", "b", "x"}))
			if r.Chance(60) {
				s += r.Num(1)
			}
		}
	case k < 45:
		s += "-" + r.Pick([]string{"rc", "beta", "alpha", "pre", "rc1", "beta.2", "beta.10", "alpha.1", "1", "2", "rc.1", "a.b.c", "x-y"})
	}
	if r.Chance(6) {
		s += "+" + r.Pick([]string{"build", "1"})
	}
	return s
}

func genGentoo(r *RNG) string {
	s := r.Dotted(r.Range(1, 4), 3, ".")
	if r.Chance(20) {
		s += r.Pick([]string{"a", "b", "z", "A"})
	}
	if r.Chance(50) {
		s += "_" + r.Pick([]string{"alpha", "beta", "pre", "rc", "p"})
		if r.Chance(70) {
			s += r.Num(1)
		}
	}
	if r.Chance(35) {
		s += "-r" + r.Num(1)
	}
	return s
}

func genGithub(r *RNG) string {
	if r.Chance(20) {
		return r.Pick([]string{"", "v"}) + r.Pick([]string{"2023", "2024", "2024", "1999", "1000"}) + "." + r.Pick([]string{"1", "01", "2", "12", "13", "0", "6"}) + "." + r.Pick([]string{"1", "01", "15", "31", "32", "0"})
	}
	s := r.Pick([]string{"", "", "v", "release-", "rel-"}) + r.Dotted(3, 1, ".")
	if r.Chance(55) {
		s += r.Pick([]string{"-", "-", "."}) + r.Case(r.Pick([]string{"alpha", "beta", "rc", "dev", "snapshot", "foo", "pre", "a"}))
		if r.Chance(60) {
			s += r.Pick([]string{"", "", "."}) + r.Num(1)
		}
	}
	return s
}

func genHex(r *RNG) string {
	if r.Chance(12) {
		return r.Dotted(2, 1, ".")
	}
	return genSemverLike(r, []string{""}, 2)
}

func genMattermost(r *RNG) string {
	s := r.Pick([]string{"", "", "v"}) + r.Dotted(3, 2, ".")
	if r.Chance(50) {
		s += "-" + r.Pick([]string{"rc", "esr", "rc", "RC"})
		if r.Chance(60) {
			s += r.Num(1)
		}
	}
	return s
}

var mavenQuals = []string{"alpha", "beta", "milestone", "rc", "cr", "snapshot", "ga", "final", "release", "sp", "a", "b", "m", "foo", "bar", "xyz", "jre", "dev"}

func genMaven(r *RNG) string {
	s := r.Dotted(r.Range(1, 4), 1, ".")
	k := r.Intn(100)
	switch {
	case k < 45:
		q := r.Case(r.Pick(mavenQuals))
		s += r.Pick([]string{"-", "-", "."}) + q
		if r.Chance(60) {
			s += r.Pick([]string{"", "-", "."}) + r.Num(1)
		}
	case k < 60:
		s += "-" + r.Num(1)
	case k < 66: // exotic chains
		s += "-" + r.Pick(mavenQuals) + "-" + r.Pick(mavenQuals) + r.Num(0)
	}
	return s
}

func genNpm(r *RNG) string {
	return genSemverLike(r, []string{"", "", "", "v", "=", "=v"}, 2)
}
func genCargo(r *RNG) string  { return genSemverLike(r, []string{""}, 3) }
func genSemver(r *RNG) string { return genSemverLike(r, []string{""}, 2) }

func genNuget(r *RNG) string {
	s := r.Pick([]string{"", "", "", "v"}) + r.Dotted(r.Range(1, 4), 2, ".")
	if r.Chance(45) {
		s += "-" + genSemverPre(r)
	}
	if r.Chance(10) {
		s += "+" + r.Pick([]string{"build", "1"})
	}
	return s
}

func genPypi(r *RNG) string {
	s := ""
	if r.Chance(12) {
		s = r.Pick([]string{"0", "1", "2"}) + "!"
	}
	s += r.Dotted(r.Range(1, 4), 3, ".")
	if r.Chance(40) {
		s += r.Pick([]string{"", "", "."}) + r.Pick([]string{"a", "b", "rc", "alpha", "beta", "c"}) + r.Num(1)
	}
	if r.Chance(25) {
		s += r.Pick([]string{".", ".", ""}) + r.Pick([]string{"post", "rev", "r"}) + r.Num(1)
	}
	if r.Chance(25) {
		s += r.Pick([]string{".", ".", ""}) + "dev" + r.Num(1)
	}
	if r.Chance(12) {
		s += "+" + r.Pick([]string{"abc", "1", "ubuntu.1", "local-2", "abc_def", "5", "10", "a.1"})
	}
	return s
}

var versionGens = map[string]func(*RNG) string{
	"alpine": genAlpine, "alpm": genAlpm, "apache": genApache, "cargo": genCargo, "composer": genComposer,
	"conan": genConan, "cran": genCran, "debian": genDebian, "gem": genGem, "gentoo": genGentoo,
	"github": genGithub, "golang": genGolang, "hex": genHex, "mattermost": genMattermost, "maven": genMaven,
	"npm": genNpm, "nuget": genNuget, "pypi": genPypi, "rpm": genRpm, "semver": genSemver,
}

// ---------- mutation (the malformed stream) ----------

var mutBytes = []byte("019.-+_~^:!arxvXA*, |[()]=<>@/\t\n\x00\xff\xc3\xa9")

func mutate(r *RNG, s string) string {
	b := []byte(s)
	switch r.Intn(9) {
	case 0: // delete
		if len(b) > 0 {
			i := r.Intn(len(b))
			b = append(b[:i:i], b[i+1:]...)
		}
	case 1: // replace
		if len(b) > 0 {
			b[r.Intn(len(b))] = mutBytes[r.Intn(len(mutBytes))]
		}
	case 2: // insert
		i := r.Intn(len(b) + 1)
		b = append(b[:i:i], append([]byte{mutBytes[r.Intn(len(mutBytes))]}, b[i:]...)...)
	case 3: // duplicate a slice
		if len(b) > 0 {
			i := r.Intn(len(b))
			j := i + r.Intn(len(b)-i) + 1
			b = append(b[:j:j], append(append([]byte{}, b[i:j]...), b[j:]...)...)
		}
	case 4: // case flip
		if len(b) > 0 {
			i := r.Intn(len(b))
			c := b[i]
			if c >= 'a' && c <= 'z' {
				b[i] = c - 32
			} else if c >= 'A' && c <= 'Z' {
				b[i] = c + 32
			}
		}
	case 5: // pad
		b = []byte(r.Pick([]string{" ", "\t", "\n", "\r\n", "  "}) + string(b) + r.Pick([]string{"", " ", "\n"}))
	case 6: // truncate
		if len(b) > 0 {
			b = b[:r.Intn(len(b))]
		}
	case 7: // swap adjacent
		if len(b) > 1 {
			i := r.Intn(len(b) - 1)
			b[i], b[i+1] = b[i+1], b[i]
		}
	case 8: // glue two
		b = append(b, b...)
	}
	return string(b)
}

func isASCII(s string) bool {
	for i := 0; i < len(s); i++ {
		if s[i] >= 0x80 {
			return false
		}
	}
	return true
}

// ---------- pools ----------

// Pool is a set of distinct version strings accepted by the implementation.
type Pool struct {
	Eco  *Eco
	Strs []string
	Vals []any
}

// BuildPool draws candidates from the generator until n distinct accepted strings are found
// (or tries are exhausted).  Candidates seen (accepted or not) are returned for reuse.
func BuildPool(e *Eco, r *RNG, n int, extra []string) (*Pool, []string) {
	gen := versionGens[e.Name]
	r.vocab = nil
	voc := []string{"0", "1", r.Pick(numsSmall), r.Pick(numsSmall), r.Pick(numsMid), r.Pick(numsZero)}
	if r.Chance(60) {
		voc = append(voc, r.Pick(numsBig))
	}
	r.vocab = voc
	defer func() { r.vocab = nil }()
	seen := map[string]bool{}
	var all []string
	p := &Pool{Eco: e}
	add := func(s string) {
		if seen[s] {
			return
		}
		seen[s] = true
		all = append(all, s)
		if len(p.Strs) >= n {
			return
		}
		if pr := e.Parse(s); pr.OK {
			p.Strs = append(p.Strs, s)
			p.Vals = append(p.Vals, pr.Val)
		}
	}
	clust0, nClust := r.Intn(nClusters), 0
	nSib, nDec, nPseudo, nFam, nRune := 0, 0, 0, 0, 0
	capClust, capSib, capDec, capFam, capRune := minInt(nClusters, 1+n/6), minInt(10, 1+n/20), minInt(10, 1+n/12), minInt(16, 1+n/10), minInt(4, 1+n/60)
	// the maintainers' own test inputs: available to the crossover, a few join the pool
	hv, _ := harvestedFor(e)
	for k, i := range r.Perm(len(hv)) {
		if k < n/10 {
			add(hv[i])
		} else if !seen[hv[i]] {
			seen[hv[i]] = true
			all = append(all, hv[i])
		}
	}
	// the tree under check newly imports a hash package: pairs of accepted texts whose 32-bit
	// checksums collide join the pool (codelits.go)
	if newHashImport(e.Name) {
		for k, pr := range hashCollisionPairs(e, 7) {
			if k < n/8 {
				add(pr[0])
				add(pr[1])
			}
		}
	}
	// constants that the tree under check has and the pinned tree has not (codelits.go): their
	// families come first and may take up to a third of the pool
	if len(newIntsFor(e.Name))+len(newStrsFor(e.Name)) > 0 {
		var bases []string
		for _, i := range r.Perm(len(hv)) {
			if len(bases) < 2 && len(digitRuns(hv[i])) >= 2 {
				bases = append(bases, hv[i])
			}
		}
		for k := 0; k < 40 && len(bases) < 4; k++ {
			if s := gen(r); e.Parse(s).OK && len(digitRuns(s)) >= 1 {
				bases = append(bases, s)
			}
		}
		room := n / 3
		for _, bs := range bases {
			add(bs)
			for _, t := range codeLiteralVariants(r, e.Name, bs, 0) {
				if len(p.Strs) < room {
					add(t)
				} else if !seen[t] {
					seen[t] = true
					all = append(all, t)
				}
			}
		}
	}
	// extras beyond a third of the pool's size come in a seed-dependent order, so that a small
	// pool does not always hold the same head of a long corpus
	if k := n / 3; len(extra) > k {
		tail := append([]string{}, extra[k:]...)
		perm := r.Perm(len(tail))
		ex2 := append([]string{}, extra[:k]...)
		for _, i := range perm {
			ex2 = append(ex2, tail[i])
		}
		extra = ex2
	}
	// one stream: first the extra texts (corpus, families), then the grammar-directed generator;
	// the variant families below are derived from whatever the stream delivers
	for tries := 0; tries < 60*n+len(extra) && len(p.Strs) < n; tries++ {
		var s string
		if tries < len(extra) {
			s = extra[tries]
		} else {
			s = gen(r)
			if r.Chance(8) {
				s = mutate(r, s)
			}
		}
		add(s)
		switch {
		case tries%16 == 5 && len(all) > 4:
			// crossover of two candidates seen so far (corpus, harvested test literals, generated)
			add(splice(r, all[r.Intn(len(all))], all[r.Intn(len(all))]))
		case tries%16 == 9 && nSib < capSib:
			// half of the time on a text with a rare syntactic feature (a punctuation byte few
			// candidates have: alpine ~hash, pypi !epoch, ...)
			src, after := s, byte(0)
			if r.Chance(50) {
				src, after = pickRare(r, all, s)
			}
			for _, t := range prefixSiblingsAfter(r, src, after) {
				add(t)
			}
			nSib++
		case tries%16 == 1 && nFam < capFam && len(all) > 4:
			// token-prefix closure of a long candidate, deep arities, edge letters, punctuation
			// pairs (variants.go): one family per turn
			src := s
			switch nFam % 8 {
			case 4:
				// the candidate (of a few) with the most joiners: identifier lists live there
				for k := 0; k < 8; k++ {
					c := all[r.Intn(len(all))]
					if len(c) < 60 && strings.Count(c, ".")+strings.Count(c, "-")+strings.Count(c, "_") > strings.Count(src, ".")+strings.Count(src, "-")+strings.Count(src, "_") {
						src = c
					}
				}
				fam := joinerSwaps(r, src, all)
				for _, k := range r.Perm(len(fam)) {
					if k < 8 {
						add(fam[k])
					}
				}
			case 5:
				// a long candidate: its last token is a hash, a revision, a tag
				for k := 0; k < 6; k++ {
					if c := all[r.Intn(len(all))]; len(c) > len(src) && len(c) < 80 {
						src = c
					}
				}
				fam := sameLengthTokenVariants(r, src)
				for _, k := range r.Perm(len(fam)) {
					if k < 6 {
						add(fam[k])
					}
				}
			case 6:
				for _, t := range longWordVariants(r, src) {
					add(t)
				}
			case 7:
				if runs := digitRuns(src); len(runs) > 0 {
					for _, t := range overflowSums(src[:runs[0][1]], ".") {
						add(t)
					}
				}
				for _, t := range markerMetadata(r, src) {
					add(t)
				}
			case 0:
				// the longest of a few candidates
				for k := 0; k < 6; k++ {
					if c := all[r.Intn(len(all))]; len(c) > len(src) && len(c) < 80 {
						src = c
					}
				}
				for _, t := range tokenPrefixes(src) {
					add(t)
				}
			case 1:
				if runs := digitRuns(src); len(runs) > 0 {
					base := src[:runs[0][1]]
					sep := "."
					if e.Name == "cran" && r.Chance(50) {
						sep = "-"
					}
					fam := deepArity(r, base, sep)
					for _, k := range r.Perm(len(fam)) {
						if k < 8 {
							add(fam[k])
						}
					}
				}
			case 2:
				for _, t := range edgeLetterVariants(r, src) {
					add(t)
				}
			default:
				fam := punctuationPairs(r, src, all)
				for _, k := range r.Perm(len(fam)) {
					if k < 8 {
						add(fam[k])
					}
				}
			}
			nFam++
		case tries%16 == 13 && nDec < capDec:
			for _, t := range decorations(r, s) {
				add(t)
			}
			nDec++
		case tries%16 == 7 && nRune < capRune && tries > 16:
			// one rune outside ASCII of class digit or letter, with relatives (variants.go); the
			// ecosystems that reject such a rune lose nothing but the parse attempts
			for _, t := range runeClassFamily(r, s) {
				add(t)
			}
			nRune++
		}
		if e.Name == "golang" && nPseudo < 2 {
			if fam := golangPseudoFamily(r, s); fam != nil {
				for _, t := range fam {
					add(t)
				}
				nPseudo++
			}
		}
		// versions that differ only in one number, taken from both sides of one machine-word or
		// decimal-width boundary (boundary.go)
		if tries%4 == 3 && nClust < capClust {
			for _, t := range boundaryVariants(r, s, 3, clust0+nClust) {
				add(t)
			}
			nClust++
		}
	}
	return p, all
}

func sortedKeys(m map[string]int) []string {
	ks := make([]string, 0, len(m))
	for k := range m {
		ks = append(ks, k)
	}
	sort.Strings(ks)
	return ks
}
