module verif/harness

go 1.24.4

require github.com/alowayed/go-univers v0.0.0

replace github.com/alowayed/go-univers => /repo
