package main

import (
	"encoding/json"
	"flag"
	"fmt"
	"os"
	"path/filepath"
	"runtime"
	"sort"
	"time"
)

// Violation is a concrete failing input of a property on the implementation.
type Violation struct {
	Property string `json:"property"`
	Eco      string `json:"eco"`
	Kind     string `json:"kind"`
	Input    any    `json:"input"`
	Expected string `json:"expected"`
	Actual   string `json:"actual"`
	Finding  string `json:"finding,omitempty"` // id of the known finding whose class contains it
	Key      string `json:"key,omitempty"`
}

// Disagreement is one case on which the model and the implementation differ.
type Disagreement struct {
	Stream  string `json:"stream"`
	Eco     string `json:"eco"`
	Request string `json:"request"`
	Input   any    `json:"input"`
	Impl    string `json:"impl"`
	Model   string `json:"model"`
}

type StreamStat struct {
	Cases         int            `json:"cases"`
	Disagreements int            `json:"disagreements"`
	First         []Disagreement `json:"first,omitempty"`
}

type Result struct {
	Property           string                 `json:"property"`
	Tier               string                 `json:"tier"`
	Seed               uint64                 `json:"seed"`
	Evaluations        int                    `json:"evaluations"`
	DistinctNontrivial int                    `json:"distinct_nontrivial"`
	Rule               string                 `json:"rule"`
	Samples            []any                  `json:"samples"`
	Distribution       map[string]any         `json:"distribution"`
	Corr               map[string]*StreamStat `json:"corr"`
	Violations         []Violation            `json:"violations"`
	ModelEcos          []string               `json:"model_ecos"`
	Notes              []string               `json:"notes"`
	WallS              float64                `json:"wall_s"`
	Findings           []FindingStatus        `json:"findings"`
}

func (r *Result) stream(name string) *StreamStat {
	if r.Corr == nil {
		r.Corr = map[string]*StreamStat{}
	}
	s, ok := r.Corr[name]
	if !ok {
		s = &StreamStat{}
		r.Corr[name] = s
	}
	return s
}

func (r *Result) disagree(d Disagreement) {
	s := r.stream(d.Stream)
	s.Disagreements++
	if len(s.First) < 5 {
		s.First = append(s.First, d)
	}
}

func (r *Result) violate(v Violation) {
	v.Property = r.Property
	// keep at most 3 per (eco, kind) so that a broken order does not flood the report
	n := 0
	for _, o := range r.Violations {
		if o.Eco == v.Eco && o.Kind == v.Kind && o.Finding == v.Finding {
			n++
		}
	}
	if n < 3 {
		r.Violations = append(r.Violations, v)
	}
}

// violateKey: like violate, but the cap of three applies per (eco, kind, key)
func (r *Result) violateKey(v Violation, key string) {
	v.Property = r.Property
	n := 0
	for _, o := range r.Violations {
		if o.Eco == v.Eco && o.Kind == v.Kind && o.Key == key && o.Finding == v.Finding {
			n++
		}
	}
	v.Key = key
	if n < 3 {
		r.Violations = append(r.Violations, v)
	}
}

func (r *Result) sample(x any) {
	if len(r.Samples) < 12 {
		r.Samples = append(r.Samples, x)
	}
}

type Ctx struct {
	Res   *Result
	Pool  *ModelPool
	Seed  uint64
	Quick bool
	MEcos map[string]bool
}

var props = map[string]func(*Ctx){}

func main() {
	prop := flag.String("prop", "", "property id")
	tier := flag.String("tier", "quick", "quick|thorough")
	seed := flag.Uint64("seed", 1, "seed")
	out := flag.String("out", "", "result json")
	driver := flag.String("driver", verifRoot()+"/_build/extract/driver", "model driver binary")
	replay := flag.String("replay", "", "replay file")
	flag.StringVar(&ecoFilter, "eco", "", "comma-separated ecosystems (CORR only)")
	dumpLits := flag.String("dump-literals", "", "write the integer and string constants of the non-test sources to this file (bin/snapshot-gen)")
	flag.Parse()
	if *dumpLits != "" {
		if err := dumpLiterals(*dumpLits); err != nil {
			fmt.Fprintln(os.Stderr, err)
			os.Exit(2)
		}
		return
	}
	if *replay != "" {
		os.Exit(doReplay(*replay))
	}
	f, ok := props[*prop]
	if !ok {
		fmt.Fprintf(os.Stderr, "unknown property %q\n", *prop)
		os.Exit(2)
	}
	t0 := time.Now()
	res := &Result{Property: *prop, Tier: *tier, Seed: *seed, Distribution: map[string]any{}, Corr: map[string]*StreamStat{}}
	ctx := &Ctx{Res: res, Seed: *seed, Quick: *tier != "thorough"}
	pool, err := StartPool(*driver, runtime.NumCPU())
	if err != nil {
		res.Notes = append(res.Notes, "model driver unavailable: "+err.Error())
	} else {
		ctx.Pool = pool
		ctx.MEcos = pool.Ecos()
		for k := range ctx.MEcos {
			res.ModelEcos = append(res.ModelEcos, k)
		}
		sort.Strings(res.ModelEcos)
		defer pool.Close()
	}
	startWatchdog(res, *out)
	if n := newLiteralNote(); n != "" {
		res.Notes = append(res.Notes, n)
	}
	f(ctx)
	res.Findings = findingStatuses(*prop)
	res.WallS = time.Since(t0).Seconds()
	b, _ := json.MarshalIndent(res, "", " ")
	if *out != "" {
		os.WriteFile(*out, b, 0o644)
	} else {
		os.Stdout.Write(b)
	}
}

// verifRoot: the harness binary lives in <root>/_build/
func verifRoot() string {
	if r := os.Getenv("VERIF_ROOT"); r != "" {
		return r
	}
	exe, err := os.Executable()
	if err == nil {
		return filepath.Dir(filepath.Dir(exe))
	}
	return "/verif"
}

// doReplay re-runs the check that produced a replay file (same property, tier and seed) and
// reports whether the recorded violation occurs again on the current /repo.
func doReplay(path string) int {
	b, err := os.ReadFile(path)
	if err != nil {
		fmt.Println("cannot read replay file:", err)
		return 2
	}
	var rp struct {
		Property  string     `json:"property"`
		Tier      string     `json:"tier"`
		Seed      uint64     `json:"seed"`
		Kind      string     `json:"kind"`
		Violation *Violation `json:"violation"`
		Finding   *Finding   `json:"finding"`
	}
	if err := json.Unmarshal(b, &rp); err != nil {
		fmt.Println("bad replay file:", err)
		return 2
	}
	if rp.Finding != nil {
		still, note := replayWitness(*rp.Finding)
		fmt.Printf("finding %s witness %v: still fails = %v %s\n", rp.Finding.ID, rp.Finding.Witness.Args, still, note)
		if still {
			return 1
		}
		return 0
	}
	f, ok := props[rp.Property]
	if !ok || rp.Violation == nil {
		fmt.Printf("replay of kind %q: no concrete input recorded (see the file for the theorem / correspondence stream that no longer checks)\n", rp.Kind)
		return 0
	}
	res := &Result{Property: rp.Property, Tier: rp.Tier, Seed: rp.Seed, Distribution: map[string]any{}, Corr: map[string]*StreamStat{}}
	ctx := &Ctx{Res: res, Seed: rp.Seed, Quick: rp.Tier != "thorough"}
	if pool, err := StartPool(verifRoot()+"/_build/extract/driver", runtime.NumCPU()); err == nil {
		ctx.Pool = pool
		ctx.MEcos = pool.Ecos()
		defer pool.Close()
	}
	f(ctx)
	want, _ := json.Marshal(rp.Violation.Input)
	for _, v := range res.Violations {
		got, _ := json.Marshal(v.Input)
		if v.Eco == rp.Violation.Eco && v.Kind == rp.Violation.Kind && string(got) == string(want) {
			fmt.Printf("REPRODUCED: %s %s input=%s expected=%s actual=%s\n", v.Eco, v.Kind, got, v.Expected, v.Actual)
			return 1
		}
	}
	for _, v := range res.Violations {
		if v.Eco == rp.Violation.Eco && v.Kind == rp.Violation.Kind {
			got, _ := json.Marshal(v.Input)
			fmt.Printf("REPRODUCED (same ecosystem and kind, another input): %s\n", got)
			return 1
		}
	}
	fmt.Println("not reproduced on the current tree")
	return 0
}
