package main

import (
	"bufio"
	"encoding/hex"
	"fmt"
	"io"
	"os/exec"
	"strings"
	"sync"
)

// Model is one running instance of the extracted Coq model (ocaml/driver).
type Model struct {
	cmd *exec.Cmd
	in  io.WriteCloser
	out *bufio.Reader
	mu  sync.Mutex
	// Callback answers "? ..." lines (questions about a lower layer).
	Callback func(q string) string
	Asked    int
}

func hx(s string) string {
	if s == "" {
		return "-"
	}
	return hex.EncodeToString([]byte(s))
}

func unhx(h string) string {
	if h == "-" {
		return ""
	}
	b, err := hex.DecodeString(h)
	if err != nil {
		return "\x00BADHEX"
	}
	return string(b)
}

func StartModel(path string) (*Model, error) {
	cmd := exec.Command(path)
	in, err := cmd.StdinPipe()
	if err != nil {
		return nil, err
	}
	out, err := cmd.StdoutPipe()
	if err != nil {
		return nil, err
	}
	if err := cmd.Start(); err != nil {
		return nil, err
	}
	m := &Model{cmd: cmd, in: in, out: bufio.NewReaderSize(out, 1<<16)}
	m.Callback = implOracle
	if r, err := m.Ask("PING"); err != nil || r != "pong" {
		return nil, fmt.Errorf("model did not answer PING: %q %v", r, err)
	}
	return m, nil
}

func (m *Model) Close() {
	m.in.Close()
	m.cmd.Wait()
}

// Ask sends one request and returns the final answer (without the "= " prefix).
func (m *Model) Ask(req string) (string, error) {
	m.mu.Lock()
	defer m.mu.Unlock()
	if _, err := io.WriteString(m.in, req+"\n"); err != nil {
		return "", err
	}
	for {
		line, err := m.out.ReadString('\n')
		if err != nil {
			return "", fmt.Errorf("model died on request %q: %v", req, err)
		}
		line = strings.TrimRight(line, "\n")
		if strings.HasPrefix(line, "? ") {
			m.Asked++
			ans := m.Callback(line[2:])
			if _, err := io.WriteString(m.in, ans+"\n"); err != nil {
				return "", err
			}
			continue
		}
		if strings.HasPrefix(line, "= ") {
			return line[2:], nil
		}
		return "", fmt.Errorf("model protocol error on %q: %q", req, line)
	}
}

// implOracle answers the model's questions about lower layers with the implementation.
//   P <eco> <hex>          -> 1|0          NewVersion accepts
//   C <eco> <hex> <hex>    -> -1|0|1       Compare (0 if a side does not parse)
//   RP <eco> <hex>         -> 1|0          NewVersionRange accepts
//   RC <eco> <hexr> <hexv> -> t|f|x        range contains version (x: a side does not parse)
func implOracle(q string) string {
	f := strings.Split(q, " ")
	switch f[0] {
	case "P":
		e := ecoByName(f[1])
		if e == nil {
			return "0"
		}
		if e.Parse(unhx(f[2])).OK {
			return "1"
		}
		return "0"
	case "C":
		e := ecoByName(f[1])
		if e == nil {
			return "0"
		}
		a := e.Parse(unhx(f[2]))
		b := e.Parse(unhx(f[3]))
		if !a.OK || !b.OK {
			return "0"
		}
		c, p := e.Compare(a.Val, b.Val)
		if p != "" {
			return "0"
		}
		return fmt.Sprint(sign(c))
	case "S":
		e := ecoByName(f[1])
		if e == nil {
			return "-"
		}
		a := e.Parse(unhx(f[2]))
		if !a.OK {
			return "-"
		}
		str, _ := e.Str(a.Val)
		return hx(str)
	case "N":
		e := ecoByName(f[1])
		if e == nil {
			return f[1]
		}
		return e.LibName
	case "XC":
		ok, isErr, pan := versContains(unhx(f[1]), unhx(f[2]))
		if pan != "" || isErr {
			return "e"
		}
		if ok {
			return "t"
		}
		return "f"
	case "RP":
		e := ecoByName(f[1])
		if e == nil {
			return "0"
		}
		if e.ParseRange(unhx(f[2])).OK {
			return "1"
		}
		return "0"
	case "RC":
		e := ecoByName(f[1])
		if e == nil {
			return "x"
		}
		r := e.ParseRange(unhx(f[2]))
		v := e.Parse(unhx(f[3]))
		if !r.OK || !v.OK {
			return "x"
		}
		c, p := e.Contains(r.Val, v.Val)
		if p != "" {
			return "x"
		}
		if c {
			return "t"
		}
		return "f"
	}
	return "0"
}

func sign(c int) int {
	if c < 0 {
		return -1
	}
	if c > 0 {
		return 1
	}
	return 0
}

// ModelPool runs requests on several model processes in parallel.
type ModelPool struct {
	ms []*Model
}

func StartPool(path string, n int) (*ModelPool, error) {
	p := &ModelPool{}
	for i := 0; i < n; i++ {
		m, err := StartModel(path)
		if err != nil {
			p.Close()
			return nil, err
		}
		p.ms = append(p.ms, m)
	}
	return p, nil
}

func (p *ModelPool) Close() {
	for _, m := range p.ms {
		m.Close()
	}
}

// Map answers all requests, preserving order.
func (p *ModelPool) Map(reqs []string) ([]string, error) {
	out := make([]string, len(reqs))
	var wg sync.WaitGroup
	var firstErr error
	var emu sync.Mutex
	n := len(p.ms)
	for w := 0; w < n; w++ {
		wg.Add(1)
		go func(w int) {
			defer wg.Done()
			m := p.ms[w]
			for i := w; i < len(reqs); i += n {
				r, err := m.Ask(reqs[i])
				if err != nil {
					emu.Lock()
					if firstErr == nil {
						firstErr = err
					}
					emu.Unlock()
					return
				}
				out[i] = r
			}
		}(w)
	}
	wg.Wait()
	return out, firstErr
}

func (p *ModelPool) Ecos() map[string]bool {
	r, _ := p.ms[0].Ask("ECOS")
	out := map[string]bool{}
	for _, n := range strings.Split(r, ",") {
		out[n] = true
	}
	return out
}
