package main

import (
	"strings"
)

// RangeSyn describes the surface syntax of one ecosystem's native ranges, for generation.
type RangeSyn struct {
	Ops     []string // comparator spellings the ecosystem supports ("" = bare version)
	OpSpace bool     // "op version" with a space between is meaningful
	And     []string // AND separators
	Or      []string // OR separators (empty: none)
	Short   []func(r *RNG, base string) string
	Bracket bool // maven / nuget interval notation
}

func pre(p string) func(*RNG, string) string {
	return func(r *RNG, b string) string { return p + b }
}

// partial versions for shorthand bases
func partial(r *RNG, b string) string {
	core := b
	if i := strings.IndexAny(core, "-+"); i >= 0 && r.Chance(60) {
		core = core[:i]
	}
	parts := strings.Split(core, ".")
	if len(parts) > 1 && r.Chance(50) {
		parts = parts[:r.Range(1, len(parts)-1)]
	}
	return strings.Join(parts, ".")
}

func wild(r *RNG, b string) string {
	p := strings.Split(partial(r, b), ".")
	w := r.Pick([]string{"*", "x", "X", "*"})
	switch r.Intn(4) {
	case 0:
		return w
	case 1:
		return p[0] + "." + w
	case 2:
		if len(p) > 1 {
			return p[0] + "." + p[1] + "." + w
		}
		return p[0] + "." + w + "." + w
	default:
		return strings.Join(p, ".") + "." + w
	}
}

var rangeSyn = map[string]*RangeSyn{
	"alpine":     {Ops: []string{">=", "<=", "!=", ">", "<", "=", ""}, And: []string{" ", "  "}},
	"alpm":       {Ops: []string{">=", "<=", ">", "<", "=", ""}, And: []string{" ", " and ", " AND "}},
	"apache":     {Ops: []string{">=", "<=", ">", "<", "=", ""}, And: []string{" "}},
	"github":     {Ops: []string{">=", "<=", ">", "<", "=", ""}, And: []string{" "}},
	"mattermost": {Ops: []string{">=", "<=", ">", "<", "=", ""}, And: []string{" "}},
	"cargo": {Ops: []string{">=", "<=", "!=", ">", "<", "=", ""}, OpSpace: true, And: []string{",", ", "},
		Short: []func(*RNG, string) string{
			func(r *RNG, b string) string { return "^" + b },
			func(r *RNG, b string) string { return "~" + b },
			func(r *RNG, b string) string { return "^" + partial(r, b) },
			func(r *RNG, b string) string { return "~" + partial(r, b) },
			func(r *RNG, b string) string { return partial(r, b) },
			wild,
		}},
	"composer": {Ops: []string{">=", "<=", "!=", "<>", ">", "<", "=", "==", ""}, OpSpace: true, And: []string{" ", ",", ", "}, Or: []string{"||", " || ", "|", " | "},
		Short: []func(*RNG, string) string{
			func(r *RNG, b string) string { return "^" + b },
			func(r *RNG, b string) string { return "~" + b },
			func(r *RNG, b string) string { return "^" + partial(r, b) },
			func(r *RNG, b string) string { return "~" + partial(r, b) },
			wild,
			func(r *RNG, b string) string { return b + " - " + b },
			func(r *RNG, b string) string { return b + "@" + r.Pick([]string{"dev", "stable", "beta", "RC", "alpha"}) },
		}},
	"conan": {Ops: []string{">=", ">", "<=", "<", "!=", "=", ""}, OpSpace: true, And: []string{" ", ",", ", "}, Or: []string{"||", " || "},
		Short: []func(*RNG, string) string{
			func(r *RNG, b string) string { return "~" + b },
			func(r *RNG, b string) string { return "^" + b },
			func(r *RNG, b string) string { return "~" + partial(r, b) },
			func(r *RNG, b string) string { return "^" + partial(r, b) },
			func(r *RNG, b string) string { return "~ " + b },
		}},
	"cran":   {Ops: []string{">=", "<=", "!=", ">", "<", "=", ""}, OpSpace: true, And: []string{",", ", ", " , "}},
	"debian": {Ops: []string{">=", "<=", ">>", "<<", "!=", ">", "<", "=", ""}, OpSpace: true, And: []string{",", ", "}},
	"gem": {Ops: []string{">=", "<=", "!=", ">", "<", "=", ""}, OpSpace: true, And: []string{",", ", "},
		Short: []func(*RNG, string) string{
			func(r *RNG, b string) string { return "~>" + b },
			func(r *RNG, b string) string { return "~> " + partial(r, b) },
			func(r *RNG, b string) string { return "~>" + partial(r, b) },
		}},
	"gentoo": {Ops: []string{">=", "<=", "!=", ">", "<", "=", ""}, And: []string{",", " ", ", "}},
	"rpm":    {Ops: []string{">=", "<=", "!=", ">", "<", "=", ""}, And: []string{",", " ", ", "}},
	"golang": {Ops: []string{">=", "<=", "!=", ">", "<", "=", ""}, And: []string{" ", "  "}},
	"hex": {Ops: []string{">=", "<=", ">", "<", "=", ""}, And: []string{" ", " and "},
		Short: []func(*RNG, string) string{
			func(r *RNG, b string) string { return "~>" + b },
			func(r *RNG, b string) string { return "~>" + partial(r, b) },
		}},
	"maven": {Bracket: true},
	"npm": {Ops: []string{">=", "<=", ">", "<", "=", ""}, And: []string{" ", "  "}, Or: []string{"||", " || "},
		Short: []func(*RNG, string) string{
			func(r *RNG, b string) string { return "^" + b },
			func(r *RNG, b string) string { return "~" + b },
			func(r *RNG, b string) string { return "^" + partial(r, b) },
			func(r *RNG, b string) string { return "~" + partial(r, b) },
			wild,
			func(r *RNG, b string) string { return b + " - " + b },
			func(r *RNG, b string) string { return r.Pick([]string{"*", "", "latest", "!=" + b, ">= " + b}) },
		}},
	"nuget": {Bracket: true, Ops: []string{">=", "<=", "!=", ">", "<", "=", ""}, And: []string{",", ", "}},
	"pypi": {Ops: []string{"===", "~=", "==", "!=", "<=", ">=", "<", ">", ""}, OpSpace: true, And: []string{",", ", "},
		Short: []func(*RNG, string) string{
			func(r *RNG, b string) string { return "~=" + partial(r, b) },
			func(r *RNG, b string) string { return "==" + partial(r, b) + ".*" },
			func(r *RNG, b string) string { return "!=" + partial(r, b) + ".*" },
			func(r *RNG, b string) string { return "~=" + b },
		}},
	"semver": {Ops: []string{">=", "<=", "!=", ">", "<", "=", ""}, OpSpace: true, And: []string{" ", ",", ", "},
		Short: []func(*RNG, string) string{func(r *RNG, b string) string { return "*" }}},
}

func genBracket(r *RNG, p *Pool) string {
	a := r.Pick(p.Strs)
	b := r.Pick(p.Strs)
	lo := r.Pick([]string{"[", "("})
	hi := r.Pick([]string{"]", ")"})
	switch r.Intn(8) {
	case 0:
		return "[" + a + "]"
	case 1:
		return lo + a + ",)" // lower only
	case 2:
		return lo + "," + b + hi
	case 3:
		return lo + a + r.Pick([]string{",", ", ", " , "}) + b + hi
	case 4:
		return a
	case 5:
		return lo + a + "," + hi
	case 6:
		return r.Pick([]string{"(" + a + ")", "[]", "(,)", "[" + a, a + "]", "[" + a + "," + b + "," + a + "]", "[ " + a + " ]"})
	default:
		return lo + a + "," + b + hi
	}
}

// extraRangeGens: additional per-ecosystem range generators registered from init() functions
// of other files (harness/x_<eco>.go); used for a quarter of the draws.
var extraRangeGens = map[string][]func(r *RNG, p *Pool) string{}

// genRange produces a mostly valid native range over bounds from the pool.
// genRange: one range text of the ecosystem's grammar; when the tree under check has string
// constants that the pinned tree has not (codelits.go), a share of the texts carries one of them
// at a token boundary, in place of the operator, or around the text.
func genRange(r *RNG, eco string, p *Pool) string {
	s := genRange0(r, eco, p)
	if ws := newStrsFor(eco); len(ws) > 0 && r.Chance(20) {
		w := ws[r.Intn(len(ws))]
		toks := tokens(s)
		switch r.Intn(4) {
		case 0:
			if len(toks) > 0 {
				i := r.Intn(len(toks) + 1)
				s = strings.Join(toks[:i], "") + w + strings.Join(toks[i:], "")
			}
		case 1:
			if len(toks) > 0 {
				i := r.Intn(len(toks))
				toks[i] = w
				s = strings.Join(toks, "")
			}
		case 2:
			s = w + s
		default:
			s = s + w
		}
	}
	return s
}

func genRange0(r *RNG, eco string, p *Pool) string {
	syn := rangeSyn[eco]
	if len(p.Strs) == 0 {
		return ">=1"
	}
	if g := extraRangeGens[eco]; len(g) > 0 && r.Chance(25) {
		return g[r.Intn(len(g))](r, p)
	}
	if syn.Bracket && (len(syn.Ops) == 0 || r.Chance(60)) {
		return genBracket(r, p)
	}
	one := func() string {
		b := strings.TrimSpace(r.Pick(p.Strs))
		if len(syn.Short) > 0 && r.Chance(35) {
			return syn.Short[r.Intn(len(syn.Short))](r, b)
		}
		op := r.Pick(syn.Ops)
		if syn.OpSpace && op != "" && r.Chance(25) {
			op += " "
		}
		return op + b
	}
	group := func() string {
		n := 1
		if r.Chance(45) {
			n = 2
		}
		if r.Chance(8) {
			n = r.Range(3, 4)
		}
		s := one()
		for i := 1; i < n; i++ {
			s += r.Pick(syn.And) + one()
		}
		return s
	}
	s := group()
	if len(syn.Or) > 0 && r.Chance(25) {
		s += r.Pick(syn.Or) + group()
		if r.Chance(20) {
			s += r.Pick(syn.Or) + group()
		}
	}
	if eco == "nuget" && r.Chance(30) {
		s += ","
	}
	return s
}

// longRange: 12 to 40 comparators in one range text, as one AND list or as OR groups of two,
// bounds from the pool; the text is typically several hundred bytes long.
func longRange(r *RNG, eco string, p *Pool) string {
	syn := rangeSyn[eco]
	if len(p.Strs) == 0 || len(syn.Ops) == 0 || len(syn.And) == 0 {
		return genRange(r, eco, p)
	}
	n := r.Range(12, 40)
	short := func() string {
		// prefer short bounds so that the length comes from the number of comparators
		for k := 0; k < 8; k++ {
			if b := strings.TrimSpace(r.Pick(p.Strs)); len(b) <= 12 {
				return b
			}
		}
		return strings.TrimSpace(r.Pick(p.Strs))
	}
	var parts []string
	for i := 0; i < n; i++ {
		op := r.Pick(syn.Ops)
		if r.Chance(70) {
			op = r.Pick([]string{">=", ">"}) // keep the conjunction satisfiable more often
			ok := false
			for _, o := range syn.Ops {
				if o == op {
					ok = true
				}
			}
			if !ok {
				op = r.Pick(syn.Ops)
			}
		}
		parts = append(parts, op+short())
	}
	if len(syn.Or) > 0 && r.Chance(50) {
		var groups []string
		for i := 0; i+1 < len(parts); i += 2 {
			groups = append(groups, parts[i]+syn.And[0]+parts[i+1])
		}
		return strings.Join(groups, syn.Or[0])
	}
	return strings.Join(parts, syn.And[0])
}

// exhaustive short strings over an alphabet
func shortStrings(alpha []byte, maxLen int) []string {
	var out []string
	var rec func(cur []byte, n int)
	rec = func(cur []byte, n int) {
		out = append(out, string(cur))
		if n == 0 {
			return
		}
		for _, c := range alpha {
			rec(append(cur, c), n-1)
		}
	}
	rec(nil, maxLen)
	return out
}

var versionAlphabet = []byte("019.-+_~:!arvx ^")
var rangeAlphabet = []byte("01.-~^*x<>=!,| [)a")
