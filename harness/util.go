package main

import "strconv"

func unquote(s string) (string, error) { return strconv.Unquote(s) }
func quote(s string) string           { return strconv.Quote(s) }
