package main

import (
	"go/ast"
	"go/parser"
	"go/token"
	"os"
	"path/filepath"
	"sort"
	"strconv"
	"strings"
	"sync"
)

// Generic, grammar-free input diversification shared by every pool and range stream:
//   harvest      string literals of the repository's own *_test.go files (the maintainers' idea of
//                interesting inputs); a change that passes the suite agrees with the old code on
//                each of them, but not necessarily on their recombinations
//   splice       token-level crossover of two texts (digits / letters / one punctuation byte)
//   siblings     texts that differ only in that one alphanumeric token is a proper prefix of the
//                other's (abc, abcd, abce): prefix-based "equality" shortcuts
//   decorations  non-canonical spellings: leading v dropped/added, outer white space, build
//                metadata with dots
// None of these needs an oracle of its own: the candidates go through the same acceptance and
// comparison checks as every other pool member, and through the model correspondence.

func repoRoot() string {
	if r := os.Getenv("VERIF_REPO"); r != "" {
		return r
	}
	return "/repo"
}

var harvestOnce sync.Once
var harvested map[string][]string // directory key ("alpine", ..., "vers", "cmd") -> literals

func harvestDir(dir string) []string {
	files, _ := filepath.Glob(filepath.Join(dir, "*_test.go"))
	sort.Strings(files)
	seen := map[string]bool{}
	var out []string
	for _, fn := range files {
		fset := token.NewFileSet()
		f, err := parser.ParseFile(fset, fn, nil, 0)
		if err != nil {
			continue
		}
		ast.Inspect(f, func(n ast.Node) bool {
			if b, ok := n.(*ast.BasicLit); ok && b.Kind == token.STRING {
				if s, err := strconv.Unquote(b.Value); err == nil && len(s) > 0 && len(s) <= 120 && !seen[s] && isASCII(s) {
					seen[s] = true
					out = append(out, s)
				}
			}
			return true
		})
	}
	return out
}

func harvest(key string) []string {
	harvestOnce.Do(func() {
		harvested = map[string][]string{}
		root := repoRoot()
		ents, _ := os.ReadDir(filepath.Join(root, "pkg/ecosystem"))
		for _, e := range ents {
			if e.IsDir() {
				harvested[e.Name()] = harvestDir(filepath.Join(root, "pkg/ecosystem", e.Name()))
			}
		}
		harvested["vers"] = harvestDir(filepath.Join(root, "pkg/spec/vers"))
		harvested["cmd"] = harvestDir(filepath.Join(root, "cmd"))
	})
	return harvested[key]
}

// harvestedVersions / harvestedRanges: the literals of the ecosystem's tests (and the bound texts of
// the VERS tests) that the ecosystem accepts as a version / as a range.
var hvMu sync.Mutex
var hvCache = map[string][2][]string{}

func harvestedFor(e *Eco) (versions, ranges []string) {
	hvMu.Lock()
	defer hvMu.Unlock()
	if c, ok := hvCache[e.Name]; ok {
		return c[0], c[1]
	}
	cands := append([]string{}, harvest(e.Name)...)
	for _, s := range harvest("vers") {
		if strings.HasPrefix(s, "vers:") {
			if i := strings.IndexByte(s, '/'); i > 0 {
				for _, c := range strings.Split(s[i+1:], "|") {
					c = strings.TrimLeft(strings.TrimSpace(c), "<>=!")
					if c != "" && c != "*" {
						cands = append(cands, c)
					}
				}
			}
		} else {
			cands = append(cands, s)
		}
	}
	seen := map[string]bool{}
	for _, s := range cands {
		if seen[s] {
			continue
		}
		seen[s] = true
		// a version literal, not a sentence that a lenient grammar happens to accept (test names,
		// error messages)
		plain := len(s) <= 48 && !strings.ContainsAny(strings.TrimSpace(s), " \"%'(),/")
		if pr := e.Parse(s); pr.OK && pr.Panic == "" && plain {
			versions = append(versions, s)
		}
		if pr := e.ParseRange(s); pr.OK && pr.Panic == "" {
			ranges = append(ranges, s)
		}
	}
	hvCache[e.Name] = [2][]string{versions, ranges}
	return
}

// ---------- tokens ----------

func tokClass(c byte) int {
	switch {
	case c >= '0' && c <= '9':
		return 0
	case c >= 'a' && c <= 'z' || c >= 'A' && c <= 'Z':
		return 1
	}
	return 2
}

func tokens(s string) []string {
	var out []string
	for i := 0; i < len(s); {
		c := tokClass(s[i])
		j := i + 1
		if c != 2 {
			for j < len(s) && tokClass(s[j]) == c {
				j++
			}
		}
		out = append(out, s[i:j])
		i = j
	}
	return out
}

// splice: crossover of a and b at token boundaries.
func splice(r *RNG, a, b string) string {
	ta, tb := tokens(a), tokens(b)
	if len(ta) == 0 || len(tb) == 0 {
		return a + b
	}
	switch r.Intn(4) {
	case 0: // head of a, tail of b, cut before a punctuation token of b
		i := r.Intn(len(ta) + 1)
		var cuts []int
		for j, t := range tb {
			if tokClass(t[0]) == 2 {
				cuts = append(cuts, j)
			}
		}
		j := r.Intn(len(tb))
		if len(cuts) > 0 && r.Chance(80) {
			j = cuts[r.Intn(len(cuts))]
		}
		return strings.Join(ta[:i], "") + strings.Join(tb[j:], "")
	case 1: // replace one token of a by a token of b of the same class
		i := r.Intn(len(ta))
		var same []string
		for _, t := range tb {
			if tokClass(t[0]) == tokClass(ta[i][0]) {
				same = append(same, t)
			}
		}
		if len(same) == 0 {
			return a
		}
		ta[i] = same[r.Intn(len(same))]
		return strings.Join(ta, "")
	case 2: // insert a segment of b into a
		i := r.Intn(len(ta) + 1)
		j := r.Intn(len(tb))
		k := j + 1 + r.Intn(minInt(3, len(tb)-j))
		return strings.Join(ta[:i], "") + strings.Join(tb[j:k], "") + strings.Join(ta[i:], "")
	default: // all of a, then the tail of b from a punctuation token on
		for j, t := range tb {
			if j > 0 && tokClass(t[0]) == 2 && r.Chance(50) {
				return a + strings.Join(tb[j:], "")
			}
		}
		return a + strings.Join(tb[len(tb)-1:], "")
	}
}

func minInt(a, b int) int {
	if a < b {
		return a
	}
	return b
}

// prefixSiblings: s with one letter/hex token t replaced by t+x, t+y (x != y) and by a proper
// prefix of t: three or four texts that differ only by a prefix relation in one token.
func prefixSiblings(r *RNG, s string) []string { return prefixSiblingsAfter(r, s, 0) }

// prefixSiblingsAfter: as prefixSiblings; after != 0 prefers the run that follows that byte.
func prefixSiblingsAfter(r *RNG, s string, after byte) []string {
	// mode 1: a maximal alphanumeric run that has a letter (a hash, a tag) is extended at its end
	if r.Chance(60) || after != 0 {
		var runs [][2]int
		for i := 0; i < len(s); {
			if tokClass(s[i]) == 2 {
				i++
				continue
			}
			j, letter := i, false
			for j < len(s) && tokClass(s[j]) != 2 {
				if tokClass(s[j]) == 1 {
					letter = true
				}
				j++
			}
			if letter {
				runs = append(runs, [2]int{i, j})
			}
			i = j
		}
		if len(runs) > 0 {
			run := runs[r.Intn(len(runs))]
			if r.Chance(60) {
				run = runs[len(runs)-1]
			}
			if after != 0 {
				for _, ru := range runs {
					if ru[0] > 0 && s[ru[0]-1] == after {
						run = ru
					}
				}
			}
			alpha := "abcdef0123456789"
			x := alpha[r.Intn(len(alpha))]
			y := alpha[r.Intn(len(alpha))]
			for y == x {
				y = alpha[r.Intn(len(alpha))]
			}
			t := s[run[0]:run[1]]
			mk := func(nt string) string { return s[:run[0]] + nt + s[run[1]:] }
			out := []string{mk(t + string(x)), mk(t + string(y)), mk(t + string(x) + string(y))}
			if len(t) > 1 {
				out = append(out, mk(t[:len(t)-1]))
			}
			return out
		}
	}
	ts := tokens(s)
	var idx []int
	for i, t := range ts {
		if tokClass(t[0]) == 1 || (tokClass(t[0]) == 0 && i > 0 && r.Chance(20)) {
			idx = append(idx, i)
		}
	}
	if len(idx) == 0 {
		return nil
	}
	i := idx[r.Intn(len(idx))]
	// the last alphanumeric token is where hashes and tags live: prefer it
	if r.Chance(60) {
		i = idx[len(idx)-1]
	}
	t := ts[i]
	alpha := "abcdef0123456789"
	if tokClass(t[0]) == 0 {
		alpha = "0123456789"
	}
	x := alpha[r.Intn(len(alpha))]
	y := alpha[r.Intn(len(alpha))]
	for y == x {
		y = alpha[r.Intn(len(alpha))]
	}
	mk := func(nt string) string {
		c := append([]string{}, ts...)
		c[i] = nt
		return strings.Join(c, "")
	}
	out := []string{mk(t + string(x)), mk(t + string(y)), mk(t + string(x) + string(y))}
	if len(t) > 1 {
		out = append(out, mk(t[:len(t)-1]))
	}
	// the same text with a number appended to / removed after the token (rc vs rc0 vs rc.0),
	// and with the token's following number set to 0
	out = append(out, mk(t+"0"), mk(t+".0"))
	if i+1 < len(ts) && tokClass(ts[i+1][0]) == 0 {
		c := append([]string{}, ts...)
		c[i+1] = "0"
		out = append(out, strings.Join(c, ""))
		c = append(append([]string{}, ts[:i+1]...), ts[i+2:]...)
		out = append(out, strings.Join(c, ""))
	}
	if i+2 < len(ts) && tokClass(ts[i+1][0]) == 2 && tokClass(ts[i+2][0]) == 0 {
		c := append([]string{}, ts...)
		c[i+2] = "0"
		out = append(out, strings.Join(c, ""))
		c = append(append([]string{}, ts[:i+1]...), ts[i+3:]...)
		out = append(out, strings.Join(c, ""))
	}
	return out
}

// decorations: accepted-or-not spellings around s.
func decorations(r *RNG, s string) []string {
	var out []string
	if strings.HasPrefix(s, "v") || strings.HasPrefix(s, "V") {
		out = append(out, s[1:])
	} else {
		out = append(out, "v"+s)
	}
	out = append(out, r.Pick([]string{" ", "\t", "\n", "  "})+s+r.Pick([]string{"", " ", "\n", "\t "}))
	out = append(out, s+"00000000000000000000")
	if !strings.Contains(s, "+") {
		out = append(out, s+r.Pick([]string{"+build.5", "+b.1.2", "+20240101.1", "+a-b.c", "+001", "+exp.sha.5114f85"}))
	}
	return out
}

// pickRare: a candidate that contains one of the three rarest punctuation bytes of the candidate
// set (def if there is none).
// rareCycle >= 0: pickRare takes the rareCycle-th rarest byte (cyclically) instead of a random one.
var rareCycle = -1

func pickRare(r *RNG, all []string, def string) (string, byte) {
	freq := map[byte]int{}
	for _, s := range all {
		seen := map[byte]bool{}
		if strings.ContainsAny(strings.TrimSpace(s), " \"%'") {
			continue
		}
		for i := 0; i < len(s); i++ {
			if c := s[i]; tokClass(c) == 2 && c > ' ' && c < 0x7f && !seen[c] {
				seen[c] = true
				freq[c]++
			}
		}
	}
	type kv struct {
		c byte
		n int
	}
	var ks []kv
	for c, n := range freq {
		ks = append(ks, kv{c, n})
	}
	if len(ks) == 0 {
		return def, 0
	}
	sort.Slice(ks, func(i, j int) bool { return ks[i].n < ks[j].n || (ks[i].n == ks[j].n && ks[i].c < ks[j].c) })
	c := ks[r.Intn(minInt(3, len(ks)))].c
	if rareCycle >= 0 {
		c = ks[rareCycle%len(ks)].c
	}
	var with []string
	for _, s := range all {
		if strings.IndexByte(s, c) >= 0 && len(s) < 60 {
			with = append(with, s)
		}
	}
	if len(with) == 0 {
		return def, 0
	}
	return with[r.Intn(len(with))], c
}

// ---------- families added after the third wave of seeded changes ----------

// tokenPrefixes: every proper prefix of s that ends at a token boundary (before a punctuation
// token or after an alphanumeric one): 1.0_alpha_p1 -> 1, 1.0, 1.0_alpha, 1.0_alpha_p.  Rules of
// the kind "the longer list decides" / "missing = zero" are decided between a text and its own
// prefixes.
func tokenPrefixes(s string) []string {
	ts := tokens(s)
	var out []string
	acc := ""
	for i, t := range ts {
		acc += t
		if i+1 < len(ts) && tokClass(t[0]) != 2 {
			out = append(out, acc)
		}
	}
	return out
}

// deepArity: dotted (sep) numeric tuples of up to 12 components that extend base: zero tails with
// and without a final non-zero component, an increasing tail, and each of their prefixes.  Loops
// over "the first k components" and padding rules show at the k+1-th.
func deepArity(r *RNG, base string, sep string) []string {
	tail := []string{"0", "0", "0", "0", "0", "0", "0", "0", "0", "0", "0"}
	var out []string
	n := 4 + r.Intn(8)
	z := base
	for i := 0; i < n; i++ {
		z += sep + tail[i]
		if i >= 2 {
			out = append(out, z+sep+"1", z+sep+"0")
		}
	}
	inc := base
	for i := 2; i < 2+n; i++ {
		inc += sep + strconv.Itoa(i)
		if i >= 4 {
			out = append(out, inc)
		}
	}
	return out
}

// edgeLetterVariants: s with one alphabetic token replaced by words made of the first and last
// letters of each case, glued to small numbers: hand-written character classes go wrong at
// their edges (c < 'Z'), and digit/letter transitions are where tokenizers split.
func edgeLetterVariants(r *RNG, s string) []string {
	ts := tokens(s)
	var idx []int
	for i, t := range ts {
		if tokClass(t[0]) == 1 {
			idx = append(idx, i)
		}
	}
	words := []string{"Z", "z", "A", "a", "XYZ", "xyz", "AZ", "Za", "zZ", "JAZZ", "jazz"}
	w := words[r.Intn(len(words))]
	mk := func(i int, nt string) string {
		c := append([]string{}, ts...)
		c[i] = nt
		return strings.Join(c, "")
	}
	var out []string
	if len(idx) > 0 {
		i := idx[r.Intn(len(idx))]
		out = append(out, mk(i, w), mk(i, w+"2"), mk(i, w+"10"), mk(i, strings.ToLower(w)+"2"), mk(i, w+"-2"), mk(i, w+".2"))
	}
	// the same words after the whole text, with the joiners a version grammar may use
	j := []string{"-", ".", "_", "+", "~", ""}[r.Intn(6)]
	out = append(out, s+j+w, s+j+w+"2", s+j+w+"10", s+j+strings.ToLower(w)+"2")
	return out
}

// punctuationPairs: two-byte sequences over the punctuation bytes that occur in the candidate set,
// put between two tokens of s, at its end, and between s and an appended word: scanners that step
// over separators meet "separator, then something special, then the end" only this way.
func punctuationPairs(r *RNG, s string, all []string) []string {
	seen := map[byte]bool{}
	var ps []byte
	for _, c := range all {
		for i := 0; i < len(c); i++ {
			if tokClass(c[i]) == 2 && c[i] > ' ' && c[i] < 0x7f && !seen[c[i]] {
				seen[c[i]] = true
				ps = append(ps, c[i])
			}
		}
	}
	if len(ps) < 2 {
		return nil
	}
	var out []string
	ts := tokens(s)
	for k := 0; k < 6; k++ {
		pair := string([]byte{ps[r.Intn(len(ps))], ps[r.Intn(len(ps))]})
		switch k % 3 {
		case 0:
			out = append(out, s+pair, s+pair+"rc", s+pair+"1", s+pair[:1]+"rc"+pair[1:], s+pair[:1]+"rc"+pair[1:]+"1")
		case 1:
			if len(ts) > 1 {
				i := 1 + r.Intn(len(ts)-1)
				out = append(out, strings.Join(ts[:i], "")+pair+strings.Join(ts[i:], ""))
			}
		default:
			// s ends with a word: word, word+pair, word+pair+x
			out = append(out, s+"a", s+"a"+pair, s+"a"+pair+"b", s+"a"+pair+"1", s+"a"+pair[:1])
		}
	}
	return out
}

// ---------- families added after the fourth wave of seeded changes ----------

// joinerSwaps: s with one single-byte joiner replaced by each other joiner byte the candidates use
// (1.0.0-a.b <-> 1.0.0-a-b <-> 1.0.0-a_b): the orders of two texts that differ only in a joiner
// are where byte-wise shortcuts and identifier-wise comparison part.
func joinerSwaps(r *RNG, s string, all []string) []string {
	seen := map[byte]bool{}
	var ps []byte
	for _, c := range all {
		for i := 0; i < len(c); i++ {
			if tokClass(c[i]) == 2 && c[i] > ' ' && c[i] < 0x7f && !seen[c[i]] {
				seen[c[i]] = true
				ps = append(ps, c[i])
			}
		}
	}
	var pos []int
	for i := 1; i+1 < len(s); i++ {
		if tokClass(s[i]) == 2 && tokClass(s[i-1]) != 2 && tokClass(s[i+1]) != 2 {
			pos = append(pos, i)
		}
	}
	if len(pos) == 0 || len(ps) == 0 {
		return nil
	}
	var out []string
	// the last joiners are where identifiers live: take the last two positions and a random one
	cand := []int{pos[len(pos)-1], pos[r.Intn(len(pos))]}
	if len(pos) > 1 {
		cand = append(cand, pos[len(pos)-2])
	}
	for _, i := range cand {
		for _, p := range ps {
			if p != s[i] {
				out = append(out, s[:i]+string(p)+s[i+1:])
			}
		}
	}
	// digit-free identifier lists on the text's core: one identifier "a-b" against the two "a", "b",
	// and a digit-bearing neighbour that takes the ordinary path
	core := s
	if i := strings.IndexAny(s, "-+~_"); i > 0 {
		core = s[:i]
	}
	j := string(s[pos[len(pos)-1]])
	for _, ids := range []string{"a.b", "a-b", "a.c1", "a-c1"} {
		out = append(out, core+"-"+ids)
		if j != "-" && j != "." {
			out = append(out, core+j+ids)
		}
	}
	return out
}

// sameLengthTokenVariants: s with the last character of one alphanumeric token (preferably the last
// token: hashes, revisions, tags) changed, the token's length kept: texts that agree everywhere
// except in a part a shortcut may not look at.
func sameLengthTokenVariants(r *RNG, s string) []string {
	ts := tokens(s)
	var idx []int
	for i, t := range ts {
		if tokClass(t[0]) != 2 && len(t) >= 1 {
			idx = append(idx, i)
		}
	}
	if len(idx) == 0 {
		return nil
	}
	var out []string
	for _, i := range []int{idx[len(idx)-1], idx[r.Intn(len(idx))]} {
		t := ts[i]
		for _, repl := range []byte{'a', 'b', 'f', '0', '1', '9'} {
			if t[len(t)-1] != repl {
				c := append([]string{}, ts...)
				c[i] = t[:len(t)-1] + string(repl)
				out = append(out, strings.Join(c, ""))
			}
		}
		if len(t) >= 4 {
			// the whole token replaced by another of the same length
			c := append([]string{}, ts...)
			c[i] = strings.Repeat("a", len(t))
			out = append(out, strings.Join(c, ""))
			c = append([]string{}, ts...)
			c[i] = strings.Repeat("b", len(t))
			out = append(out, strings.Join(c, ""))
		}
	}
	return out
}

// longWordVariants: an alphabetic token replaced by words of 8 to 17 letters in three letter cases
// (rules keyed on the length of the longest known word stop applying beyond it).
func longWordVariants(r *RNG, s string) []string {
	words := []string{"experimental", "incubating", "prerelease", "milestonex", "snapshots", "abcdefgh", "abcdefghijklmnopq"}
	w := words[r.Intn(len(words))]
	forms := []string{w, strings.ToUpper(w), strings.ToUpper(w[:1]) + w[1:]}
	ts := tokens(s)
	var out []string
	done := false
	for i, t := range ts {
		if tokClass(t[0]) == 1 && !done {
			for _, f := range forms {
				c := append([]string{}, ts...)
				c[i] = f
				out = append(out, strings.Join(c, ""))
			}
			done = true
		}
	}
	j := []string{"-", ".", "_", "~", "+"}[r.Intn(5)]
	for _, f := range forms {
		out = append(out, s+j+f, s+j+f+"2")
	}
	return out
}

// overflowSums: dotted tuples extending base whose extra components add up to 2^32 or 2^64 exactly
// (4 x 2^62, 2 x (2^63-1) + 2, 4 x 2^30, 2 x 2^31): "is the rest all zero" tests written as a sum or
// an OR over machine words wrap to zero there.
func overflowSums(base, sep string) []string {
	fams := [][]string{
		{"4611686018427387904", "4611686018427387904", "4611686018427387904", "4611686018427387904"},
		{"0", "9223372036854775807", "9223372036854775807", "2"},
		{"1073741824", "1073741824", "1073741824", "1073741824"},
		{"2147483648", "2147483648"},
		{"4294967296", "0", "4294967296"},
	}
	var out []string
	for _, f := range fams {
		out = append(out, base+sep+strings.Join(f, sep))
	}
	return out
}

// markerMetadata: build metadata / local labels made of the words and shapes that pre-release
// detection looks for (a label is opaque: 1.5.0+g1a2b3c4 is a final release).
func markerMetadata(r *RNG, s string) []string {
	if strings.Contains(s, "+") {
		return nil
	}
	labels := []string{"+g1a2b3c4", "+1.a1", "+7.rc1", "+ubuntu.1.dev2", "+rc1", "+alpha", "+1.b2", "+dev", "+c3", "+x", "+X.1", "+beta.x"}
	perm := r.Perm(len(labels))
	out := []string{s + labels[perm[0]], s + labels[perm[1]], s + labels[perm[2]]}
	if strings.Contains(s, "-") {
		// a label shaped like the tail of a generated version (number, timestamp, revision): two
		// of them on the same text are the same version
		out = append(out, s+"+m.0.20170102030405-aaaaaaaaaaaa", s+"+m.0.20230908070605-bbbbbbbbbbbb")
	}
	return out
}

// runeClassFamily: texts around one rune outside ASCII that Unicode classes as a decimal digit or
// a letter (a parser that validates with unicode.IsDigit / IsLetter accepts it; a scanner that
// works on bytes sees neither a digit nor a letter).  The rune is placed right behind a digit run
// (or replaces a letter), and the family holds the text, the respelling of the number in front of
// the rune with one more leading zero, and each of the two followed by the bytes that open a new
// segment in some ecosystem ("~", ".", "-", "+", "_", a digit, a letter) — so that the pool gets
// triples whose members share everything up to the rune and differ only in what follows it or in
// the spelling of the number before it.
func runeClassFamily(r *RNG, s string) []string {
	digits := []string{"٣", "３", "৩", "۵"}
	letters := []string{"é", "Ω", "ж", "ß", "İ", "漢"}
	runs := digitRuns(s)
	var base, zero string
	if len(runs) > 0 && r.Chance(70) {
		run := runs[len(runs)-1]
		if r.Chance(40) {
			run = runs[r.Intn(len(runs))]
		}
		u := r.Pick(digits)
		if r.Chance(30) {
			u = r.Pick(letters)
		}
		base = s[:run[1]] + u
		zero = s[:run[0]] + "0" + s[run[0]:run[1]] + u
		if r.Chance(50) {
			// keep what followed the run
			return []string{base + s[run[1]:], zero + s[run[1]:], base + "~" + s[run[1]:], base + "." + s[run[1]:], s[:run[1]] + u + u + s[run[1]:]}
		}
	} else {
		// replace one ASCII letter
		var pos []int
		for i := 0; i < len(s); i++ {
			if tokClass(s[i]) == 1 {
				pos = append(pos, i)
			}
		}
		if len(pos) == 0 {
			return nil
		}
		i := pos[r.Intn(len(pos))]
		base = s[:i] + r.Pick(letters) + s[i+1:]
		zero = s[:i] + r.Pick(digits) + s[i+1:]
	}
	// at most eight texts: a pool of seventy keeps its other families
	out := []string{base, zero}
	sufs := []string{"~", ".", "-", "+", "_", "1", "a", "~1", ".0", "-1"}
	for k, i := range r.Perm(len(sufs)) {
		if k >= 5 {
			break
		}
		out = append(out, base+sufs[i])
		if k == 0 {
			out = append(out, zero+sufs[i])
		}
	}
	return out
}
