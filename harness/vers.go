package main

import (
	"fmt"
	"reflect"
	"sort"
	"strings"

	"github.com/alowayed/go-univers/pkg/spec/vers"
)

var schemeEco = map[string]string{
	"alpine": "alpine", "cargo": "cargo", "deb": "debian", "gem": "gem", "generic": "semver",
	"golang": "golang", "maven": "maven", "npm": "npm", "nuget": "nuget", "pypi": "pypi", "rpm": "rpm",
}

var schemeNames = []string{"alpine", "cargo", "deb", "gem", "generic", "golang", "maven", "npm", "nuget", "pypi", "rpm"}

func versContains(r, v string) (ok bool, isErr bool, pan string) {
	pan = guardDesc(func() string { return fmt.Sprintf("vers.Contains(%q, %q)", r, v) }, func() {
		b, err := vers.Contains(r, v)
		ok = b
		isErr = err != nil
	})
	return
}

func vresString(ok, isErr bool, pan string) string {
	if pan != "" {
		return "panic"
	}
	if isErr {
		if ok {
			return "true+err"
		}
		return "e"
	}
	if ok {
		return "t"
	}
	return "f"
}

// boundOK: the property's scope clause for bounds printed into a native range of the scheme.
func boundOK(scheme, s string) bool {
	if s == "" || strings.TrimSpace(s) != s {
		return false
	}
	for i := 0; i < len(s); i++ {
		c := s[i]
		if c <= 32 || c > 126 || c == '|' {
			return false
		}
	}
	if strings.ContainsAny(s[:1], "<>=!~^*") {
		return false
	}
	bad := ""
	switch scheme {
	case "maven", "nuget":
		bad = ",[]() "
	case "cargo", "deb", "gem", "rpm", "pypi":
		bad = ", "
	default:
		bad = " ,"
	}
	if strings.ContainsAny(s, bad) {
		return false
	}
	if scheme == "npm" || scheme == "generic" || scheme == "cargo" {
		// wildcard-looking texts are a different construct in the native syntax
		core := s
		if i := strings.IndexAny(core, "-+"); i >= 0 {
			core = core[:i]
		}
		for _, part := range strings.Split(core, ".") {
			if part == "x" || part == "X" || part == "*" {
				return false
			}
		}
	}
	return true
}

// distinctSorted: pool members in scope, pairwise non-equivalent, sorted by the implementation.
func distinctSorted(e *Eco, p *Pool, scheme string) ([]string, []any) {
	type sv struct {
		s string
		v any
	}
	var xs []sv
	for i, s := range p.Strs {
		if boundOK(scheme, s) && isASCII(s) {
			xs = append(xs, sv{s, p.Vals[i]})
		}
	}
	sort.SliceStable(xs, func(i, j int) bool {
		c, _ := e.Compare(xs[i].v, xs[j].v)
		return c < 0
	})
	var outS []string
	var outV []any
	for _, x := range xs {
		if len(outV) > 0 {
			c, _ := e.Compare(outV[len(outV)-1], x.v)
			if c == 0 {
				continue
			}
		}
		outS = append(outS, x.s)
		outV = append(outV, x.v)
	}
	return outS, outV
}

type vcons struct {
	op string
	s  string
	v  any
}

// genShape builds a valid VERS comparator shape over k increasing versions:
// optional leading upper bound, lower/upper pairs, optional trailing lower bound,
// '=' points and '!=' exclusions anywhere.
func genShape(r *RNG, vs []string, vals []any, k int) []vcons {
	if k > len(vs) {
		k = len(vs)
	}
	// choose k increasing indices
	idx := map[int]bool{}
	// a third of the shapes take their versions from a narrow window of the sorted pool:
	// neighbours in the order (same base, different pre-release / revision / pseudo-version form)
	lo, span := 0, len(vs)
	if r.Chance(35) && len(vs) > 2*k+2 {
		span = 2*k + 2
		lo = r.Intn(len(vs) - span + 1)
	}
	for len(idx) < k {
		idx[lo+r.Intn(span)] = true
	}
	var is []int
	for i := range idx {
		is = append(is, i)
	}
	sort.Ints(is)
	var out []vcons
	expectLower := r.Chance(70) // false: start with an upper bound
	for _, i := range is {
		var op string
		switch {
		case r.Chance(18):
			op = "="
		case r.Chance(15):
			op = "!="
		case expectLower:
			op = r.Pick([]string{">=", ">"})
			expectLower = false
		default:
			op = r.Pick([]string{"<=", "<"})
			expectLower = true
		}
		out = append(out, vcons{op, vs[i], vals[i]})
	}
	return out
}

func renderVers(r *RNG, scheme string, cs []vcons, noise bool) string {
	parts := make([]string, len(cs))
	for i, c := range cs {
		parts[i] = c.op + c.s
	}
	if noise {
		// permute, pad, duplicate, add empties
		for i := len(parts) - 1; i > 0; i-- {
			j := r.Intn(i + 1)
			parts[i], parts[j] = parts[j], parts[i]
		}
	}
	return "vers:" + scheme + "/" + strings.Join(parts, "|")
}

func intField(v any, name string) (int64, bool) {
	rv := reflect.ValueOf(v)
	if rv.Kind() == reflect.Ptr {
		rv = rv.Elem()
	}
	if rv.Kind() != reflect.Struct {
		return 0, false
	}
	f := rv.FieldByName(name)
	if !f.IsValid() || !f.CanInt() {
		return 0, false
	}
	return f.Int(), true
}

func strField(v any, name string) (string, bool) {
	rv := reflect.ValueOf(v)
	if rv.Kind() == reflect.Ptr {
		rv = rv.Elem()
	}
	if rv.Kind() != reflect.Struct {
		return "", false
	}
	f := rv.FieldByName(name)
	if !f.IsValid() || f.Kind() != reflect.String {
		return "", false
	}
	return f.String(), true
}

func pypiIsPre(v any) bool {
	pre, _ := strField(v, "prerelease")
	dev, ok := intField(v, "dev")
	return pre != "" || (ok && dev != -1)
}

// unionSpec: the property's own statement of VERS semantics, evaluated with the
// implementation's Compare.
func unionSpec(e *Eco, scheme string, cs []vcons, probe any) bool {
	cmp := func(a, b any) int { c, _ := e.Compare(a, b); return sign(c) }
	for _, c := range cs {
		if c.op == "!=" && cmp(probe, c.v) == 0 {
			return false
		}
	}
	if scheme == "pypi" && pypiIsPre(probe) {
		named := false
		for _, c := range cs {
			// a local label that spells a marker (1.0+a.c) is read as naming a pre-release by the
			// gate's text scan; mirrored here so that the oracle does not claim more than the
			// property (PEP 440 default: excluded unless a constraint names a pre-release)
			if pypiIsPre(c.v) || (strings.Contains(c.s, "+") && pypiLocalSpellsMarker(c.s)) {
				named = true
			}
		}
		if !named {
			return false
		}
	}
	onlyNe := true
	for _, c := range cs {
		if c.op != "!=" {
			onlyNe = false
		}
	}
	if onlyNe {
		return true
	}
	for _, c := range cs {
		if c.op == "=" && cmp(probe, c.v) == 0 {
			return true
		}
	}
	// intervals from the bounds in version order
	var bounds []vcons
	for _, c := range cs {
		if c.op != "=" && c.op != "!=" {
			bounds = append(bounds, c)
		}
	}
	satisfies := func(c vcons) bool {
		x := cmp(probe, c.v)
		switch c.op {
		case ">=":
			return x >= 0
		case ">":
			return x > 0
		case "<=":
			return x <= 0
		case "<":
			return x < 0
		}
		return false
	}
	i := 0
	for i < len(bounds) {
		b := bounds[i]
		if b.op == "<" || b.op == "<=" { // leading upper bound
			if satisfies(b) {
				return true
			}
			i++
			continue
		}
		// lower bound, paired with the next upper bound if any
		if i+1 < len(bounds) {
			if satisfies(b) && satisfies(bounds[i+1]) {
				return true
			}
			i += 2
		} else {
			if satisfies(b) {
				return true
			}
			i++
		}
	}
	return false
}

func fmtCons(cs []vcons) []string {
	out := make([]string, len(cs))
	for i, c := range cs {
		out[i] = c.op + c.s
	}
	return out
}

var _ = fmt.Sprint

// pypiLocalSpellsMarker: the local label of a pypi version text contains one of the gate's
// markers preceded by a digit or '.', and followed by a digit, '+', '.' or the end.
func pypiLocalSpellsMarker(s string) bool {
	i := strings.IndexByte(s, '+')
	if i < 0 {
		return false
	}
	l := strings.ToLower(s)
	for _, m := range []string{"alpha", "beta", "dev", "rc", "a", "b", "c"} {
		for from := i; ; {
			k := strings.Index(l[from:], m)
			if k < 0 {
				break
			}
			k += from
			if k > 0 && (l[k-1] == '.' || (l[k-1] >= '0' && l[k-1] <= '9')) {
				end := k + len(m)
				if end == len(l) || l[end] == '.' || l[end] == '+' || (l[end] >= '0' && l[end] <= '9') {
					return true
				}
			}
			from = k + 1
		}
	}
	return false
}
