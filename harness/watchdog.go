package main

import (
	"encoding/json"
	"fmt"
	"os"
	"sync"
	"sync/atomic"
	"time"
)

// Watchdog: every guarded call into the implementation registers its start time; a call that
// runs longer than the deadline is reported as a "hang" violation (C06: every entry point
// terminates), the result file is written and the process exits, because the stuck goroutine
// cannot be cancelled.

type callSlot struct {
	start atomic.Int64
	desc  atomic.Pointer[func() string]
}

var (
	slotPool  = sync.Pool{New: func() any { s := &callSlot{}; slotMu.Lock(); slots = append(slots, s); slotMu.Unlock(); return s }}
	slotMu    sync.Mutex
	slots     []*callSlot
	wdResult  *Result
	wdOut     string
	wdLimit   = 15 * time.Second
	wdStarted atomic.Bool
)

func startWatchdog(res *Result, out string) {
	wdResult, wdOut = res, out
	if wdStarted.Swap(true) {
		return
	}
	go func() {
		for {
			time.Sleep(250 * time.Millisecond)
			now := time.Now().UnixNano()
			slotMu.Lock()
			cur := append([]*callSlot{}, slots...)
			slotMu.Unlock()
			for _, s := range cur {
				st := s.start.Load()
				if st != 0 && time.Duration(now-st) > wdLimit {
					what := "a call into the implementation"
					if d := s.desc.Load(); d != nil {
						what = (*d)()
					}
					if wdResult != nil {
						wdResult.Violations = append(wdResult.Violations, Violation{Property: wdResult.Property, Eco: "-", Kind: "hang",
							Input: what, Expected: "the call returns (C06: every entry point terminates)", Actual: fmt.Sprintf("still running after %s", wdLimit)})
						wdResult.Notes = append(wdResult.Notes, "run aborted by the watchdog: "+what)
						b, _ := json.MarshalIndent(wdResult, "", " ")
						if wdOut != "" {
							os.WriteFile(wdOut, b, 0o644)
						}
					}
					fmt.Fprintln(os.Stderr, "watchdog: call did not return:", what)
					os.Exit(3)
				}
			}
		}
	}()
}

// guardDesc is guard with a lazily evaluated description of the call for the watchdog.
func guardDesc(desc func() string, f func()) (p string) {
	s := slotPool.Get().(*callSlot)
	s.desc.Store(&desc)
	s.start.Store(time.Now().UnixNano())
	defer func() {
		s.start.Store(0)
		slotPool.Put(s)
		if r := recover(); r != nil {
			p = fmt.Sprint(r)
			if p == "" {
				p = "panic"
			}
		}
	}()
	f()
	return ""
}
