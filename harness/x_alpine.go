package main

// Extra generators for the alpine ecosystem: every group of versionPattern with its
// near-misses, leading-zero components at every index, int64 overflow in each Atoi site,
// and range strings exercising the operator loop / Fields split / lazily parsed bounds.

import "strings"

var xAlpineNums = []string{"0", "1", "2", "9", "10", "00", "01", "010", "09", "1", "100", "02", "000",
	"9223372036854775807", "9223372036854775808", "09223372036854775808", "18446744073709551616"}
var xAlpineSuffixNames = []string{"alpha", "beta", "pre", "rc", "cvs", "svn", "git", "hg", "p",
	"a", "pz", "q", "foo", "zz", "alphaa", "r", "rcx"}
var xAlpineSuffixNums = []string{"", "", "0", "1", "2", "01", "10", "9223372036854775807", "9223372036854775808", "00"}
var xAlpineHashes = []string{"abc123", "0", "ff", "deadbeef", "a", "00", "f0", "abcdef0123456789"}
var xAlpineBadHashes = []string{"", "g", "ABC", "ab g", "abz", "ab~cd", "-", "_p"}
var xAlpineBuilds = []string{"0", "1", "2", "01", "10", "00", "9223372036854775807", "9223372036854775808"}
var xAlpineBadBuilds = []string{"-r", "-r-1", "-r1a", "-R1", "-r 1", "-r1-r2", "-1", "-rc1", "-r1.2", "-r+1"}
var xAlpineJunk = []string{"", ".", "..", "_", "__", "~", "-", "-r", "a", "ab", "A", "1", " 1", "+", "\n2", "_1", "_p_", "_P1", "x"}

func genAlpineX(r *RNG) string {
	// numeric part
	n := r.Range(1, 4)
	parts := make([]string, n)
	for i := range parts {
		if r.Chance(75) {
			parts[i] = r.Pick(xAlpineNums[:13])
		} else {
			parts[i] = r.Pick(xAlpineNums)
		}
	}
	s := strings.Join(parts, ".")
	if r.Chance(4) {
		s = r.Pick([]string{".", "", "v", "-", "+", "a"}) + s
	}
	if r.Chance(4) {
		s += r.Pick([]string{".", "..", ".a", ".-1"})
	}
	// letter
	if r.Chance(25) {
		s += r.Pick([]string{"a", "b", "z", "r", "ab", "A", "a1"}[:r.Range(4, 7)])
	}
	// suffixes
	ns := 0
	if r.Chance(55) {
		ns = r.Range(1, 3)
	}
	for i := 0; i < ns; i++ {
		s += "_" + r.Pick(xAlpineSuffixNames) + r.Pick(xAlpineSuffixNums)
	}
	if r.Chance(5) {
		s += r.Pick([]string{"_", "__p1", "_1", "_P", "_p1a", "_p-1", "_alpha.1", "_p 1"})
	}
	// hash
	if r.Chance(15) {
		if r.Chance(80) {
			s += "~" + r.Pick(xAlpineHashes)
		} else {
			s += "~" + r.Pick(xAlpineBadHashes)
		}
	}
	// build
	if r.Chance(35) {
		if r.Chance(85) {
			s += "-r" + r.Pick(xAlpineBuilds)
		} else {
			s += r.Pick(xAlpineBadBuilds)
		}
	}
	if r.Chance(5) {
		s += r.Pick(xAlpineJunk)
	}
	if r.Chance(3) {
		// wrong group order
		s = r.Pick([]string{"1.0-r1~ab", "1.0~ab_p1", "1.0_p1a", "1.0-r1_p1", "1.0a_p1~f-r2", "1a.0", "1.0~ab-r1_p",
			"abc", "_p1", "-r1", "~ab", "a1", "1 2", "1.0 -r1", "r1", "1.0\n2", "1.0\t_p"})
	}
	return s
}

func init() {
	old := versionGens["alpine"]
	versionGens["alpine"] = func(r *RNG) string {
		if r.Chance(40) {
			return genAlpineX(r)
		}
		return old(r)
	}
	bound := func(r *RNG, p *Pool) string {
		if r.Chance(70) {
			return strings.TrimSpace(r.Pick(p.Strs))
		}
		return genAlpineX(r)
	}
	extraRangeGens["alpine"] = append(extraRangeGens["alpine"],
		// odd operator spellings: "==1" is "=" with bound "=1", "=>" is "=" with bound ">1", ...
		func(r *RNG, p *Pool) string {
			op := r.Pick([]string{"==", "=>", "=<", "<>", "><", "!", "!==", ">==", "<<", ">>", "~", "^", "~>", "=!", "<=>", "=", ">=", "<="})
			return op + bound(r, p)
		},
		// operator with nothing after it, alone or between good constraints
		func(r *RNG, p *Pool) string {
			op := r.Pick([]string{">=", "<=", "!=", ">", "<", "=", ">= ", "< ", "!"})
			switch r.Intn(4) {
			case 0:
				return op
			case 1:
				return op + " " + bound(r, p)
			case 2:
				return ">=" + bound(r, p) + " " + op
			default:
				return op + r.Pick([]string{"\t", "\n", "  "}) + "<" + bound(r, p)
			}
		},
		// bounds NewVersion rejects (no digit, overflow): accepted as range, Contains false / true for none
		func(r *RNG, p *Pool) string {
			bad := r.Pick([]string{"abc", "x", "-r", "_p", "~", "1.0_rc9223372036854775808", "9223372036854775808",
				"1-r9223372036854775808", ".", "a.b", "-", "*"})
			op := r.Pick([]string{">=", "<=", "!=", ">", "<", "=", ""})
			if r.Chance(50) {
				return op + bad
			}
			if r.Chance(50) {
				return op + bad + " " + r.Pick([]string{">=", "<", "!=", ""}) + bound(r, p)
			}
			return r.Pick([]string{">=", "<", "!=", ""}) + bound(r, p) + " " + op + bad
		},
		// all whitespace kinds as separators, 1..4 constraints
		func(r *RNG, p *Pool) string {
			n := r.Range(1, 4)
			s := ""
			for i := 0; i < n; i++ {
				if i > 0 {
					s += r.Pick([]string{" ", "\t", "\n", "\r\n", " \t ", "\v", "\f", "   "})
				}
				s += r.Pick([]string{">=", "<=", "!=", ">", "<", "=", ""}) + bound(r, p)
			}
			return s
		},
		// other ecosystems' separators are part of the bound text here
		func(r *RNG, p *Pool) string {
			sep := r.Pick([]string{",", ", ", "||", " || ", " - ", " and ", ";", "|"})
			return r.Pick([]string{">=", ">", ""}) + bound(r, p) + sep + r.Pick([]string{"<", "<=", "!=", ""}) + bound(r, p)
		},
	)
}
