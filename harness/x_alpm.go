package main

// Extra generators for alpm: branches of NewVersion / splitToSegments / constraintPattern that
// the default generator seldom reaches (signed and overflowing epochs, several colons, hyphens
// inside pkgver, empty / overflowing pkgrel, runs of delimiters, case differences, alpha-numeric
// alternation, "and"-only ranges, stray operators, whitespace other than blanks).

import "strings"

var alpmAlpha = []string{"a", "b", "A", "B", "Z", "z", "alpha", "beta", "rc", "RC", "pre", "p", "git", "r", "ab", "aa"}
var alpmDelim = []string{".", ".", ".", "_", "+", "-", "..", "._", ".-", "-.", "--", "+_", ""}

func genAlpmPkgver(r *RNG) string {
	s := ""
	if r.Chance(8) {
		s += r.Pick(alpmDelim)
	}
	n := r.Range(1, 5)
	for i := 0; i < n; i++ {
		if i > 0 {
			s += r.Pick(alpmDelim)
		}
		switch r.Intn(8) {
		case 0:
			s += r.Pick(alpmAlpha)
		case 1:
			s += r.Num(3) + r.Pick(alpmAlpha)
		case 2:
			s += r.Pick(alpmAlpha) + r.Num(3)
		case 3:
			s += r.Num(1) + r.Pick(alpmAlpha) + r.Num(1) + r.Pick(alpmAlpha)
		default:
			s += r.Num(3)
		}
	}
	if r.Chance(10) {
		s += r.Pick(alpmDelim)
	}
	return s
}

func genAlpmX(r *RNG) string {
	s := ""
	switch k := r.Intn(100); {
	case k < 55:
	case k < 75:
		s = r.Num(3) + ":"
	case k < 85:
		s = r.Pick([]string{"+", "-", "+0", "-0", "-1", "+1", "0x1", "1 ", " 1", "a", "1a", "1.0", "9223372036854775808", "-9223372036854775808"}) + r.Pick([]string{"", "1", "0"}) + ":"
	case k < 92:
		s = r.Num(1) + ":" + r.Num(1) + ":"
	default:
		s = ":"
	}
	if r.Chance(4) {
		// empty pkgver
	} else {
		s += genAlpmPkgver(r)
	}
	switch k := r.Intn(100); {
	case k < 35:
	case k < 75:
		s += "-" + r.Num(3)
	case k < 80:
		s += "-"
	case k < 85:
		s += "-" + r.Num(1) + "-" + r.Num(1)
	case k < 90:
		s += "-" + r.Pick(alpmAlpha) + "-" + r.Num(1)
	case k < 94:
		s += "-" + r.Num(1) + r.Pick([]string{"a", ".", "_", "+", " ", ".1"})
	case k < 97:
		s += "--" + r.Num(1)
	default:
		s += r.Pick([]string{"@", "~", "!", " ", "/", "*", ":", "=", ">"}) + r.Num(0)
	}
	if r.Chance(5) {
		s = r.Pick([]string{" ", "\t", "\n", "  "}) + s
	}
	if r.Chance(5) {
		s += r.Pick([]string{" ", "\t", "\n", " \r\n"})
	}
	return s
}

// a neighbour of an existing string: same pkgver, other epoch / pkgrel spelling
func alpmNeighbour(r *RNG, b string) string {
	b = strings.TrimSpace(b)
	switch r.Intn(6) {
	case 0:
		if i := strings.LastIndex(b, "-"); i >= 0 {
			return b[:i]
		}
		return b + "-" + r.Num(1)
	case 1:
		if i := strings.LastIndex(b, "-"); i >= 0 {
			return b[:i] + "-" + r.Num(1)
		}
		return b + "-" + r.Num(1)
	case 2:
		if i := strings.Index(b, ":"); i >= 0 {
			return b[i+1:]
		}
		return r.Num(0) + ":" + b
	case 3:
		return strings.ToUpper(b)
	case 4:
		return strings.ReplaceAll(b, ".", r.Pick([]string{"_", "+", "..", ""}))
	default:
		return b + r.Pick([]string{".", "a", ".a", ".0", "0", "rc", "_", "-"})
	}
}

func init() {
	old := versionGens["alpm"]
	var last string
	versionGens["alpm"] = func(r *RNG) string {
		k := r.Intn(100)
		var s string
		switch {
		case k < 40:
			s = old(r)
		case k < 55 && last != "":
			s = alpmNeighbour(r, last)
		default:
			s = genAlpmX(r)
		}
		last = s
		return s
	}

	ops := []string{">=", "<=", ">", "<", "=", "", "==", "=>", "=<", "<>", "!=", ">>", "~", "^", ">=>", "<=="}
	seps := []string{" ", "  ", "\t", "\n", " and ", " AND ", " And ", " aNd ", " and and ", " , ", ","}
	bound := func(r *RNG, p *Pool) string {
		b := strings.TrimSpace(r.Pick(p.Strs))
		if r.Chance(25) {
			b = alpmNeighbour(r, b)
		}
		return b
	}
	extraRangeGens["alpm"] = append(extraRangeGens["alpm"],
		// odd operators, odd separators
		func(r *RNG, p *Pool) string {
			n := r.Range(1, 3)
			s := ""
			for i := 0; i < n; i++ {
				if i > 0 {
					s += r.Pick(seps)
				}
				s += r.Pick(ops) + bound(r, p)
			}
			return s
		},
		// operator separated from its bound, operators alone, "and" in odd places
		func(r *RNG, p *Pool) string {
			b := bound(r, p)
			return r.Pick([]string{
				r.Pick(ops) + " " + b,
				r.Pick(ops),
				"and",
				" AND  and ",
				"and " + r.Pick(ops) + b,
				r.Pick(ops) + b + " and",
				r.Pick(ops) + b + " andx " + b,
				r.Pick(ops) + "and",
				"and" + b,
				r.Pick(ops) + b + r.Pick(ops) + b,
				" " + r.Pick(ops) + b + "\t",
				r.Pick(ops) + b + " " + r.Pick(ops),
			})
		},
		// same bound with and without pkgrel / epoch: the mixed-class cases of Compare
		func(r *RNG, p *Pool) string {
			b := bound(r, p)
			c := alpmNeighbour(r, b)
			return r.Pick([]string{">=", "<=", ">", "<", "=", ""}) + b + r.Pick([]string{" ", " and "}) +
				r.Pick([]string{">=", "<=", ">", "<", "=", ""}) + c
		},
	)
}
