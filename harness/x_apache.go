package main

import "strings"

// Extra generators for apache: branches of apacheVersionPattern / constraintPattern the
// default generator does not reach (date qualifiers "v"+8 digits, letters after digits,
// qualifier-number overflow, leading zeros, wrong arity, operator-only fields, doubled operators).

var apacheQuals = []string{"alpha", "beta", "M", "m", "milestone", "Milestone", "MILESTONE", "RC", "rc", "Rc",
	"SNAPSHOT", "snapshot", "dev", "DEV", "foo", "final", "v", "V", "RCv", "betav", "x", "z", "milestones", "a"}

func genApacheX(r *RNG) string {
	n := 3
	if r.Chance(6) {
		n = r.Pick3(2, 4, 1)
	}
	s := r.Dotted(n, 3, ".")
	k := r.Intn(100)
	switch {
	case k < 20:
		// no qualifier
	case k < 45:
		s += "-" + r.Pick(apacheQuals)
		if r.Chance(70) {
			s += r.Num(3)
		}
	case k < 65: // date-style qualifiers
		s += "-" + r.Pick([]string{"v", "RCv", "rcv", "V", "betav", "snapshotv", "rc1v", "v1v"}) +
			r.Pick([]string{"20230415", "20230416", "20221231", "2023041", "202304150", "00000000", "99999999", "0", ""})
	case k < 75: // qualifier number at the int64 edge
		s += "-" + r.Pick([]string{"RC", "rc", "alpha", "foo", "v"}) + r.Pick(numsBig)
	case k < 85: // malformed tails
		s += r.Pick([]string{"-", "-1", "-rc-1", "-milestone-2", "-rc.1", "-rc1a", "-rc 1", "--rc", "-rc1-", ".rc1", "rc1", "_rc1", "-v2023041a", "+rc1", "-RC1 "})
	default:
		s += "-" + r.Case(r.Pick(apacheQuals)) + r.Pick([]string{"", "0", "00", "1", "01", "2", "10"})
	}
	return s
}

func (r *RNG) Pick3(a, b, c int) int {
	switch r.Intn(3) {
	case 0:
		return a
	case 1:
		return b
	}
	return c
}

func genApacheRangeX(r *RNG, p *Pool) string {
	b := func() string { return strings.TrimSpace(r.Pick(p.Strs)) }
	switch r.Intn(10) {
	case 0: // operator separated from its bound: the operator becomes a field of its own
		return r.Pick([]string{">=", "<=", ">", "<", "="}) + " " + b()
	case 1: // doubled / unsupported operators
		return r.Pick([]string{"==", ">==", "=>", "=<", "<>", "!=", "~", "^", ">>", "<<", "=>=", ">=="}) + b()
	case 2: // operator only
		return r.Pick([]string{">=", "<=", ">", "<", "=", "==", ">= ", " < "})
	case 3: // other whitespace as separator
		return r.Pick([]string{">=", ">", ""}) + b() + r.Pick([]string{"\t", "\n", "\r\n", " \t ", "\v", "\f"}) + r.Pick([]string{"<=", "<", "="}) + b()
	case 4: // comma (not a separator here)
		return ">=" + b() + r.Pick([]string{",", ", ", " , "}) + "<" + b()
	case 5: // three or four constraints
		s := ">=" + b() + " <=" + b() + " " + r.Pick([]string{">", "<", "=", ""}) + b()
		if r.Chance(40) {
			s += " " + b()
		}
		return s
	case 6: // interval around one version
		x := b()
		return r.Pick([]string{">=", ">"}) + x + " " + r.Pick([]string{"<=", "<"}) + x
	case 7: // bound glued to the next operator
		return ">=" + b() + "<" + b()
	case 8: // bound invalid as a version
		return r.Pick([]string{">=", "<", "="}) + r.Pick([]string{"1.2", "1.2.3.4", "1.2.3-", "1.2.3-1", "v1.2.3", "1.2.3-rc-1", "99999999999999999999.0.0", "1.2.3-rc99999999999999999999"})
	default:
		return r.Pick([]string{"=", ""}) + b() + " " + r.Pick([]string{"=", ""}) + b()
	}
}

func init() {
	old := versionGens["apache"]
	versionGens["apache"] = func(r *RNG) string {
		if r.Chance(40) {
			return genApacheX(r)
		}
		return old(r)
	}
	extraRangeGens["apache"] = append(extraRangeGens["apache"], genApacheRangeX)
}
