package main

import "strings"

// Extra generators for cargo: branches of version.go / range.go the default generators do not
// reach (numeric identifiers that overflow int64, leading zeros and signs in identifiers,
// build metadata shapes; partial / over-long caret and tilde bases, suffixes on partial bases,
// wildcard spellings, operator-only parts, empty comma parts, inner whitespace).

var cargoIds = []string{"0", "1", "2", "9", "10", "01", "001", "00", "-1", "-", "--", "a", "A", "b", "alpha", "alpha1",
	"beta", "rc", "rc1", "1a", "a1", "0a", "x", "X", "9223372036854775807", "9223372036854775808",
	"09223372036854775807", "18446744073709551616", "99999999999999999999", "0-0", "a-b", "Z", "z"}

func genCargoPre(r *RNG) string {
	n := r.Range(1, 3)
	if r.Chance(5) {
		n = r.Range(4, 5)
	}
	ids := make([]string, n)
	for i := range ids {
		if r.Chance(70) {
			ids[i] = r.Pick(cargoIds)
		} else {
			ids[i] = r.Num(3)
		}
	}
	return strings.Join(ids, ".")
}

func genCargoX(r *RNG) string {
	s := r.Dotted(3, 3, ".")
	if r.Chance(70) {
		s += "-" + genCargoPre(r)
	}
	if r.Chance(25) {
		s += "+" + genCargoPre(r)
	}
	if r.Chance(6) {
		s += r.Pick([]string{"-", "+", ".", "-a..b", "-.a", "+a+b", "-a+", "+a-b", "-a_b", " -a", "\n", "-a."})
	}
	if r.Chance(4) {
		s = r.Dotted(r.Pick2(1, 2, 4), 1, ".")
	}
	return s
}

func (r *RNG) Pick2(xs ...int) int { return xs[r.Intn(len(xs))] }

// a base for shorthand operators: arity 0..5, optional suffix on any arity
func cargoBase(r *RNG, p *Pool) string {
	b := strings.TrimSpace(r.Pick(p.Strs))
	core, suffix := b, ""
	if i := strings.IndexAny(b, "-+"); i >= 0 {
		core, suffix = b[:i], b[i:]
	}
	parts := strings.Split(core, ".")
	switch r.Intn(10) {
	case 0, 1:
		parts = parts[:1]
	case 2, 3:
		parts = parts[:2]
	case 4:
		parts = append(parts, r.Num(0))
	case 5:
		parts = append(parts, r.Pick([]string{"x", "", "0.0", "a-b", "*"}))
	case 6:
		parts = []string{r.Pick([]string{"0", "0", "1"}), r.Pick([]string{"0", "0", "2"}), r.Num(0)}
		parts = parts[:r.Range(1, 3)]
	}
	if r.Chance(45) {
		suffix = ""
	} else if suffix == "" && r.Chance(30) {
		suffix = "-" + genCargoPre(r)
	}
	return strings.Join(parts, ".") + suffix
}

func cargoOne(r *RNG, p *Pool) string {
	sp := r.Pick([]string{"", "", "", " ", "  ", "\t"})
	switch r.Intn(12) {
	case 0, 1:
		return "^" + sp + cargoBase(r, p)
	case 2, 3:
		return "~" + sp + cargoBase(r, p)
	case 4:
		b := cargoBase(r, p)
		return b + r.Pick([]string{"*", ".*", ".*", " *", "..*", ".*.*", "*.", "-*", ".x"})
	case 5:
		return r.Pick([]string{"*", "*", "**", "* ", ".*", "*.*", "1*", "0.*", "0.*", "0*", "0.0.*", "0.0*", "0-a*", "0-a.*", "0-a.b*", "0.0-a*", "1.2.3.*", "*.1", "^*", "~*", ">=*", "^1.*", "~1.2.*", ">=1.*"})
	case 6:
		return r.Pick(rangeSyn["cargo"].Ops) + sp + cargoBase(r, p)
	case 7:
		return r.Pick([]string{"^", "~", ">=", "<", "=", "!=", "!", "==1.0.0", "=>1.0.0", "<>1.0.0", "^^1.0.0", "~^1.0.0", "^~1", "~>1.0.0", "=^1.0.0", ">= ^1", "^>=1.0.0", "^=1.0.0", "~=1.0.0"})
	case 8:
		if r.Chance(60) {
			// partial bases with zeros in the leading positions, optional suffix
			b := r.Pick([]string{"0", "0.0", "0.0.0", "0.1", "0.0.1", "1", "1.0", "0.0.0.0", "0.0.0.1", "0."})
			if r.Chance(35) {
				b += r.Pick([]string{"-alpha", "-a.b", "-0", "+b", "-a.b.c", "-alpha+b.c"})
			}
			return r.Pick([]string{"^", "^", "~", "^ "}) + b
		}
		return r.Pick([]string{"^", "~", ""}) + "0.0." + r.Num(0)
	case 9:
		return r.Pick([]string{"^", "~", ""}) + "0." + r.Num(0) + r.Pick([]string{"", "." + r.Num(0), ".*"})
	default:
		op := r.Pick(rangeSyn["cargo"].Ops)
		return op + sp + strings.TrimSpace(r.Pick(p.Strs))
	}
}

func genCargoRange(r *RNG, p *Pool) string {
	n := 1
	if r.Chance(45) {
		n = r.Range(2, 3)
	}
	s := cargoOne(r, p)
	for i := 1; i < n; i++ {
		s += r.Pick([]string{",", ", ", " , ", ",,", ", ,", ",\t"}) + cargoOne(r, p)
	}
	if r.Chance(8) {
		s = r.Pick([]string{",", " ,", ""}) + s + r.Pick([]string{",", ", ", ""})
	}
	if r.Chance(3) {
		s = r.Pick([]string{",", ",,", " , ", "", " "})
	}
	return s
}

func init() {
	old := versionGens["cargo"]
	versionGens["cargo"] = func(r *RNG) string {
		if r.Chance(40) {
			return genCargoX(r)
		}
		return old(r)
	}
	// registered several times: extraRangeGens is used for a quarter of the draws only
	extraRangeGens["cargo"] = append(extraRangeGens["cargo"], genCargoRange)
}
