package main

// Additional generators for the composer ecosystem: branches of the version and range grammar
// that the default generators do not reach (branch names, odd stability suffixes, build parts,
// int64 overflow in every position; tilde arities, signed wildcards, stability flags, malformed
// hyphen ranges, empty OR groups, caret bases with major/minor 0).

import "strings"

var cmpStabWords = []string{"alpha", "beta", "RC", "a", "b", "rc", "dev", "patch", "pl", "p", "stable", "Alpha", "BETA", "Rc", "rC", "DEV", "Patch", "PL"}

var cmpBranches = []string{
	"main", "master", "develop", "development", "trunk", "stable", "staging", "production", "prod",
	"Main", "mainx", "main.x", "main-1.0", "main/1.0", "prod.", "trunk-dev",
	"feature/", "feature-", "feature/x", "feature-x", "feat/a.b", "feat-1.0", "bugfix/1", "fix-", "fix-a", "hotfix/x.y",
	"patch/1", "patch-1", "patch-", "release/1.0", "release-1.0.x", "rel/2", "rel-2", "chore/x", "docs-x", "doc/x", "doc-",
	"refactor/a", "style-a", "style/", "Feature/x", "xfeature/x",
	"1.x-dev", "2.0.x-dev", "-dev", "a-dev", "x-dev", "1.0.x-dev", "a.b-dev", "a.b", "a.b/c", "a.b-c", "1.0-dev", "1.x", "1.0.x",
	"dev", "dev-", "dev-a", "dev-1.0", "dev-main", "dev-a\nb", "dev-\n", "dev-a b", "dev--dev", "Dev-a", "dev-dev-x", "dev-\ta",
	"a\n-dev", "a -dev", "=1.0-dev", ">1.x-dev", "1.0@-dev",
}

func cmpNum(r *RNG) string {
	if r.Chance(12) {
		return r.Pick(numsBig)
	}
	if r.Chance(6) {
		return r.Pick(numsZero)
	}
	return r.Num(1)
}

func genComposerX(r *RNG) string {
	k := r.Intn(100)
	switch {
	case k < 25:
		return r.Pick(cmpBranches)
	case k < 32:
		// prefix + tail / tail + -dev
		if r.Chance(50) {
			return r.Pick([]string{"feature/", "fix-", "rel-", "docs/", "style-", "hotfix-"}) + r.Pick([]string{"", "x", "1.0", "a.b", "1", "-dev"})
		}
		return r.Pick([]string{"1.x", "a", "", "1.0.x", "v1", "x.y", "1", "1.0"}) + "-dev"
	}
	// semantic shape with unusual pieces
	s := r.Pick([]string{"", "", "", "v", "v", "V", "vv", "v."})
	n := r.Range(1, 4)
	if r.Chance(15) {
		n = r.Range(5, 7)
	}
	parts := make([]string, n)
	for i := range parts {
		parts[i] = cmpNum(r)
	}
	s += strings.Join(parts, ".")
	if r.Chance(5) {
		s += "."
	}
	if r.Chance(70) {
		switch r.Intn(5) {
		case 0, 1:
			s += "-" + r.Pick(cmpStabWords)
			if r.Chance(70) {
				s += r.Pick([]string{"", ".", ".", "-", "..", "_"}) + cmpNum(r)
			} else if r.Chance(15) {
				s += "."
			}
		case 2, 3:
			s += r.Pick(cmpStabWords)
			if r.Chance(70) {
				s += r.Pick([]string{"", "", "", ".", "-"}) + cmpNum(r)
			}
		case 4:
			s += r.Pick([]string{"-", ".", "_", "+"}) + r.Pick(cmpStabWords) + r.Pick([]string{"", "1", ".1"})
		}
	}
	if r.Chance(25) {
		s += "+" + r.Pick([]string{"build", "1", "a.b", "", ".", "a..b", "a.b-c", "-", "a+b", ".a", "a.", "a_b", "A-Z.0", "a b"})
	}
	return s
}

// numeric core of a pool version: up to three numeric components, defaults 1.2.3
func cmpCore(r *RNG, p *Pool) []string {
	b := strings.TrimSpace(r.Pick(p.Strs))
	b = strings.TrimPrefix(b, "v")
	out := []string{}
	for _, f := range strings.Split(b, ".") {
		i := 0
		for i < len(f) && f[i] >= '0' && f[i] <= '9' {
			i++
		}
		if i == 0 {
			break
		}
		out = append(out, f[:i])
		if i < len(f) || len(out) == 3 {
			break
		}
	}
	if len(out) == 0 {
		out = []string{r.Num(0)}
	}
	return out
}

func cmpSuffix(r *RNG) string {
	if r.Chance(55) {
		return ""
	}
	return r.Pick([]string{"-alpha", "-beta.1", "-RC1", "b1", "a", "rc2", "-dev", "dev", "-patch1", "pl2", "-rc.3", "beta", "+b", "-beta+x.y"})
}

// a base "M.m.p" variant: zeroed leading components so that the 0.x / 0.0.x caret branches are reached
func cmpBase(r *RNG, p *Pool) string {
	c := cmpCore(r, p)
	for len(c) < 3 && r.Chance(70) {
		c = append(c, r.Num(0))
	}
	if r.Chance(40) {
		c[0] = "0"
		if len(c) > 1 && r.Chance(50) {
			c[1] = "0"
		}
	}
	if r.Chance(8) {
		c[r.Intn(len(c))] = r.Pick([]string{"9223372036854775807", "9223372036854775806", "9223372036854775808"})
	}
	if r.Chance(30) {
		c = c[:r.Range(1, len(c))]
	}
	if r.Chance(10) {
		// ^0, ^0.0 and friends: unwritten components
		return r.Pick([]string{"0", "0.0", "v0", "v0.0", "00.0", "0.00", "0.0.0", "0.0.0.0"})
	}
	return strings.Join(c, ".")
}

func cmpBound(r *RNG, p *Pool) string {
	if r.Chance(50) {
		return strings.TrimSpace(r.Pick(p.Strs))
	}
	return cmpBase(r, p) + cmpSuffix(r)
}

var cmpFlags = []string{"dev", "alpha", "a", "beta", "b", "RC", "rc", "stable", "", "Dev", "patch", "pl", "x", "dev ", " dev", "1"}

func init() {
	old := versionGens["composer"]
	versionGens["composer"] = func(r *RNG) string {
		if r.Chance(35) {
			return genComposerX(r)
		}
		return old(r)
	}
	ops := []string{">=", "<=", "!=", "<>", ">", "<", "=", "==", "", "=>", "=<", "!", "~=", "^=", "><"}
	one := func(r *RNG, p *Pool) string {
		switch r.Intn(9) {
		case 0:
			return "^" + cmpBase(r, p) + cmpSuffix(r)
		case 1:
			return "~" + cmpBase(r, p) + cmpSuffix(r)
		case 2:
			return r.Pick(ops) + cmpBound(r, p)
		case 3:
			return cmpBase(r, p) + "." + r.Pick([]string{"*", "x"})
		case 4:
			return r.Pick([]string{"^", "~"}) + r.Pick(cmpBranches)
		case 5:
			return cmpBound(r, p) + "@" + r.Pick(cmpFlags)
		default:
			return r.Pick(ops) + strings.TrimSpace(r.Pick(p.Strs))
		}
	}
	extraRangeGens["composer"] = append(extraRangeGens["composer"],
		// stability flags behind a comparator, alone and inside a conjunction (>=1.0@beta <2.0)
		func(r *RNG, p *Pool) string {
			flag := "@" + r.Pick([]string{"dev", "alpha", "beta", "RC", "stable", "rc", "Beta"})
			op := r.Pick([]string{">=", ">", "<", "<=", "", "=", "^", "~"})
			s := op + cmpBase(r, p) + flag
			if r.Chance(50) {
				s += r.Pick([]string{" ", ","}) + r.Pick([]string{"<", "<=", ">="}) + cmpBase(r, p)
			}
			return s
		},
		// caret over crafted bases
		func(r *RNG, p *Pool) string {
			return "^" + r.Pick([]string{"", "", "", "v", " ", "\t", "="}) + cmpBase(r, p) + cmpSuffix(r)
		},
		// tilde: arity is the number of dot-separated parts of the raw text (suffix included)
		func(r *RNG, p *Pool) string {
			return "~" + r.Pick([]string{"", "", "", "v", "\t", ">"}) + cmpBase(r, p) + cmpSuffix(r)
		},
		// wildcards: signed / malformed numbers, position, trailing garbage
		func(r *RNG, p *Pool) string {
			c := cmpCore(r, p)
			w := r.Pick([]string{"*", "x", "*", "x", "X", "**", "x1", ""})
			sign := r.Pick([]string{"", "", "", "+", "-", "v", " ", ">=", "0"})
			var s string
			switch r.Intn(7) {
			case 0:
				s = w + "." + c[0]
			case 1, 2:
				s = sign + c[0] + "." + w
			case 3, 4:
				m := r.Num(0)
				if len(c) > 1 {
					m = c[1]
				}
				s = sign + c[0] + "." + r.Pick([]string{"", "", "+", "-", "a"}) + m + "." + w
			case 5:
				s = sign + strings.Join(c, ".") + "." + r.Num(0) + "." + r.Num(0) + "." + w
			default:
				s = sign + r.Pick([]string{"9223372036854775807", "9223372036854775808", "1.9223372036854775807", "9223372036854775807.9223372036854775807", "-9223372036854775808", "-0", "+0.+0"}) + "." + w
			}
			if r.Chance(30) {
				s += r.Pick([]string{".*", ".x", ".1", ".garbage", "-dev", ".", "@dev", ".^", "..x"})
			}
			return s
		},
		// stability flags
		func(r *RNG, p *Pool) string {
			f := r.Pick(cmpFlags)
			switch r.Intn(8) {
			case 0:
				return "@" + f
			case 1:
				return r.Pick(ops) + "@" + f
			case 2:
				return r.Pick(ops) + cmpBound(r, p) + "@" + f
			case 3:
				return cmpBound(r, p) + r.Pick([]string{"@", "\t@", "@\t", " @", "@ "}) + f
			case 4:
				return cmpBound(r, p) + "@" + f + "@" + r.Pick(cmpFlags)
			case 5:
				return r.Pick([]string{"^", "~"}) + cmpBound(r, p) + "@" + f
			case 6:
				return cmpBase(r, p) + "." + r.Pick([]string{"*", "x"}) + "@" + f
			default:
				return cmpBase(r, p) + "@" + f
			}
		},
		// hyphen ranges, well-formed and not
		func(r *RNG, p *Pool) string {
			a, b := cmpBound(r, p), cmpBound(r, p)
			switch r.Intn(10) {
			case 0:
				return a + " - " + b + " -"
			case 1:
				return a + " -  - " + b
			case 2:
				return " - " + b
			case 3:
				return a + " - " + b + " - " + cmpBound(r, p)
			case 4:
				return a + "\t- " + b
			case 5:
				return a + " - " + r.Pick([]string{">=", "^", "~", "<"}) + b
			case 6:
				return a + " - " + b + r.Pick([]string{" ", ",", " || ", "||"}) + one(r, p)
			case 7:
				return a + "  -  " + b
			case 8:
				return a + " - \t" + b + r.Pick([]string{"", "\t-"})
			default:
				return a + " - " + b
			}
		},
		// AND / OR structure with empty members
		func(r *RNG, p *Pool) string {
			sepA := []string{" ", ",", ", ", " , ", "  ", ",,", "\t", " \t", "\n"}
			sepO := []string{"||", " || ", "|||", "||||", "|| ||", " ||", "|| ", "|"}
			grp := func() string {
				switch r.Intn(12) {
				case 0:
					return ""
				case 1:
					return r.Pick([]string{",", " , ", ",,", "*", "* *", "*,", ", *"})
				}
				s := one(r, p)
				for r.Chance(40) {
					s += r.Pick(sepA) + one(r, p)
				}
				if r.Chance(6) {
					s = r.Pick(sepA) + s
				}
				if r.Chance(6) {
					s += r.Pick(sepA)
				}
				return s
			}
			s := grp()
			for r.Chance(45) {
				s += r.Pick(sepO) + grp()
			}
			return s
		},
		// operators with inner whitespace / doubled operators
		func(r *RNG, p *Pool) string {
			return r.Pick(ops) + r.Pick([]string{"", " ", "\t", "=", ">", "\n", "  "}) + cmpBound(r, p)
		},
		one,
	)
}
