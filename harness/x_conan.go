package main

import "strings"

// Additional conan generators: grammar branches the default generators rarely reach
// (leading-zero identifiers, hyphenated identifiers, build metadata, saturating numbers,
// zero-led versions for ^, operator/operand re-pairing, odd whitespace, || and comma mixes).

var conanBigs = []string{"9223372036854775806", "9223372036854775807", "9223372036854775808",
	"18446744073709551616", "99999999999999999999", "09223372036854775807"}

func conanPart(r *RNG) string {
	switch r.Intn(14) {
	case 0:
		return r.Pick([]string{"a", "b", "rc", "x", "z", "A"})
	case 1:
		return r.Num(0) + r.Pick([]string{"a", "b", "rc1", "a1", "A", "0a"})
	case 2:
		return "0" + r.Num(0) // leading zero: naturally equal to the number itself
	case 3:
		return r.Pick(conanBigs)
	case 4:
		return r.Pick(conanBigs) + r.Pick([]string{"a", "b"})
	case 5, 6:
		return "0"
	default:
		return r.Num(1)
	}
}

var conanIds = []string{"alpha", "beta", "rc", "a", "b", "0", "1", "2", "10", "11", "-", "--", "-1", "1-", "a-b", "0a", "00a", "x",
	"9223372036854775807", "9223372036854775808", "99999999999999999999", "RC", "Alpha"}
var conanBadIds = []string{"00", "01", "007", "", "_", "a_b", "1+"}

func conanIdents(r *RNG) string {
	n := r.Range(1, 3)
	ids := make([]string, n)
	for i := range ids {
		if r.Chance(6) {
			ids[i] = r.Pick(conanBadIds)
		} else if r.Chance(30) {
			ids[i] = r.Num(1)
		} else {
			ids[i] = r.Pick(conanIds)
		}
	}
	return strings.Join(ids, ".")
}

func genConanX(r *RNG) string {
	var parts []string
	switch r.Intn(6) {
	case 0: // zero-led (caret classes)
		n := r.Range(1, 5)
		z := r.Range(1, n)
		for i := 0; i < n; i++ {
			if i < z {
				parts = append(parts, r.Pick([]string{"0", "0", "0", "00"}))
			} else {
				parts = append(parts, r.Num(0))
			}
		}
	case 1: // long
		n := r.Range(4, 6)
		for i := 0; i < n; i++ {
			parts = append(parts, conanPart(r))
		}
	default:
		n := r.Range(1, 4)
		for i := 0; i < n; i++ {
			parts = append(parts, conanPart(r))
		}
	}
	s := strings.Join(parts, ".")
	if r.Chance(3) {
		s = strings.Replace(s, ".", "..", 1)
	}
	if r.Chance(45) {
		s += "-" + conanIdents(r)
	}
	if r.Chance(20) {
		s += "+" + conanIdents(r)
	}
	if r.Chance(3) {
		s += r.Pick([]string{"+", "-", "+a+b", ".", "\v", "\f"})
	}
	if r.Chance(4) {
		s = r.Pick([]string{"\v", "\f", " \v ", "v", "."}) + s
	}
	return s
}

var conanOps = []string{">=", ">", "<=", "<", "~", "^", "!=", "="}
var conanWS = []string{" ", " ", " ", "  ", "\t", "\n", "\v", "\f", " \v", "\v ", "\r"}

func conanBound(r *RNG, p *Pool) string {
	b := strings.TrimSpace(r.Pick(p.Strs))
	if r.Chance(15) {
		b = genConanX(r)
	}
	if r.Chance(25) {
		b = partial(r, b)
	}
	if r.Chance(8) {
		b = strings.ToUpper(b)
	}
	return b
}

// tokens (operators, versions, glued pairs) separated by assorted whitespace, commas and ||
func genConanTokens(r *RNG, p *Pool) string {
	n := r.Range(1, 6)
	var sb strings.Builder
	if r.Chance(10) {
		sb.WriteString(r.Pick(conanWS))
	}
	for i := 0; i < n; i++ {
		if i > 0 {
			switch k := r.Intn(20); {
			case k < 12:
				sb.WriteString(r.Pick(conanWS))
			case k < 15:
				sb.WriteString(r.Pick([]string{",", ", ", " ,", " , ", ",,", ",\v"}))
			case k < 18:
				sb.WriteString(r.Pick([]string{"||", " || ", "|| ", " ||", "||||", "|| ||", "|||", " | "}))
			default: // nothing: glued
			}
		}
		switch k := r.Intn(10); {
		case k < 3:
			sb.WriteString(r.Pick(conanOps))
		case k < 7:
			sb.WriteString(conanBound(r, p))
		case k < 9:
			sb.WriteString(r.Pick(conanOps) + conanBound(r, p))
		default:
			sb.WriteString(r.Pick([]string{"=>", "==", "<>", "~>", "~=", "^^", ">=<", "!", "*", ">==", "<=="}) + conanBound(r, p))
		}
	}
	if r.Chance(10) {
		sb.WriteString(r.Pick([]string{" ", ",", "||", " ||", "\v", " >=", " ~"}))
	}
	return sb.String()
}

// ~ and ^ on bounds close to the probes: bound = prefix of a pool version, possibly with
// its last part changed or zeros put in front
func genConanShort(r *RNG, p *Pool) string {
	b := strings.TrimSpace(r.Pick(p.Strs))
	core, suffix := b, ""
	if i := strings.IndexAny(b, "-+"); i >= 0 {
		core, suffix = b[:i], b[i:]
	}
	parts := strings.Split(core, ".")
	if len(parts) > 1 && r.Chance(50) {
		parts = parts[:r.Range(1, len(parts))]
	}
	switch r.Intn(6) {
	case 0:
		parts[len(parts)-1] = r.Num(0)
	case 1:
		parts = append(parts, r.Pick([]string{"0", "0", "1", "a"}))
	case 2:
		parts[0] = r.Pick([]string{"0", "00", "0a"})
	case 3:
		if len(parts) > 1 {
			parts[1] = r.Pick([]string{"0", "00", "0b"})
		}
	}
	if r.Chance(70) {
		suffix = ""
	}
	op := r.Pick([]string{"~", "^", "^", "~ ", "^ ", "^\t"})
	s := op + strings.Join(parts, ".") + suffix
	if r.Chance(30) {
		s += r.Pick([]string{" ", ",", ", ", " || "}) + r.Pick([]string{"<", "<=", "!=", ">", "^", "~"}) + r.Pick([]string{"", " "}) + conanBound(r, p)
	}
	return s
}

func init() {
	old := versionGens["conan"]
	versionGens["conan"] = func(r *RNG) string {
		if r.Chance(40) {
			return genConanX(r)
		}
		return old(r)
	}
	extraRangeGens["conan"] = append(extraRangeGens["conan"], genConanTokens, genConanShort, genConanShort)
}
