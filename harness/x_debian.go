package main

import "strings"

// Additional generators for the debian ecosystem: branches of versionPattern
// ^(?:(\d+):)?(.+?)(?:-([^-]+))?$ and of compareDebianVersionString that genDebLike rarely reaches.

var xdebEpochs = []string{"0", "00", "1", "01", "2", "10", "2147483647", "2147483648",
	"9223372036854775807", "9223372036854775808", "18446744073709551616", "0000000000000000000001"}
var xdebNonDigit = []string{"~", "~~", "~a", "a", "A", "z", "Z", "a~", "+", ".", "-", "..", ".~", "+~", "ab", "aB", "b", ".a", "a.", "~.", "rc", "~rc"}
var xdebRevs = []string{"0", "00", "1", "01", "~", "~1", "a", "+", ".", "0.", "1a", "0a", "1~", "0~", "0+", "2147483648", "99999999999999999999", "99999999999999999998"}

func xdebUpstream(r *RNG) string {
	s := r.Pick([]string{"0", "1", "00", "01", "1", "2", "10", "99999999999999999999", "99999999999999999998", "100000000000000000000"})
	n := r.Range(0, 3)
	for i := 0; i < n; i++ {
		s += r.Pick(xdebNonDigit)
		if r.Chance(70) {
			s += r.Pick([]string{"0", "1", "00", "01", "001", "2", "10", "9", ""})
		}
	}
	return s
}

func genDebianX(r *RNG) string {
	switch r.Intn(10) {
	case 0: // epoch variants, several colons, empty parts
		return r.Pick(xdebEpochs) + ":" + r.Pick([]string{"", ":", "1:", "a", "-1", "1", "1-1", "1:1"}) + r.Pick([]string{"", xdebUpstream(r)})
	case 1: // hyphen placement
		return r.Pick([]string{"", "1:", "-"}) + xdebUpstream(r) + r.Pick([]string{"-", "--", "--1", "-1-", "-1-2", "-1--2", "-a-", "-~-0", "-0-0", "-0-"})
	case 2: // interior newline / other control bytes
		u := xdebUpstream(r)
		i := r.Intn(len(u) + 1)
		return r.Pick([]string{"", "1:"}) + u[:i] + r.Pick([]string{"\n", "\n", "\r", "\x00", " ", "\t", "_", ":"}) + u[i:] + r.Pick([]string{"", "-1", "-\n1", "-1\n2"})
	case 3, 4, 5: // close neighbours in the order
		return r.Pick([]string{"", "", "0:", "1:", "00:"}) + xdebUpstream(r) + r.Pick([]string{"", "", "-" + r.Pick(xdebRevs)})
	case 6: // native vs revision 0 family
		return r.Pick([]string{"1", "1.0", "1a"}) + r.Pick([]string{"", "-0", "-00", "-", "-0.", "-0~", "-~", "-0a", "-0+", "-1", "-.", "-a"})
	case 7: // letters / case / non-letters
		return "1" + r.Pick([]string{"a", "A", "z", "Z", "+", ".", "~", "-", "aa", "a+", "a.", "a~", "aA", "Aa"}) + r.Pick([]string{"", "0", "1", "-1"})
	default: // digit runs: leading zeros and long equal-length numbers
		return "1." + r.Pick([]string{"0", "00", "", "1", "01", "10", "010", "18446744073709551615", "18446744073709551616", "018446744073709551616", "99999999999999999999", "99999999999999999998"}) + r.Pick([]string{"", "a", ".", "~", "-1"})
	}
}

func init() {
	old := versionGens["debian"]
	versionGens["debian"] = func(r *RNG) string {
		if r.Chance(35) {
			return genDebianX(r)
		}
		return old(r)
	}
	ops := []string{">=", "<=", ">>", "<<", "!=", ">", "<", "=", ""}
	extraRangeGens["debian"] = append(extraRangeGens["debian"],
		// doubled / mixed operator characters, operator only, spaces inside
		func(r *RNG, p *Pool) string {
			b := strings.TrimSpace(r.Pick(p.Strs))
			return r.Pick([]string{">>>", "<<<", ">>=", "<<=", "=>", "=<", "==", "!==", "!", "! =", "> >", "< <", "> =", "<>", "><", "=!", ">=<", "~", "^", "(", "(>= ", ">=("}) +
				r.Pick([]string{"", " ", "  ", "\t"}) + r.Pick([]string{b, b, ""})
		},
		// separators: empty parts, trailing/leading commas, blanks around commas, other separators
		func(r *RNG, p *Pool) string {
			one := func() string {
				op := r.Pick(ops)
				if op != "" && r.Chance(40) {
					op += r.Pick([]string{" ", "  ", "\t", "\n"})
				}
				return op + strings.TrimSpace(r.Pick(p.Strs))
			}
			s := r.Pick([]string{"", "", ",", " ,", ", ", ",,"}) + one()
			n := r.Range(0, 3)
			for i := 0; i < n; i++ {
				s += r.Pick([]string{",", ", ", " , ", ",,", ", ,", ",\t", " ", " | ", ";", "\n,"}) + one()
			}
			return s + r.Pick([]string{"", "", ",", ", ", " ,", ",,"})
		},
		// only separators / operators
		func(r *RNG, p *Pool) string {
			return r.Pick([]string{",", ",,", " , ", ">=", ">>", "<<", "<< ", "=", ",=", "=,", ">=,1", "1,>=", "1,,2", ", ,1"})
		},
		// bounds that are themselves odd versions (own generator, not only the pool)
		func(r *RNG, p *Pool) string {
			op := r.Pick(ops)
			if r.Chance(30) {
				op += " "
			}
			s := op + genDebianX(r)
			if r.Chance(40) {
				s += r.Pick([]string{",", ", "}) + r.Pick(ops) + strings.TrimSpace(r.Pick(p.Strs))
			}
			return s
		},
		// tight intervals around one bound
		func(r *RNG, p *Pool) string {
			b := strings.TrimSpace(r.Pick(p.Strs))
			return r.Pick([]string{">=", ">>", ">"}) + b + r.Pick([]string{",", ", "}) + r.Pick([]string{"<=", "<<", "<", "!=", "="}) + b + r.Pick([]string{"", "~", "+", "-0", "a", ".0"})
		},
	)
}
