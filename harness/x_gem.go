package main

import "strings"

// x_gem.go: generators reaching the corners of the gem grammar that genGem does not:
// several '-' / '+' blocks, blocks holding '.', '-' and signed numbers (".-5", ".+5"),
// the strings.Contains(version, "-"+part) separator quirk of canonicalizeVersion,
// numbers beyond int64 (they become string segments), trailing zero segments, and for
// ranges the "~>" operator with bounds of every shape (v prefix, prerelease, early '-').

var gemLetters = []string{"a", "b", "rc", "RC", "pre", "PRE", "beta", "alpha", "x", "z", "Pre", "prf", "o"}
var gemNums = []string{"0", "00", "1", "2", "5", "10", "11", "01", "9223372036854775807", "9223372036854775808", "99999999999999999999", "0"}

func gemXTok(r *RNG) string {
	switch r.Intn(10) {
	case 0, 1, 2:
		return r.Pick(gemLetters)
	case 3, 4, 5:
		return r.Pick(gemNums)
	case 6:
		return r.Pick(gemLetters) + r.Pick(gemNums)
	case 7:
		return r.Pick(gemNums) + r.Pick(gemLetters)
	case 8:
		return r.Pick(gemLetters) + r.Pick(gemNums) + r.Pick(gemLetters)
	default:
		return r.Num(3)
	}
}

func gemXBlock(r *RNG) string {
	n := r.Range(1, 3)
	s := ""
	if r.Chance(12) {
		s = r.Pick([]string{".", "-", "..", ".-", "-."})
	}
	for i := 0; i < n; i++ {
		if i > 0 {
			s += r.Pick([]string{".", ".", ".", "-", "..", ".-", "-.", ""})
		}
		s += gemXTok(r)
	}
	if r.Chance(12) {
		s += r.Pick([]string{".", "-", ".0", ".00", "-0", ".-0"})
	}
	return s
}

func genGemX(r *RNG) string {
	s := r.Pick([]string{"", "", "", "v", "vv", "V"})
	n := r.Range(1, 4)
	for i := 0; i < n; i++ {
		if i > 0 {
			s += "."
		}
		if r.Chance(35) {
			s += r.Pick(gemNums)
		} else {
			s += r.Num(3)
		}
	}
	if r.Chance(30) {
		s += r.Pick([]string{".0", ".0.0", ".00", ".0.0.0"})
	}
	if r.Chance(35) {
		k := r.Range(1, 3)
		for i := 0; i < k; i++ {
			s += "." + r.Pick(gemLetters)
			if r.Chance(50) {
				s += r.Pick(gemNums)
			}
		}
		if r.Chance(10) {
			s += "." + r.Pick(gemNums) // invalid: number after letters in the main part
		}
	}
	nb := 0
	switch k := r.Intn(100); {
	case k < 25:
		nb = 0
	case k < 65:
		nb = 1
	case k < 90:
		nb = 2
	default:
		nb = 3
	}
	var blocks []string
	for i := 0; i < nb; i++ {
		var b string
		if len(blocks) > 0 && r.Chance(30) {
			// repeat (a prefix / suffix of) an earlier block: exercises Contains(version, "-"+part)
			prev := blocks[r.Intn(len(blocks))]
			switch r.Intn(3) {
			case 0:
				b = prev
			case 1:
				b = prev[:r.Range(1, len(prev))]
			default:
				b = prev + r.Pick([]string{"1", "a", ".1"})
			}
		} else {
			b = gemXBlock(r)
		}
		blocks = append(blocks, b)
		s += r.Pick([]string{"-", "-", "+", "+", "--", "+-", "-+", "++"}) + b
	}
	return s
}

func gemBound(r *RNG, p *Pool) string {
	b := strings.TrimSpace(r.Pick(p.Strs))
	switch r.Intn(10) {
	case 0:
		return b
	case 1:
		return partial(r, b)
	case 2:
		return partial(r, b) + r.Pick([]string{".0", ".0.0", ".1", ".rc1", "-rc1", "-1", ".a", "+1", "+a"})
	case 3:
		if !strings.HasPrefix(b, "v") {
			return "v" + b
		}
		return b
	case 4:
		// same numeric head as another pool element, different precision
		q := strings.Split(strings.TrimPrefix(b, "v"), ".")
		k := r.Range(1, len(q))
		return strings.Join(q[:k], ".") + r.Pick([]string{"", ".0", ".0.0", ".5", ".x"})
	case 5:
		return r.Dotted(r.Range(1, 5), 0, ".")
	case 6:
		return genGemX(r)
	case 7:
		return r.Dotted(r.Range(1, 3), 0, ".") + r.Pick([]string{"-a.b.c", "-1.2.3", "-a-b.c", ".a.b", "-.1.2", "+1.2", "+a.1"})
	default:
		return b
	}
}

func genGemRangeX(r *RNG, p *Pool) string {
	one := func() string {
		op := r.Pick([]string{"~>", "~>", "~>", "~>", "~> ", "~>  ", ">=", "<", "!=", "=", "", "<= ", "> ", "~", "~>~>", "~>>=", ">=~>", "=="})
		return op + gemBound(r, p)
	}
	n := 1
	if r.Chance(40) {
		n = r.Range(2, 3)
	}
	s := one()
	for i := 1; i < n; i++ {
		s += r.Pick([]string{",", ", ", " , ", ",,", ", ,"}) + one()
	}
	if r.Chance(5) {
		s += r.Pick([]string{",", " ,", ",~>", ",>="})
	}
	return s
}

// pessimistic ranges whose bound is built from a pool version so that Contains is often true
func genGemPessNear(r *RNG, p *Pool) string {
	b := strings.TrimSpace(r.Pick(p.Strs))
	head := b
	if i := strings.IndexAny(head, "-+"); i >= 0 {
		head = head[:i]
	}
	q := strings.Split(head, ".")
	k := r.Range(1, len(q))
	q = q[:k]
	if r.Chance(50) {
		q[k-1] = r.Pick([]string{"0", "1", "0", q[k-1]})
	}
	s := strings.Join(q, ".")
	if r.Chance(30) {
		s += r.Pick([]string{".0", ".0.0", ".a", "-a", ".0.a", "-0", "+0", ".rc1"})
	}
	return r.Pick([]string{"~>", "~> "}) + s
}

func init() {
	old := versionGens["gem"]
	versionGens["gem"] = func(r *RNG) string {
		if r.Chance(40) {
			return genGemX(r)
		}
		return old(r)
	}
	extraRangeGens["gem"] = append(extraRangeGens["gem"], genGemRangeX, genGemPessNear)
}
