package main

import "strings"

// Extra generators for gentoo: branches of versionPattern / parseRange the default generators
// do not reach (component-count limit, letter class, suffix alternation order, empty or
// over-long digit runs, misplaced groups; separator and operator corner cases in ranges).

var gentooSuffixes = []string{"alpha", "beta", "pre", "rc", "p"}
var gentooBadSuffixes = []string{"ALPHA", "Alpha", "alph", "alphaa", "bet", "beta_", "pr", "pree", "r", "rcc", "RC", "P", "pp",
	"prerc", "p_p", "post", "dev", "a", "b", "", "_p", "cvs", "git"}
var gentooLetters = []string{"a", "b", "z", "A", "Z", "m", "r", "p", "_", "ab", "a1", "1a"}
var gentooNums = []string{"0", "1", "2", "10", "00", "01", "007", "0000000000000000000001", "9223372036854775807",
	"9223372036854775808", "09223372036854775807", "18446744073709551616", "99999999999999999999", "2147483648", "4294967296"}

func gentooNum(r *RNG) string {
	if r.Chance(45) {
		return r.Pick(gentooNums)
	}
	return r.Num(3)
}

func genGentooX(r *RNG) string {
	// number of components: around the {0,10} limit as well as small
	n := r.Range(1, 4)
	switch {
	case r.Chance(12):
		n = r.Range(10, 13)
	case r.Chance(10):
		n = r.Range(5, 9)
	}
	parts := make([]string, n)
	for i := range parts {
		if n > 6 {
			parts[i] = r.Pick([]string{"0", "1", "2", "0", "00", "10"})
		} else {
			parts[i] = gentooNum(r)
		}
	}
	s := strings.Join(parts, ".")
	if r.Chance(6) {
		s = r.Pick([]string{s + ".", "." + s, strings.Replace(s, ".", "..", 1), s + ".a", "-" + s, "+" + s, "v" + s, s + ".-1"})
	}
	if r.Chance(35) {
		s += r.Pick(gentooLetters)
	}
	suffix := func() string {
		t := "_"
		if r.Chance(85) {
			t += r.Pick(gentooSuffixes)
		} else {
			t += r.Pick(gentooBadSuffixes)
		}
		if r.Chance(65) {
			t += gentooNum(r)
		}
		return t
	}
	rev := func() string {
		switch {
		case r.Chance(80):
			return "-r" + gentooNum(r)
		default:
			return r.Pick([]string{"-r", "-R1", "-r-1", "-r1a", "-r 1", "-1", "r1", "_r1", "-r1.2", "-rc1", "-r+1", "--r1", "-r1-r2"})
		}
	}
	k := r.Intn(100)
	switch {
	case k < 40:
		s += suffix()
	case k < 55:
		s += suffix() + rev()
	case k < 70:
		s += rev()
	case k < 76: // wrong order / repeated groups
		s += r.Pick([]string{rev() + suffix(), suffix() + suffix(), suffix() + r.Pick(gentooLetters), rev() + r.Pick(gentooLetters)})
	}
	return s
}

// close neighbours: pairs that Compare must order by one specific step
var gentooNeighbours = []string{
	"1", "1.0", "1.0.0", "1.0.0.0.0.0.0.0.0.0.0", "1.0.0.0.0.0.0.0.0.0.1", "01.00", "1.0a", "1.0A", "1.0z", "1.0Z",
	"1.0_alpha", "1.0_alpha0", "1.0_alpha1", "1.0_beta", "1.0_pre", "1.0_pre0", "1.0_rc", "1.0_rc01", "1.0_p", "1.0_p0", "1.0_p1",
	"1.0-r0", "1.0-r1", "1.0-r01", "1.0_p-r1", "1.0_p0-r1", "1.0_p1-r0", "1.0a_p", "1.0a_alpha-r1", "1.0.0_p", "1.0.0-r1",
	"1.1", "0.9", "0", "0.0", "0_alpha", "0a", "1.0_p9223372036854775807", "1.0-r9223372036854775807",
}

func gentooSeps(r *RNG) string {
	return r.Pick([]string{",", " ", ", ", " ,", " , ", ",,", "  ", "\t", "\n", ", ,", " \t "})
}

func gentooOp(r *RNG) string {
	if r.Chance(80) {
		return r.Pick([]string{">=", "<=", "!=", ">", "<", "=", ""})
	}
	return r.Pick([]string{"==", "=>", "=<", "<>", "!", "!==", ">>", "<<", "~", "^", "~>", ">= ", "= ", "> ", "=!", "<=>", ">=="})
}

func gentooBound(r *RNG, p *Pool) string {
	if r.Chance(25) {
		return r.Pick(gentooNeighbours)
	}
	return strings.TrimSpace(r.Pick(p.Strs))
}

func genGentooRangeX(r *RNG, p *Pool) string {
	n := r.Range(1, 3)
	s := ""
	for i := 0; i < n; i++ {
		if i > 0 {
			s += gentooSeps(r)
		}
		s += gentooOp(r) + gentooBound(r, p)
	}
	switch r.Intn(12) {
	case 0:
		s = "," + s
	case 1:
		s += ","
	case 2:
		s = ", " + s
	case 3:
		s += " ,"
	case 4:
		s += gentooSeps(r) + r.Pick([]string{">=", "<", "=", "!=", ","})
	case 5:
		s = r.Pick([]string{">=", "<", "=", "!="}) + gentooSeps(r) + s
	}
	return s
}

func init() {
	old := versionGens["gentoo"]
	versionGens["gentoo"] = func(r *RNG) string {
		switch {
		case r.Chance(40):
			return genGentooX(r)
		case r.Chance(8):
			return r.Pick(gentooNeighbours)
		}
		return old(r)
	}
	extraRangeGens["gentoo"] = append(extraRangeGens["gentoo"], genGentooRangeX)
}
