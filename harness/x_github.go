package main

// Extra generators for the github ecosystem: the borders of the two regular expressions
// (date pattern tried first, its validation errors final; optional qualifier tail), strconv
// overflow of every numeric group, and the range grammar's operator/whitespace corners.

import "strings"

var ghYears = []string{"2024", "2023", "1999", "1000", "0999", "0000", "9999", "999", "10000", "20240", "202", "02024", "1", "12"}
var ghMonths = []string{"1", "01", "9", "09", "10", "12", "13", "0", "00", "99", "012", "001", "2", "6", "100"}
var ghDays = []string{"1", "01", "15", "28", "31", "32", "0", "00", "99", "031", "001", "2", "100"}
var ghPrefixes = []string{"", "", "", "v", "v", "release-", "rel-", "V", "Release-", "REL-", "rel", "release", "vv", "v-", "release-v", "r", "rel-v", "release_", "-", "v ", "version-"}
var ghQuals = []string{"alpha", "beta", "rc", "dev", "snapshot", "foo", "pre", "a", "b", "zzz", "RC", "Alpha", "SNAPSHOT", "Dev", "bEtA", "final", "ga", "x", "rc1x", "r-c", "r.c", "r_c", "é"}
var ghNums = []string{"", "", "0", "1", "2", "10", "01", "007", "9223372036854775807", "9223372036854775808", "99999999999999999999", "18446744073709551616", "-1", "+1", "1a", "1.2", "1."}
var ghBig = []string{"9223372036854775807", "9223372036854775808", "9223372036854775806", "99999999999999999999", "18446744073709551615", "0000000000000000000001", "2147483648", "00", "010"}

func ghNum(r *RNG) string {
	if r.Chance(12) {
		return r.Pick(ghBig)
	}
	return r.Num(1)
}

func genGithubX(r *RNG) string {
	switch k := r.Intn(100); {
	case k < 30: // around the date pattern
		s := r.Pick([]string{"", "", "", "v", "v", "V", "release-", "rel-", "vv"}) + r.Pick(ghYears) + "." + r.Pick(ghMonths) + "." + r.Pick(ghDays)
		if r.Chance(25) {
			s += r.Pick([]string{"-rc1", ".beta", "-alpha.2", ".0", ".", "-", "-1", "a", " ", ".1.0", "-dev."})
		}
		return s
	case k < 85: // around the semantic pattern
		s := r.Pick(ghPrefixes) + ghNum(r) + "." + ghNum(r) + "." + ghNum(r)
		if r.Chance(70) {
			s += r.Pick([]string{"-", "-", ".", ".", "", "_", "+", "--", "-.", ".-", "~"}) + r.Pick(ghQuals)
			if r.Chance(70) {
				s += r.Pick([]string{"", "", ".", ".", "-", "..", "_"}) + r.Pick(ghNums)
			}
			if r.Chance(6) {
				s += r.Pick([]string{".", "-", "+build", "-rc", ".1", " x", "\n"})
			}
		}
		return s
	case k < 92: // wrong arity
		n := r.Range(1, 5)
		if n == 3 {
			n = 4
		}
		s := r.Pick([]string{"", "v", "release-", "rel-"}) + r.Dotted(n, 1, ".")
		if r.Chance(40) {
			s += r.Pick([]string{"-", "."}) + r.Pick(ghQuals)
		}
		return s
	default: // separators and empties
		return r.Pick([]string{"", "v", "release-", "rel-"}) + r.Pick([]string{"1..0", ".1.0", "1.0.", "1-0-0", "1,0,0", "1.0.0.", "1.0.0-", "1.0.0.-rc", "1 .0.0", "1.0.0 -rc", "1.0.0-rc 1", "1.0.0\n-rc", "１.0.0", "1.0.0-rc\x00", "1.0.0-rc.1.", "1.0.0-rc1.2", "1.0.0-rc.1-2", "1.0.0.1-rc", "1.0.0rc1", "1.0.0-1", "1.0.0-1rc", "1.0.0.1"})
	}
}

var ghRangeOps = []string{">=", "<=", ">", "<", "=", "", "==", "!=", "=>", "=<", "<>", "~", "^", "~>", ">>", "<<", ">=>", "<=<", "=>=", "===", ">= ", "> ", "= ", " "}
var ghSeps = []string{" ", " ", "  ", "\t", "\n", ",", ", ", " , ", " && ", " || ", " and ", "\v", "\f", "\r\n", ""}

func genGithubRangeX(r *RNG, p *Pool) string {
	b := func() string { return strings.TrimSpace(r.Pick(p.Strs)) }
	switch k := r.Intn(100); {
	case k < 45: // 1-4 constraints with all kinds of operator spellings and separators
		n := r.Range(1, 4)
		s := ""
		for i := 0; i < n; i++ {
			if i > 0 {
				s += r.Pick(ghSeps)
			}
			s += r.Pick(ghRangeOps) + b()
		}
		return s
	case k < 60: // an interval (often empty or a single point) around pool versions
		x, y := b(), b()
		return r.Pick([]string{">=", ">", "="}) + x + r.Pick([]string{" ", "  ", "\t"}) + r.Pick([]string{"<=", "<", "="}) + y
	case k < 70: // operator with nothing, or nothing sensible, behind it
		return r.Pick([]string{">=", "<=", ">", "<", "=", ">==", "<<=", "=<", ">=<", "> =", ">= >", b() + " >=", b() + " =", "= " + b(), ">= " + b(), b() + "=", b() + ">=" + b()})
	case k < 85: // freshly generated (possibly invalid) bounds
		return r.Pick(ghRangeOps) + genGithubX(r) + r.Pick([]string{"", "", " " + r.Pick(ghRangeOps) + b()})
	default: // surrounding / inner whitespace
		return r.Pick([]string{" ", "\t", "\n ", "", "\r\n"}) + r.Pick(ghRangeOps) + b() + r.Pick([]string{" ", "\n", "\t ", " \v", ""}) + r.Pick([]string{"", r.Pick(ghRangeOps) + b()}) + r.Pick([]string{"", " ", "\n"})
	}
}

func init() {
	old := versionGens["github"]
	versionGens["github"] = func(r *RNG) string {
		if r.Chance(45) {
			return genGithubX(r)
		}
		return old(r)
	}
	extraRangeGens["github"] = append(extraRangeGens["github"], genGithubRangeX)
}
