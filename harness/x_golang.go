package main

// Additional generators for the golang ecosystem: pseudo-versions of the three forms with
// valid and invalid timestamps (calendar boundaries), odd "pre" parts for form 2
// ([^.]+ admits '+', ' ', '-', upper case, newline), bad revisions, numeric overflow,
// SemVer identifiers with leading zeros / long numerics, and range spellings with spaces.

import "strings"

var xgoYears = []string{"0000", "0001", "0004", "0100", "0400", "1900", "1999", "2000", "2019", "2020", "2021", "2024", "2100", "2400", "9999"}
var xgoMonths = []string{"00", "01", "02", "02", "02", "03", "04", "06", "09", "11", "12", "13", "19", "99"}
var xgoDays = []string{"00", "01", "09", "10", "28", "29", "29", "30", "31", "32", "99"}
var xgoHours = []string{"00", "01", "12", "23", "24", "25", "99"}
var xgoMinSec = []string{"00", "01", "30", "59", "60", "61", "99"}

// mostly valid
var xgoMonthsOK = []string{"01", "02", "03", "04", "05", "06", "07", "08", "09", "10", "11", "12"}
var xgoDaysOK = []string{"01", "02", "15", "28"}
var xgoHoursOK = []string{"00", "07", "12", "23"}
var xgoMinSecOK = []string{"00", "07", "30", "59"}

func xgoStamp(r *RNG) string {
	switch r.Intn(10) {
	case 0, 1, 2: // boundary soup: frequently invalid
		return r.Pick(xgoYears) + r.Pick(xgoMonths) + r.Pick(xgoDays) + r.Pick(xgoHours) + r.Pick(xgoMinSec) + r.Pick(xgoMinSec)
	case 3: // one field at its boundary, the rest valid
		f := []string{r.Pick(xgoYears), r.Pick(xgoMonthsOK), r.Pick(xgoDaysOK), r.Pick(xgoHoursOK), r.Pick(xgoMinSecOK), r.Pick(xgoMinSecOK)}
		switch r.Intn(5) {
		case 0:
			f[1] = r.Pick(xgoMonths)
		case 1:
			f[2] = r.Pick(xgoDays)
		case 2:
			f[3] = r.Pick(xgoHours)
		case 3:
			f[4] = r.Pick(xgoMinSec)
		default:
			f[5] = r.Pick(xgoMinSec)
		}
		return strings.Join(f, "")
	case 4: // end-of-month days
		return r.Pick(xgoYears) + r.Pick([]string{"0131", "0132", "0228", "0229", "0230", "0331", "0430", "0431", "0531", "0630", "0631", "0731", "0831", "0930", "0931", "1031", "1130", "1131", "1231", "1232"}) + r.Pick(xgoHoursOK) + r.Pick(xgoMinSecOK) + r.Pick(xgoMinSecOK)
	case 5: // wrong length / non-digit
		s := r.Pick(stamps)
		switch r.Intn(4) {
		case 0:
			return s[:13]
		case 1:
			return s + r.Pick([]string{"0", "9"})
		case 2:
			return s[:7] + r.Pick([]string{"a", "-", ".", " "}) + s[8:]
		default:
			return s[:r.Intn(14)]
		}
	default:
		return r.Pick(xgoYears[5:]) + r.Pick(xgoMonthsOK) + r.Pick(xgoDaysOK) + r.Pick(xgoHoursOK) + r.Pick(xgoMinSecOK) + r.Pick(xgoMinSecOK)
	}
}

func xgoRev(r *RNG) string {
	if r.Chance(85) {
		return r.Pick(hexdigs12)
	}
	return r.Pick([]string{"ABCDEF123456", "abcdef12345", "abcdef1234567", "abcdefg23456", "abcdef12345G", "", "abcdef-12345", "abcdef12345.", "abcdef123456+b", "abcdef123456-1"})
}

var xgoPre2 = []string{"rc1", "alpha", "pre", "beta2", "0", "1", "00", "01", "10", "RC", "a-b", "-", "a+b", "+", "+a", "a+", "a b", " ", "a\tb", "a\nb", "_", "~", "a_b", "1+1", "0+", "v", "rc1-", "--", "x+y+z", "A"}

func xgoNum(r *RNG) string {
	if r.Chance(80) {
		return r.Num(0)
	}
	return r.Pick([]string{"00", "01", "007", "9223372036854775807", "9223372036854775808", "99999999999999999999", "18446744073709551616", "2147483648", "000000000000000000000000001"})
}

func genGolangX(r *RNG) string {
	pfx := r.Pick([]string{"v", "v", "v", "v", "", "", "V", "vv", "v "})
	if r.Chance(30) {
		return genGolangTimeObs(r)
	}
	switch r.Intn(10) {
	case 0, 1: // form 1
		zz := ".0.0-"
		if r.Chance(12) {
			zz = r.Pick([]string{".00.0-", ".0.00-", ".0.1-", ".1.0-", ".0.0.", ".0.0+", ".0-", ".0.0--"})
		}
		return pfx + xgoNum(r) + zz + xgoStamp(r) + "-" + xgoRev(r)
	case 2, 3, 4: // form 2
		mid := ".0."
		if r.Chance(10) {
			mid = r.Pick([]string{".1.", ".00.", ".", "..", ".0", "0.", ".0.0.", "-0."})
		}
		return pfx + xgoNum(r) + "." + xgoNum(r) + "." + xgoNum(r) + "-" + r.Pick(xgoPre2) + mid + xgoStamp(r) + "-" + xgoRev(r)
	case 5, 6: // form 3
		z := "-0."
		if r.Chance(10) {
			z = r.Pick([]string{"-00.", "-1.", "-0", "-.", "+0.", "-0.0."})
		}
		return pfx + xgoNum(r) + "." + xgoNum(r) + "." + xgoNum(r) + z + xgoStamp(r) + "-" + xgoRev(r)
	case 7: // pseudo-version followed by build metadata or other trailing text
		return pfx + r.Num(0) + ".0.0-" + xgoStamp(r) + "-" + r.Pick(hexdigs12) + r.Pick([]string{"+incompatible", "+build", ".1", "-x", " ", "\n"})
	default: // SemVer with identifiers that stress compareIdentifier
		ids := []string{"0", "00", "1", "01", "001", "2", "10", "010", "9", "99", "100",
			"99999999999999999999", "100000000000000000000", "099999999999999999999", "18446744073709551616",
			"a", "A", "b", "a0", "0a", "-", "-1", "1-", "--", "a-b", "rc", "rc1", "RC", "alpha", "beta", "Z", "z",
			"20190101000000-abcdef123456", "20190101000000", "0x"}
		n := r.Range(1, 4)
		parts := make([]string, n)
		for i := range parts {
			parts[i] = r.Pick(ids)
		}
		s := pfx + xgoNum(r) + "." + xgoNum(r) + "." + xgoNum(r) + "-" + strings.Join(parts, r.Pick([]string{".", ".", ".", ".", "..", "+"}))
		if r.Chance(20) {
			s += "+" + r.Pick([]string{"build", "1", "a.b", "a-b", "-", "a..b", "", "a+b", ".a", "a."})
		}
		if r.Chance(5) {
			s += r.Pick([]string{".", "-", "+", "_", " x"})
		}
		return s
	}
}

// Pseudo-versions on which the verdict of time.Parse is observable: with an invalid timestamp
// the text falls through to the SemVer pattern, which accepts it again with the same
// pre-release unless a number overflows int (Atoi error ignored only on the pseudo path) or
// form 2's pre part has a byte outside [0-9A-Za-z-+].
func genGolangTimeObs(r *RNG) string {
	big := r.Pick([]string{"9223372036854775808", "99999999999999999999", "18446744073709551616", "100000000000000000000"})
	ts := xgoStampBoundary(r)
	rev := r.Pick(hexdigs12)
	switch r.Intn(6) {
	case 0, 1:
		return "v" + big + ".0.0-" + ts + "-" + rev
	case 2:
		n := []string{r.Num(0), r.Num(0), r.Num(0)}
		n[r.Intn(3)] = big
		return "v" + strings.Join(n, ".") + "-0." + ts + "-" + rev
	case 3:
		n := []string{r.Num(0), r.Num(0), r.Num(0)}
		n[r.Intn(3)] = big
		return "v" + strings.Join(n, ".") + "-" + r.Pick([]string{"rc1", "0", "a"}) + ".0." + ts + "-" + rev
	default:
		return r.Pick([]string{"v", "v", ""}) + r.Dotted(3, 0, ".") + "-" + r.Pick([]string{"a b", "_", "~", "a_b", "a\tb", "!", "a,b", "a=b", "a:b", "a/b", "(", "a+_", "_+a"}) + ".0." + ts + "-" + rev
	}
}

func xgoStampBoundary(r *RNG) string {
	y := r.Pick(xgoYears)
	f := []string{y, r.Pick(xgoMonthsOK), r.Pick(xgoDaysOK), r.Pick(xgoHoursOK), r.Pick(xgoMinSecOK), r.Pick(xgoMinSecOK)}
	switch r.Intn(8) {
	case 0:
		f[1] = r.Pick(xgoMonths)
	case 1:
		f[2] = r.Pick(xgoDays)
	case 2:
		f[3] = r.Pick(xgoHours)
	case 3:
		f[4] = r.Pick(xgoMinSec)
	case 4:
		f[5] = r.Pick(xgoMinSec)
	case 5, 6: // end of month, both sides
		md := r.Pick([]string{"0131", "0132", "0228", "0229", "0229", "0229", "0230", "0331", "0332", "0430", "0431", "0531", "0532", "0630", "0631", "0731", "0732", "0831", "0832", "0930", "0931", "1031", "1032", "1130", "1131", "1231", "1232"})
		f[1], f[2] = md[:2], md[2:]
	default:
	}
	return strings.Join(f, "")
}

// range spellings the default generator does not reach
func genGolangRangeX(r *RNG, p *Pool) string {
	b := func() string { return strings.TrimSpace(r.Pick(p.Strs)) }
	ops := []string{">=", "<=", "!=", ">", "<", "=", "==", "=>", "=<", "<>", "~", "^", "!", ">>", "<<", "===", "!==", ">=<", ""}
	sp := []string{"", "", " ", "\t", "  ", "\n", "\r\n", " \t"}
	one := func() string {
		return r.Pick(ops) + r.Pick(sp) + b()
	}
	switch r.Intn(8) {
	case 0:
		return one()
	case 1:
		return one() + r.Pick([]string{" ", "  ", "\t", "\n", ",", ", ", " , ", "||", " || ", " \t"}) + one()
	case 2: // operator only / dangling operator
		return r.Pick([]string{r.Pick(ops), r.Pick(ops) + " " + r.Pick(ops), one() + " " + r.Pick(ops), r.Pick(ops) + " " + one()})
	case 3: // tab-separated without any literal space: a single constraint
		return r.Pick(ops) + b() + r.Pick([]string{"\t", "\n", "\v", "\f", "\r"}) + r.Pick(ops) + b()
	case 4: // bounds that are not versions
		return r.Pick(ops) + r.Pick([]string{"", "v", "1", "1.0", "v1", "latest", "*", "v1.x", "1.2.3.4", "v1.2.3-", "v1.2.3+"}) + r.Pick([]string{"", " " + one()})
	case 5: // version with a space inside (form 2 pre may contain one)
		return r.Pick(ops) + "v1.2.3-a b.0.20190101000000-abcdef123456"
	case 6: // three and more
		s := one()
		for i := r.Range(2, 4); i > 0; i-- {
			s += r.Pick([]string{" ", "  ", " \t "}) + one()
		}
		return s
	default: // padded
		return r.Pick([]string{" ", "\t", "\n ", "\v", "\f"}) + one() + r.Pick([]string{" ", "\n", "\t", ""})
	}
}

func init() {
	old := versionGens["golang"]
	versionGens["golang"] = func(r *RNG) string {
		if r.Chance(45) {
			return genGolangX(r)
		}
		return old(r)
	}
	extraRangeGens["golang"] = append(extraRangeGens["golang"], genGolangRangeX)
}

// golangPseudoFamily: for a pseudo-version text, the other pseudo-version forms on the same
// vX.Y.Z with earlier and later commit times, and an ordinary pre-release that SemVer places
// between them: order by SemVer precedence and order by commit time disagree on such a family.
func golangPseudoFamily(r *RNG, s string) []string {
	i := strings.IndexByte(s, '-')
	if i < 0 || len(s) < i+28 {
		return nil
	}
	tail := s[len(s)-27:] // TS(14) '-' REV(12)
	if tail[14] != '-' {
		return nil
	}
	for k := 0; k < 14; k++ {
		if tail[k] < '0' || tail[k] > '9' {
			return nil
		}
	}
	base := s[:i]
	rev := tail[15:]
	early := "20170102030405"
	late := "20230908070605"
	out := []string{
		base + "-0." + late + "-" + rev,
		base + "-rc1.0." + early + "-" + rev,
		base + "-alpha",
		base + "-rc1",
		base + "-0." + early + "-" + rev,
		base + "-rc1.0." + late + "-" + rev,
		base + "-beta.0." + tail[:14] + "-" + rev,
		// the same instant, another revision
		base + "-0." + tail[:14] + "-aaaaaaaaaaaa",
		base + "-0." + tail[:14] + "-bbbbbbbbbbbb",
		base + "-0." + tail[:14] + "-aaaaaaaaaaaa+incompatible",
		// everything behind '+' is build metadata, whatever it looks like
		base + "-rc1+m.0." + early + "-" + rev,
		base + "-rc1+m.0." + late + "-" + rev,
	}
	return out
}
