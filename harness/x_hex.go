package main

import "strings"

// Additional generators for hex: numeric pre-release identifiers with leading zeros and
// int64 overflow, odd identifier / build-metadata shapes, partial versions, int64 limits in
// the fields, and the range branches (~> on X.0 / X.Y / X.Y.Z, "and" words, operator residue).

var hexIds = []string{"0", "00", "1", "01", "001", "2", "10", "9", "9223372036854775807", "9223372036854775808",
	"09223372036854775807", "99999999999999999999", "a", "A", "-", "--", "-1", "1-", "0a", "a0", "rc", "rc1", "alpha", "beta", "Z", "z"}

var hexNums = []string{"0", "1", "2", "9", "10", "00", "01", "9223372036854775806", "9223372036854775807", "9223372036854775808", "09223372036854775807"}

func genHexX(r *RNG) string {
	n := func() string { return r.Pick(hexNums) }
	pre := func() string {
		k := r.Range(1, 3)
		ids := make([]string, k)
		for i := range ids {
			ids[i] = r.Pick(hexIds)
		}
		s := strings.Join(ids, ".")
		if r.Chance(6) {
			s = r.Pick([]string{".", "..", s + ".", "." + s, s + ".." + s, ""})
		}
		return s
	}
	switch r.Intn(10) {
	case 0:
		return n() + "." + n()
	case 1:
		return r.Pick([]string{"1", "1.", ".1", "1.2.", "1.2.3.4", "1..2", "v1.2.3", "1.2.3-", "1.2.3+", "1.2.3-+b", "1.2.3-a+", "1.2.3+a+b", "1.2.3+a-b.c", "1.2.3+.", "1.2.3-a_b", "1.2-a", "1.2+b", "+1.2.3", "-1.2.3", "1.2.3 -a", "1.2.3-a b", "1.2.3\n", "1.2.3-a\n"})
	case 2, 3:
		return n() + "." + n() + "." + n()
	case 4:
		return r.Pick([]string{"1.0.0", "1.2.3", "0.0.0"}) + "-" + pre() + "+" + r.Pick([]string{"b", "-", ".", "1.2", "a+b", ""})
	default:
		return r.Pick([]string{"1.0.0", "1.2.3", "0.0.0", "1.2.0", n() + "." + n() + "." + n()}) + "-" + pre()
	}
}

func init() {
	old := versionGens["hex"]
	versionGens["hex"] = func(r *RNG) string {
		if r.Chance(35) {
			return genHexX(r)
		}
		return old(r)
	}
	bnd := func(r *RNG, p *Pool) string {
		if r.Chance(50) {
			return strings.TrimSpace(r.Pick(p.Strs))
		}
		return genHexX(r)
	}
	ops := []string{">=", "<=", ">", "<", "=", "~>", "", "==", "!=", "~", "^", "=>", "=<", ">>", "~>=", ">=~>", "~>~>", "<>", "=="}
	and := []string{" ", " and ", " AND ", " And ", "  ", "\t", " and and ", "and", " && ", ", ", ","}
	extraRangeGens["hex"] = append(extraRangeGens["hex"],
		// pessimistic operator on all shapes
		func(r *RNG, p *Pool) string {
			n := func() string { return r.Pick(hexNums) }
			switch r.Intn(5) {
			case 0:
				return "~>" + n() + ".0"
			case 1:
				return "~>" + n() + "." + n()
			case 2:
				return "~>" + n() + "." + n() + "." + n()
			case 3:
				return "~>" + bnd(r, p)
			default:
				return "~> " + bnd(r, p)
			}
		},
		// conjunctions with every separator and operator spelling
		func(r *RNG, p *Pool) string {
			k := r.Range(1, 3)
			s := ""
			for i := 0; i < k; i++ {
				if i > 0 {
					s += r.Pick(and)
				}
				s += r.Pick(ops) + bnd(r, p)
			}
			return s
		},
		// "and" words and operator residue
		func(r *RNG, p *Pool) string {
			return r.Pick([]string{"and", "AND", "aNd", "and and", " and ", "andand", "and1.0.0", "and >=1.0.0", ">=1.0.0 and", "and and >1.0.0 and",
				">=", "<=", ">", "<", "=", "~>", "~", "~>~>", ">= 1.0.0", "~> 1.0", ">=and", "~>and", "1.0.0 and or", "1.0.0 or 2.0.0",
				"~>" + bnd(r, p) + " and <" + bnd(r, p), ">=" + bnd(r, p) + " and ~>" + bnd(r, p)})
		},
	)
}
