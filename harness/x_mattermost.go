package main

import "strings"

// Extra generators for mattermost: leading zeros (rejected by 0|[1-9]\d*), prefix variants,
// qualifier case and spelling, qualifier numbers with leading zeros / at the int64 edge.

func genMattermostX(r *RNG) string {
	n := 3
	if r.Chance(6) {
		n = r.Pick3(2, 4, 1)
	}
	s := r.Pick([]string{"", "", "v", "v", "V", "vv", "v ", "r", "v."}) + r.Dotted(n, 3, ".")
	k := r.Intn(100)
	switch {
	case k < 25:
	case k < 55:
		s += "-" + r.Pick([]string{"rc", "esr", "rc", "esr"}) + r.Pick([]string{"", "0", "00", "1", "01", "2", "10", "007", "1", "2"})
	case k < 65:
		s += "-" + r.Pick([]string{"rc", "esr"}) + r.Pick(numsBig)
	case k < 80:
		s += "-" + r.Pick([]string{"RC", "ESR", "Rc", "Esr", "rC", "beta", "alpha", "r", "es", "esrc", "rcesr", "esrs", "rcc", "rc-esr"}) + r.Pick([]string{"", "1", "2"})
	default:
		s += r.Pick([]string{"-", "-1", "-rc-1", "-rc.1", "-rc1a", "-rc 1", "--rc", "-rc1-", ".rc1", "rc1", "_rc1", "+rc1", "-esr-1", "-esr1.0", "-rc1-esr", "-esr "})
	}
	return s
}

func genMattermostRangeX(r *RNG, p *Pool) string {
	b := func() string { return strings.TrimSpace(r.Pick(p.Strs)) }
	switch r.Intn(10) {
	case 0:
		return r.Pick([]string{">=", "<=", ">", "<", "="}) + " " + b()
	case 1:
		return r.Pick([]string{"==", ">==", "=>", "=<", "<>", "!=", "~", "^", ">>", "<<", "=>=", ">=="}) + b()
	case 2:
		return r.Pick([]string{">=", "<=", ">", "<", "=", "==", ">= ", " < "})
	case 3:
		return r.Pick([]string{">=", ">", ""}) + b() + r.Pick([]string{"\t", "\n", "\r\n", " \t ", "\v", "\f"}) + r.Pick([]string{"<=", "<", "="}) + b()
	case 4:
		return ">=" + b() + r.Pick([]string{",", ", ", " , "}) + "<" + b()
	case 5:
		s := ">=" + b() + " <=" + b() + " " + r.Pick([]string{">", "<", "=", ""}) + b()
		if r.Chance(40) {
			s += " " + b()
		}
		return s
	case 6:
		x := b()
		return r.Pick([]string{">=", ">"}) + x + " " + r.Pick([]string{"<=", "<"}) + x
	case 7:
		return ">=" + b() + "<" + b()
	case 8:
		return r.Pick([]string{">=", "<", "="}) + r.Pick([]string{"1.2", "1.2.3.4", "1.2.3-", "01.2.3", "V1.2.3", "1.2.3-RC1", "1.2.3-beta", "99999999999999999999.0.0", "1.2.3-rc99999999999999999999", "v1.02.3"})
	default:
		// same version with and without the v prefix
		x := strings.TrimPrefix(b(), "v")
		return r.Pick([]string{"=", "", ">=", "<="}) + r.Pick([]string{"v", ""}) + x + " " + r.Pick([]string{"=", "", "<=", ">="}) + r.Pick([]string{"v", ""}) + x
	}
}

func init() {
	old := versionGens["mattermost"]
	versionGens["mattermost"] = func(r *RNG) string {
		if r.Chance(40) {
			return genMattermostX(r)
		}
		return old(r)
	}
	extraRangeGens["mattermost"] = append(extraRangeGens["mattermost"], genMattermostRangeX)
}
