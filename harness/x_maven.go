package main

import "strings"

// x_maven.go — extra generators for the maven ecosystem: tokens glued without separators
// (digit/letter transitions), signed / overflowing / zero-padded numbers, qualifiers in all
// spellings, null elements in the middle and at the end, digit-free versions, odd bytes inside
// tokens; for ranges every shape of the bracket regexp including blanks and rejected forms.

var xMavenNums = []string{"0", "1", "2", "5", "10", "00", "01", "007", "+0", "+5", "+", "+01",
	"9223372036854775807", "9223372036854775808", "99999999999999999999", "2147483648", "1_0", "0x10", "1e3"}
var xMavenQuals = []string{"alpha", "beta", "milestone", "rc", "cr", "snapshot", "ga", "final", "release", "sp",
	"a", "b", "m", "A", "B", "M", "CR", "GA", "Final", "RELEASE", "SP", "Sp", "SNAPSHOT", "Alpha", "BETA", "RC",
	"foo", "bar", "xyz", "jre", "dev", "sparc", "alphabet", "garc", "x", "c", "z", "_", "rc_", "a_b", "spx", "gaa",
	"android", "jre8", "redhat", "Final1", "m2", "b3", "a1", "cr4"}
var xMavenSeps = []string{".", "-", ".", "-", "", "", "..", "-.", ".-", "--", "_", ",", " ", "+"}

func xMavenVersion(r *RNG) string {
	switch r.Intn(10) {
	case 0: // digit-free
		s := r.Case(r.Pick(xMavenQuals))
		if r.Chance(40) {
			s += r.Pick([]string{".", "-", "", "_"}) + r.Case(r.Pick(xMavenQuals))
		}
		return s
	case 1: // trailing null elements of every kind
		s := r.Pick(xMavenNums)
		n := r.Range(1, 4)
		for i := 0; i < n; i++ {
			s += r.Pick([]string{".", "-"}) + r.Pick([]string{"0", "00", "ga", "final", "release", "GA", "+0", "0", "Final"})
		}
		if r.Chance(30) {
			s += r.Pick([]string{".", "-"}) + r.Pick(xMavenQuals)
		}
		return s
	case 2: // qualifier directly after number, number directly after qualifier
		return r.Pick(xMavenNums) + r.Pick([]string{"", ".", "-"}) + r.Pick(xMavenNums) + r.Case(r.Pick(xMavenQuals)) + r.Pick(xMavenNums)
	}
	n := r.Range(1, 6)
	var b strings.Builder
	if r.Chance(6) {
		b.WriteString(r.Pick([]string{".", "-", "v", "V", "+"}))
	}
	for i := 0; i < n; i++ {
		if i > 0 {
			b.WriteString(r.Pick(xMavenSeps))
		}
		if r.Chance(60) {
			b.WriteString(r.Pick(xMavenNums))
		} else {
			b.WriteString(r.Case(r.Pick(xMavenQuals)))
		}
	}
	if r.Chance(6) {
		b.WriteString(r.Pick([]string{".", "-", "..", "-ga", ".0"}))
	}
	return b.String()
}

func xMavenPad(r *RNG) string { return r.Pick([]string{"", "", " ", "  ", "\t", "\n", " \t "}) }

func xMavenRange(r *RNG, p *Pool) string {
	a := r.Pick(p.Strs)
	b := r.Pick(p.Strs)
	if r.Chance(20) {
		b = a
	}
	if r.Chance(10) {
		a = r.Pick([]string{"foo", "", " ", "x.y", "1", "a", "A", "sp", "1 0", "1\n0", "zzz"})
	}
	if r.Chance(10) {
		b = r.Pick([]string{"foo", "", " ", "x.y", "1", "m", "M", "ga", "2 0", "q"})
	}
	lo := r.Pick([]string{"[", "("})
	hi := r.Pick([]string{"]", ")"})
	pa, pb, pc, pd := xMavenPad(r), xMavenPad(r), xMavenPad(r), xMavenPad(r)
	switch r.Intn(14) {
	case 0:
		return lo + pa + a + pb + hi // exact, any bracket kind
	case 1:
		return lo + pa + a + pb + "," + pc + b + pd + hi
	case 2:
		return lo + pa + a + pb + "," + pc + hi
	case 3:
		return lo + pa + "," + pc + b + pd + hi
	case 4:
		return lo + pa + "," + pb + hi
	case 5:
		return lo + pa + hi
	case 6: // several intervals / too many commas / stray text
		return r.Pick([]string{
			lo + a + "," + b + hi + "," + lo + b + "," + hi,
			lo + a + "," + b + hi + lo + b + "," + hi,
			lo + a + "," + b + "," + a + hi,
			lo + a + ",," + hi,
			lo + lo + a + hi,
			lo + a + hi + hi,
			lo + a + hi + "x",
			"x" + lo + a + hi,
			a + hi,
			lo + a,
			lo + a + "," + b,
			a + "," + b + hi,
			lo + a + "," + b + hi + " ",
			" " + lo + a + "," + b + hi,
		})
	case 7: // bare texts
		return r.Pick([]string{a, a + "," + b, a + " " + b, pa + a + pb, "foo", ">=" + a, a + "+", "1,2", ","})
	case 8:
		return pa + lo + a + "," + b + hi + pb
	case 9:
		return lo + a + pb + "," + pc + b + hi
	case 10:
		return lo + "\n" + a + "\n,\n" + b + "\n" + hi
	case 11:
		return lo + a + "," + a + hi
	default:
		return lo + a + "," + b + hi
	}
}

func init() {
	old := versionGens["maven"]
	versionGens["maven"] = func(r *RNG) string {
		if r.Chance(45) {
			return xMavenVersion(r)
		}
		return old(r)
	}
	extraRangeGens["maven"] = append(extraRangeGens["maven"], xMavenRange)
}
