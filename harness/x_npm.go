package main

// x_npm.go — npm-specific generators: version prefixes (v, =, v=v), identifier edge cases
// (numeric identifiers at and above 2^63, leading zeros, hyphens), and the branches of the
// npm range grammar the generic generator does not reach (x-ranges with signs and several
// arities, hyphen ranges with distinct ends, parentheses, caret/tilde followed by a space or a
// prefix, operator followed by whitespace, tabs, || with empty sides, 64-bit overflow of
// "+1", the forbidden characters).

import (
	"regexp"
	"strings"
)

var npmIds = []string{"alpha", "beta", "rc", "0", "1", "2", "10", "00", "01", "010", "-", "--", "-1", "1-", "a-b", "x", "X",
	"9223372036854775806", "9223372036854775807", "9223372036854775808", "18446744073709551616", "09223372036854775807",
	"00000000000000000000001", "A", "Z", "a", "z", "0a", "a0", "1a", "-0"}

var npmBigs = []string{"9223372036854775806", "9223372036854775807", "9223372036854775808", "18446744073709551615", "09223372036854775807", "0009223372036854775808"}

func genNpmX(r *RNG) string {
	pre := r.Pick([]string{"", "", "", "", "v", "=", "=v", "v=", "v=v", "vv", "==", "V", "v ", "= ", "=vv"})
	n := func() string {
		if r.Chance(6) {
			return r.Pick(npmBigs)
		}
		return r.Num(3)
	}
	s := pre + n() + "." + n() + "." + n()
	if r.Chance(4) {
		s += "." + n()
	}
	if r.Chance(65) {
		k := r.Range(1, 3)
		ids := make([]string, k)
		for i := range ids {
			ids[i] = r.Pick(npmIds)
		}
		s += "-" + strings.Join(ids, ".")
		if r.Chance(4) {
			s += r.Pick([]string{".", "..", ".-", "-", "_"})
		}
	}
	if r.Chance(15) {
		s += "+" + r.Pick([]string{"build", "1", "exp.sha.5114f85", "001", "b-1", "", "a..b", "a+b", "-", "a_b"})
	}
	return s
}

var npmCoreRe = regexp.MustCompile(`(\d+)\.(\d+)\.(\d+)`)

// the three numbers of a pool version (or small defaults)
func npmMMP(r *RNG, p *Pool) (string, string, string) {
	if len(p.Strs) > 0 {
		if m := npmCoreRe.FindStringSubmatch(r.Pick(p.Strs)); m != nil {
			return m[1], m[2], m[3]
		}
	}
	return r.Num(0), r.Num(0), r.Num(0)
}

func npmBase(r *RNG, p *Pool) string {
	if len(p.Strs) > 0 && r.Chance(85) {
		return strings.TrimSpace(r.Pick(p.Strs))
	}
	return genNpmX(r)
}

func npmXRange(r *RNG, p *Pool) string {
	a, b, c := npmMMP(r, p)
	x := r.Pick([]string{"x", "X", "x", "*"})
	sign := r.Pick([]string{"", "", "", "", "+", "-", "v", "="})
	if r.Chance(5) {
		a = r.Pick(npmBigs)
	}
	if r.Chance(5) {
		b = r.Pick(npmBigs)
	}
	switch r.Intn(12) {
	case 0, 1, 2:
		return sign + a + "." + x
	case 3, 4, 5:
		return sign + a + "." + b + "." + x
	case 6:
		return sign + a + "." + x + "." + x
	case 7:
		return a + "." + b + "." + c + "." + x
	case 8:
		return x
	case 9:
		return a + "." + x + "." + c
	case 10:
		return r.Pick([]string{">=", "<", "^", "~", "="}) + a + "." + x
	default:
		return a + "." + r.Pick([]string{"+", "-", "", " "}) + b + "." + x
	}
}

func npmShort(r *RNG, p *Pool) string {
	b := npmBase(r, p)
	a, m, c := npmMMP(r, p)
	t := r.Pick([]string{"^", "~"})
	switch r.Intn(10) {
	case 0:
		return t + " " + b
	case 1:
		return t + r.Pick([]string{"v", "=", "=v", "v=v", "^", "~", ">="}) + b
	case 2:
		return t + "0.0." + c
	case 3:
		return t + "0." + m + "." + c
	case 4:
		return t + r.Pick([]string{"9223372036854775807.0.0", "0.9223372036854775807.0", "0.0.9223372036854775807", "1.9223372036854775807.1", "9223372036854775806.1.1"})
	case 5:
		return t + a + "." + m
	case 6:
		return t + b + " " + r.Pick([]string{"<", ">=", ""}) + npmBase(r, p)
	case 7:
		return t + b + "\t"
	default:
		return t + b
	}
}

// caret / tilde on partial versions (padPartial): arities 1 and 2, zeros, prefixes, spaces,
// trailing dots, '-' / '+' (which disable the padding), 64-bit boundaries
func npmPartialShort(r *RNG, p *Pool) string {
	a, m, _ := npmMMP(r, p)
	t := r.Pick([]string{"^", "~"})
	if r.Chance(25) {
		a = "0"
	}
	if r.Chance(25) {
		m = "0"
	}
	if r.Chance(6) {
		a = r.Pick(npmBigs)
	}
	if r.Chance(6) {
		m = r.Pick(npmBigs)
	}
	pre := r.Pick([]string{"", "", "", "", "", "v", "=", "=v", " ", "v=v", "+", "-"})
	switch r.Intn(12) {
	case 0, 1, 2:
		return t + pre + a
	case 3, 4, 5:
		return t + pre + a + "." + m
	case 6:
		return t + pre + a + r.Pick([]string{".", "..", ".0.", ". 0", ".x", ".*", ".X.0"})
	case 7:
		return t + pre + a + "." + m + r.Pick([]string{"-0", "-beta", "+b", ".", "-", "+", ".0-0", ".0+b"})
	case 8:
		return t + pre + a + r.Pick([]string{"-0", "-beta", "+b", "-", "+", "-1.2", "+1.2"})
	case 9:
		return r.Pick([]string{">=", "<", ""}) + npmBase(r, p) + " " + t + pre + a + "." + m
	case 10:
		return t + a + "." + m + r.Pick([]string{" || ", "||"}) + t + a
	default:
		return t + r.Pick([]string{"", "0", "0.0", "0.0.0", "00", "0.00", "1", "1.0", "01", "0.1", "0.01"})
	}
}

func npmHyphen(r *RNG, p *Pool) string {
	a, b := npmBase(r, p), npmBase(r, p)
	switch r.Intn(12) {
	case 0:
		return a + " -"
	case 1:
		return "- " + b
	case 2:
		return a + " - " + b + " - " + npmBase(r, p)
	case 3:
		return a + "  -  " + b
	case 4:
		return a + " - - " + b
	case 5:
		return a + " -" + b
	case 6:
		return a + "\t-\t" + b
	case 7:
		return r.Pick([]string{">=", "^", "~", "<"}) + a + " - " + b
	case 8:
		return a + " - " + r.Pick([]string{"1", "1.2", "1.x", "*", "", "x"})
	default:
		return a + " - " + b
	}
}

func npmCmp(r *RNG, p *Pool) string {
	op := r.Pick([]string{">=", "<=", ">", "<", "=", "", "!=", "==", "=>", "=<", "<>", ">>", "~>"})
	sp := r.Pick([]string{"", "", "", " ", "\t", "  ", "\n"})
	return op + sp + npmBase(r, p)
}

func npmGroup(r *RNG, p *Pool) string {
	one := func() string {
		switch r.Intn(8) {
		case 0:
			return npmXRange(r, p)
		case 1:
			return npmShort(r, p)
		case 2:
			return "*"
		default:
			return npmCmp(r, p)
		}
	}
	n := r.Range(1, 3)
	s := one()
	for i := 1; i < n; i++ {
		s += r.Pick([]string{" ", " ", "  ", "\t", " \t", ","}) + one()
	}
	if r.Chance(20) {
		s = r.Pick([]string{"(", "(", "((", "( ", ""}) + s + r.Pick([]string{")", ")", "))", " )", ""})
	}
	return s
}

func npmOr(r *RNG, p *Pool) string {
	g := func() string {
		switch r.Intn(8) {
		case 0:
			return npmHyphen(r, p)
		case 1:
			return ""
		case 2:
			return r.Pick([]string{"*", "x", "()", "(", ")", "latest", " "})
		default:
			return npmGroup(r, p)
		}
	}
	n := r.Range(2, 3)
	s := g()
	for i := 1; i < n; i++ {
		s += r.Pick([]string{"||", " || ", "|| ", " ||", "|||", "| |", " |  | "}) + g()
	}
	return s
}

func npmBad(r *RNG, p *Pool) string {
	b := npmBase(r, p)
	return r.Pick([]string{"@" + b, b + "#", "$" + b, ">=" + b + "%", "&", "!" + b, "!=" + b, ">=" + b + " !=" + npmBase(r, p),
		"^" + b + "@", "~" + b + "!", b + ".x@", "*!", "* ", " *", "**", "* *", "* " + b, ">=" + b + " *", "(*)", "(", ")", "()", "( )", ")(",
		"(" + b, b + ")", "(" + b + "))", "((" + b + ")"})
}

func init() {
	old := versionGens["npm"]
	versionGens["npm"] = func(r *RNG) string {
		if r.Chance(40) {
			return genNpmX(r)
		}
		return old(r)
	}
	extraRangeGens["npm"] = append(extraRangeGens["npm"],
		npmXRange, npmXRange, npmShort, npmShort, npmPartialShort, npmPartialShort, npmPartialShort, npmHyphen, npmHyphen, npmGroup, npmGroup, npmOr, npmOr, npmBad,
		func(r *RNG, p *Pool) string { return npmCmp(r, p) })
}
