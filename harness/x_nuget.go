package main

import "strings"

// Extra generators for nuget: branches of versionPattern / comparePrerelease / parseRange that the
// default generators rarely reach.

var nugetIds = []string{"alpha", "beta", "rc", "RC", "0", "1", "2", "10", "01", "00", "001", "010",
	"9223372036854775807", "9223372036854775808", "09223372036854775807", "99999999999999999999",
	"18446744073709551616", "-", "--", "-1", "1-", "a-b", "0a", "a0", "A", "Z", "a", "z", "preview", "Preview"}

func genNugetIdList(r *RNG) string {
	n := r.Range(1, 4)
	ids := make([]string, n)
	for i := range ids {
		ids[i] = r.Pick(nugetIds)
	}
	return strings.Join(ids, ".")
}

func genNugetX(r *RNG) string {
	s := r.Pick([]string{"", "", "", "v", "v", "vv", "V", "vvv", "v ", "="})
	s += r.Dotted(r.Range(1, 5), 3, ".")
	if r.Chance(55) {
		s += "-" + genNugetIdList(r)
	}
	if r.Chance(20) {
		s += "+" + genNugetIdList(r)
	}
	if r.Chance(6) {
		s += r.Pick([]string{".", "-", "+", "..", "-a..b", "-a.", "+a.", "+a+b", "-a+", "+a-b", "-.a", " 1", "\n", "_", "-a_b", "+a_b", ".-a", ".+a", "-+", "+-"})
	}
	if r.Chance(5) {
		s = r.Pick([]string{" ", "\t", "\n "}) + s + r.Pick([]string{" ", "\r\n", ""})
	}
	return s
}

func nugetBound(r *RNG, p *Pool) string {
	b := r.Pick(p.Strs)
	if r.Chance(10) {
		b = genNugetX(r)
	}
	if r.Chance(15) {
		b = r.Pick([]string{" ", "  ", "\t"}) + b
	}
	if r.Chance(15) {
		b += r.Pick([]string{" ", "  ", "\t"})
	}
	return b
}

func genNugetRangeBracket(r *RNG, p *Pool) string {
	a := nugetBound(r, p)
	b := nugetBound(r, p)
	c := nugetBound(r, p)
	lo := r.Pick([]string{"[", "(", "[", "(", "", "[ ", "( ", "[[", "(("})
	hi := r.Pick([]string{"]", ")", "]", ")", "", " ]", " )", "]]", "))"})
	sp := r.Pick([]string{"", "", " ", "  "})
	switch r.Intn(14) {
	case 0:
		return lo + a + hi
	case 1:
		return lo + a + "," + sp + hi
	case 2:
		return lo + sp + "," + b + hi
	case 3:
		return lo + a + "," + b + hi
	case 4:
		return lo + a + "," + b + "," + c + hi
	case 5:
		return lo + sp + "," + sp + hi
	case 6:
		return lo + sp + hi
	case 7:
		return lo + a + hi + "," + lo + b + hi
	case 8:
		return lo + a + "," + b + hi + "," + c
	case 9:
		return a + "," + lo + b + "," + c + hi
	case 10:
		return lo + r.Pick(nuget_opsX) + a + "," + r.Pick(nuget_opsX) + b + hi
	case 11:
		return sp + lo + a + "," + b + hi + sp
	case 12:
		return lo + a + ",," + b + hi
	default:
		return lo + a + sp + "," + sp + b + hi
	}
}

var nuget_opsX = []string{">=", "<=", "!=", ">", "<", "=", "", "==", "=>", "=<", "> =", "<>", "!", "~", "^", ">= ", "< ", "= ", ">=v", "=v"}

func genNugetRangeList(r *RNG, p *Pool) string {
	n := r.Range(1, 4)
	parts := make([]string, n)
	for i := range parts {
		parts[i] = r.Pick([]string{"", "", " "}) + r.Pick(nuget_opsX) + nugetBound(r, p)
		if r.Chance(8) {
			parts[i] = r.Pick([]string{"", " ", "[", "]", "(", ")", "[]", "()"})
		}
	}
	s := strings.Join(parts, r.Pick([]string{",", ", ", " ,", ",,"}))
	if r.Chance(20) {
		s = r.Pick([]string{",", ", ", "[", "("}) + s
	}
	if r.Chance(20) {
		s += r.Pick([]string{",", " ,", "]", ")"})
	}
	return s
}

// half-open intervals in every bracket pair, with blank / spaced empty sides (the exclusive pair
// is routed through parseMixedRange when exactly one side is empty)
func genNugetHalfOpen(r *RNG, p *Pool) string {
	a := nugetBound(r, p)
	lo := r.Pick([]string{"(", "(", "(", "["})
	hi := r.Pick([]string{")", ")", ")", "]"})
	e := r.Pick([]string{"", "", " ", "  ", "\t"})
	switch r.Intn(8) {
	case 0, 1:
		return lo + a + "," + e + hi
	case 2, 3:
		return lo + e + "," + a + hi
	case 4:
		return lo + e + "," + e + hi
	case 5:
		return lo + a + "," + e + "," + hi
	case 6:
		return lo + e + "," + a + "," + e + hi
	default:
		return r.Pick([]string{" ", ""}) + lo + r.Pick(nuget_opsX) + a + "," + e + hi + r.Pick([]string{" ", "", ","})
	}
}

func init() {
	old := versionGens["nuget"]
	versionGens["nuget"] = func(r *RNG) string {
		if r.Chance(35) {
			return genNugetX(r)
		}
		return old(r)
	}
	extraRangeGens["nuget"] = append(extraRangeGens["nuget"], genNugetRangeBracket, genNugetRangeList, genNugetHalfOpen)
}
