package main

import "strings"

// Extra generators for the pypi grammar: number overflow in every numeric position, marker
// spelling / ordering errors, local-label shapes, and the range shorthands' corner branches.

func genPypiX(r *RNG) string {
	switch r.Intn(10) {
	case 0: // hand-picked near-misses of versionPattern
		return r.Pick([]string{"1.", "1..a1", "1.a1", "1.2.post1", "1.2.r1", "1.rc1", "1.c1", "1.ab1", "1alpha", "1a",
			"1.0post", "1.0-1", "1.0-post1", "1.0_a1", "v1.0", "1.0dev1a1", "1.0post1a1", "1.0.dev1.post1", "1!", "!1", "1!!2",
			"1!2!3", "01!1", "1.0A1", "1.0RC1", "1.0.DEV1", "1.0a1b1", "1.0..dev1", "1.0.a.1", "1.0a.1", "1.0+", "1.0+-a", "1.0+a-",
			"1.0+a..b", "1.0+a.-b", "1.0+A.b_C-0", "1.0+a+b", "1.0 a1", "1.0\na1", "1.0pre1", "1.0preview1", "1.0c1", "1.0rc1", "1.0alpha1",
			"1.0a1", "1.0b1", "1.0beta1", "1.0rev1", "1.0r1", "1.0post1", "1.0.post1.dev1", "1.0a1.dev1", "1.0a1.post1", "1.0a1.post1.dev1",
			"1.0.dev1", "1.0", "1", "1.0.0", "1.0.0.0", "0!1.0", "1!1.0", "1.0.1", "0.0", "1.r", "1r1", "1.0.r1", "1.0.rc.1"})
	case 1, 2: // every numeric position with the full number profile (overflow, leading zeros)
		s := ""
		if r.Chance(30) {
			s = r.Num(3) + "!"
		}
		s += r.Dotted(r.Range(1, 3), 3, ".")
		if r.Chance(50) {
			s += r.Pick([]string{"", "."}) + r.Pick([]string{"a", "b", "rc", "alpha", "beta", "c"}) + r.Num(3)
		}
		if r.Chance(40) {
			s += r.Pick([]string{"", "."}) + r.Pick([]string{"post", "rev", "r"}) + r.Num(3)
		}
		if r.Chance(40) {
			s += r.Pick([]string{"", "."}) + "dev" + r.Num(3)
		}
		return s
	case 3: // same release, every combination of the three optional segments over tiny numbers
		s := r.Pick([]string{"1.0", "1", "1.0.0", "1.1", "0!1.0", "1!1"})
		if r.Chance(60) {
			s += r.Pick([]string{"a", "alpha", "b", "beta", "c", "rc", ".a", ".rc"}) + r.Pick([]string{"0", "1", "2"})
		}
		if r.Chance(50) {
			s += r.Pick([]string{".post", "post", ".rev", "r", ".r"}) + r.Pick([]string{"0", "1", "2"})
		}
		if r.Chance(50) {
			s += r.Pick([]string{".dev", "dev"}) + r.Pick([]string{"0", "1", "2"})
		}
		if r.Chance(20) {
			s += "+" + r.Pick([]string{"a", "1", "a.0", "x_y", "x-y.z"})
		}
		return s
	case 4: // local labels
		n := r.Range(1, 4)
		l := ""
		for i := 0; i < n; i++ {
			if i > 0 {
				l += r.Pick([]string{".", "-", "_", "..", "", "+"})
			}
			l += r.Pick([]string{"a", "Z", "0", "abc", "1a", "001", ""})
		}
		return r.Dotted(r.Range(1, 3), 0, ".") + r.Pick([]string{"+", "+", "+", ".+", "a1+", ".dev0+", ".post1+"}) + l
	default:
		return genPypi(r)
	}
}

func pypiBase(r *RNG, p *Pool) string {
	if r.Chance(35) {
		return r.Pick([]string{"1", "1.2", "1.2.3", "1.2.3.4", "0", "0.0", "1+a", "1.2+a", "1!1.2", "1!2", "1a1", "1.2a1", "1.2.post1",
			"1.2.dev1", "9223372036854775807", "9223372036854775807.1", "1.9223372036854775807", "1.9223372036854775807.0",
			"9223372036854775807+a", "9223372036854775806.0", "9223372036854775808", "1.9223372036854775808", "01.02", "1.2 ", "", ".", "*", "1.*", "1.2rc1.post2.dev3+l",
			"1!1", "1!1.2.3", "2!0", "0!1.2", "00!1.2", "01!1.2", "9223372036854775807!1.2", "9223372036854775808!1", "1!9223372036854775807",
			"1!1.9223372036854775807", "1!1.2a1", "1!1.2.post1", "1!1.2.dev0", "1!1+l", "1.0a1", "1.0.post2", "1.0.dev3", "1.2.3.4.5", "0.0.0",
			"1!", "!1", "1!!2", "1.2.", "1..2", " 1.2", "1 "})
	}
	return strings.TrimSpace(r.Pick(p.Strs))
}

func genPypiRangeX(r *RNG, p *Pool) string {
	b := pypiBase(r, p)
	one := func() string {
		b := pypiBase(r, p)
		sp := r.Pick([]string{"", "", " ", "  ", "\t"})
		switch r.Intn(12) {
		case 0:
			return "~=" + sp + b
		case 1:
			return "==" + sp + b + ".*"
		case 2:
			return "!=" + sp + b + ".*"
		case 3:
			return "===" + sp + b + r.Pick([]string{"", "", " ", ".*"})
		case 4:
			return r.Pick([]string{">=", "<=", "<", ">", "===", "~="}) + sp + b + ".*"
		case 5:
			return r.Pick([]string{"==", "!="}) + sp + b + r.Pick([]string{" .*", ".* ", ".*.*", "*", ".x", ". *", ".*a"})
		case 6:
			return r.Pick([]string{"=", "====", "~==", "=<", "=>", "<>", "~", "^", "~>", "== =", "=== =", "!==", "<==", "> =", "~ ="}) + sp + b
		case 7:
			return r.Pick([]string{"===", "~=", "==", "!=", "<=", ">=", "<", ">", ""}) + sp
		case 8:
			return ""
		default:
			return r.Pick([]string{"===", "~=", "==", "!=", "<=", ">=", "<", ">", ""}) + sp + b
		}
	}
	switch r.Intn(6) {
	case 0:
		return "===" + r.Pick([]string{"", " "}) + r.Pick(p.Strs)
	case 1:
		return "~=" + b
	case 2:
		return r.Pick([]string{"==", "!="}) + b + ".*"
	default:
		n := r.Range(1, 3)
		s := one()
		for i := 1; i < n; i++ {
			s += r.Pick([]string{",", ", ", " ,", " , ", ",,", ";", " "}) + one()
		}
		return s
	}
}

func init() {
	old := versionGens["pypi"]
	_ = old
	versionGens["pypi"] = func(r *RNG) string {
		if r.Chance(40) {
			return genPypiX(r)
		}
		return genPypi(r)
	}
	extraRangeGens["pypi"] = append(extraRangeGens["pypi"], genPypiRangeX)
}
