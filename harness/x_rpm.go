package main

import "strings"

// Extra generators for the rpm ecosystem: epoch edge cases, last-hyphen split, tilde / caret /
// underscore placement, trailing and leading separators, segment-boundary neighbours, and the
// comma / whitespace / operator corner cases of the range grammar.

var rpmEpochs = []string{"0", "1", "2", "00", "01", "007", "10", "2147483648", "9223372036854775807",
	"9223372036854775808", "18446744073709551616", "99999999999999999999", "0000000000000000000001", "", "-1", "+1", "a", "1a", "~1"}

var rpmWords = []string{"a", "b", "z", "A", "Z", "rc", "RC", "beta", "alpha", "git", "el", "fc", "pre", "post", "_", "__", "a_b", "~", "~~", "~a", "a~", "~rc", "~_", "_~"}
var rpmSeps = []string{".", ".", ".", "+", "-", "^", "..", ".-", "+.", "^.", "-^", "", "", "~", "_"}

func rpmChunk(r *RNG) string {
	switch r.Intn(10) {
	case 0, 1, 2, 3:
		return r.Num(3)
	case 4, 5:
		return r.Pick(rpmWords)
	case 6:
		return r.Num(3) + r.Pick(rpmWords)
	case 7:
		return r.Pick(rpmWords) + r.Num(3)
	case 8:
		return r.Pick(rpmWords) + r.Num(1) + r.Pick(rpmWords)
	default:
		return r.Pick([]string{"0", "00", "000", "1", "01", "001", "10", "010"})
	}
}

func rpmPart(r *RNG) string {
	n := r.Range(1, 4)
	s := ""
	if r.Chance(8) {
		s = r.Pick([]string{".", "+", "^", "~", "_", "-"})
	}
	for i := 0; i < n; i++ {
		if i > 0 {
			s += r.Pick(rpmSeps)
		}
		s += rpmChunk(r)
	}
	if r.Chance(12) {
		s += r.Pick([]string{".", "+", "^", "~", "_", "..", ".0", ".00", "~~", "^~"})
	}
	return s
}

func genRpmX(r *RNG) string {
	s := ""
	switch {
	case r.Chance(30):
		s = r.Pick(rpmEpochs) + ":"
	case r.Chance(3):
		s = r.Pick([]string{":", "::", "1:2:", "1::", " :", "1 :", "1: "})
	}
	s += rpmPart(r)
	k := r.Intn(100)
	switch {
	case k < 35:
		s += "-" + rpmPart(r)
	case k < 43:
		s += "-" + rpmPart(r) + "-" + rpmPart(r)
	case k < 47:
		s += "-"
	case k < 50:
		s = strings.Replace(s, ":", ":-", 1)
		if !strings.Contains(s, ":") {
			s = "-" + s
		}
	case k < 52:
		s += "--" + rpmPart(r)
	}
	return s
}

// neighbours: take a string and perturb it in a way that matters to the segment scanner
func rpmNeighbour(r *RNG, s string) string {
	switch r.Intn(10) {
	case 0:
		return s + r.Pick([]string{".", "+", "^", ".0", "~", "~1", "a", "_", "-", ".a", "^1", "-0"})
	case 1:
		return strings.Replace(s, ".", r.Pick([]string{"+", "^", "-", "..", "", "_", "~", ".0"}), 1)
	case 2:
		return strings.Replace(s, "~", r.Pick([]string{"", "~~", ".~", "~.", "a~", "^"}), 1)
	case 3:
		return "0" + s
	case 4:
		return strings.Replace(s, "-", r.Pick([]string{".", "", "--", "-0", "~", "+"}), 1)
	case 5:
		return strings.ToUpper(s)
	case 6:
		return r.Pick([]string{"0:", "00:", "1:", "01:"}) + s
	case 7:
		if i := strings.Index(s, ":"); i >= 0 {
			return s[i+1:]
		}
		return s + "-" + s
	case 8:
		return strings.Replace(s, "1", r.Pick([]string{"01", "001", "10", "1.", "1a", "a1", "1_"}), 1)
	default:
		return strings.TrimRight(s, ".+^-~_0")
	}
}

func init() {
	old := versionGens["rpm"]
	var last string
	versionGens["rpm"] = func(r *RNG) string {
		k := r.Intn(100)
		var s string
		switch {
		case k < 40:
			s = old(r)
		case k < 75 || last == "":
			s = genRpmX(r)
		default:
			s = rpmNeighbour(r, last)
		}
		last = s
		return s
	}

	bound := func(r *RNG, p *Pool) string {
		if r.Chance(15) {
			return genRpmX(r)
		}
		return strings.TrimSpace(r.Pick(p.Strs))
	}
	ops := []string{">=", "<=", "!=", ">", "<", "=", "", "", "==", "=>", "=<", "<>", "!", "~", "^", ">>", "<<", "!==", ">=="}
	seps := []string{",", " ", ", ", " ,", " , ", ",,", "  ", "\t", ", ,", "\n", ",\t"}
	extraRangeGens["rpm"] = append(extraRangeGens["rpm"],
		// several constraints with every separator flavour, optional leading / trailing separators
		func(r *RNG, p *Pool) string {
			n := r.Range(1, 4)
			s := ""
			if r.Chance(25) {
				s = r.Pick(seps)
			}
			for i := 0; i < n; i++ {
				if i > 0 {
					s += r.Pick(seps)
				}
				s += r.Pick(ops[:7]) + bound(r, p)
			}
			if r.Chance(25) {
				s += r.Pick(seps)
			}
			return s
		},
		// odd operator spellings, operator separated from its bound, lone operators
		func(r *RNG, p *Pool) string {
			b := bound(r, p)
			switch r.Intn(8) {
			case 0:
				return r.Pick(ops) + " " + b
			case 1:
				return r.Pick(ops)
			case 2:
				return b + r.Pick(ops)
			case 3:
				return r.Pick(ops) + b + "," + r.Pick(ops)
			case 4:
				return r.Pick(ops) + r.Pick(ops) + b
			case 5:
				return r.Pick(ops) + b + r.Pick(seps) + r.Pick(ops) + " " + bound(r, p)
			case 6:
				return r.Pick([]string{",", ",,", " , ", ", ,"})
			default:
				return r.Pick(ops) + b
			}
		},
		// a bound surrounded by an interval on neighbours of the same bound
		func(r *RNG, p *Pool) string {
			b := bound(r, p)
			return r.Pick([]string{">=", ">"}) + b + r.Pick(seps) + r.Pick([]string{"<=", "<", "!="}) + rpmNeighbour(r, b)
		},
	)
}
