package main

import "strings"

// Extra generators for the semver ecosystem: leading zeros in every numeric position,
// numeric pre-release identifiers around and beyond int64 (strconv.Atoi saturation in
// comparePrerelease), empty identifiers, misplaced "+"/"-", and range texts exercising the
// three splitter modes (",", " ", single), tabs without a literal space, and the "*" wildcard.

var semverXIds = []string{
	"0", "00", "01", "1", "9", "10", "007",
	"9223372036854775806", "9223372036854775807", "9223372036854775808", "9223372036854775809",
	"18446744073709551616", "99999999999999999999", "99999999999999999998", "100000000000000000000",
	"-", "--", "-0", "0-", "a", "A", "Z", "z", "a0", "0a", "00a", "a-1", "1-a", "alpha", "beta", "rc",
	"", "_", "a_b", "a b", "é",
}

func genSemverXIds(r *RNG) string {
	n := r.Range(1, 4)
	ids := make([]string, n)
	for i := range ids {
		if r.Chance(50) {
			ids[i] = r.Pick(semverXIds)
		} else {
			ids[i] = r.Pick(semverIds)
		}
	}
	return strings.Join(ids, ".")
}

func genSemverX(r *RNG) string {
	k := r.Intn(100)
	switch {
	case k < 10: // hand-picked shapes
		return r.Pick([]string{
			"1.2.3-", "1.2.3+", "1.2.3-+b", "1.2.3+-", "1.2.3+a-b", "1.2.3-a+b+c", "1.2.3+a+b", "1.2.3-a-b+c-d",
			"1.2.3-.a", "1.2.3-a.", "1.2.3-a..b", "1.2.3+.a", "1.2.3+a.", "1.2.3+a..b", "1.2.3--", "1.2.3---.-",
			"1.2", "1", "1.2.3.4", "1.2.3.", ".1.2.3", "1..3", "v1.2.3", "=1.2.3", "1.2.3\n", "1.2.3\n-a", "1.2.3-a\nb",
			"+1.2.3", "-1.2.3", "1.-2.3", "1.+2.3", "1.2.-3", "1.2.3 -a", "1.2.3- a", "1 .2.3", "1.2.3+01", "1.2.3-01", "1.2.3-0",
			"1.2.3-00", "1.2.3-0.0", "1.2.3-0.00", "1.2.3-0a.00a", "00.0.0", "0.00.0", "0.0.00", "0.0.0",
			"9223372036854775807.9223372036854775807.9223372036854775807", "9223372036854775808.0.0", "0.9223372036854775808.0",
			"0.0.9223372036854775808", "1.2.3-١", "１.2.3",
		})
	case k < 75:
		s := r.Dotted(3, 3, ".")
		if r.Chance(70) {
			s += "-" + genSemverXIds(r)
		}
		if r.Chance(30) {
			s += "+" + genSemverXIds(r)
		}
		return s
	default: // same core, different pre-release: makes comparePrerelease decide
		s := r.Pick([]string{"1.0.0", "1.2.3", "0.0.0"}) + "-" + genSemverXIds(r)
		if r.Chance(15) {
			s += "+" + r.Pick([]string{"b", "1", "01", "a.b"})
		}
		return s
	}
}

func semverBound(r *RNG, p *Pool) string {
	if r.Chance(85) {
		return strings.TrimSpace(r.Pick(p.Strs))
	}
	return r.Pick([]string{"*", "1.2", "1", "", "1.2.3-", "x", "1.2.x", "v1.2.3", "01.2.3", "1.2.3-01", "1.2.3+01"})
}

var semverXOps = []string{">=", "<=", "!=", ">", "<", "=", "", "", "==", "=>", "=<", "<>", "~", "^", "~>", "!", ">==", "<=>", ">=<", "=*", "* "}
var semverXSeps = []string{" ", ",", ", ", " ,", " , ", "\t", "\n", " \t", "\t ", "  ", ",,", ", ,", " && ", " || ", ";"}

func genSemverRangeX(r *RNG, p *Pool) string {
	if r.Chance(12) {
		return r.Pick([]string{
			"*", " * ", "**", "* *", "*,*", "*, *", ",*", "*,", ",", ",,", " , ", ">=*", "=*", "*1.0.0", "1.0.0*", "* 1.0.0", "1.0.0 *",
			"1.0.0,*", "*,1.0.0", ">=", ">= ", ">=,1.0.0", ">= ,1.0.0", "1.0.0,", ",1.0.0", ",1.0.0,", "1.0.0,,2.0.0",
			"= 1.0.0", "=\t1.0.0", ">=\t1.0.0", ">= 1.0.0,< 2.0.0", ">= 1.0.0 < 2.0.0", ">=1.0.0\t<2.0.0", ">=1.0.0 \t<2.0.0",
			">=1.0.0\n<2.0.0", ">=1.0.0 \n<2.0.0", ">=1.0.0,\t<2.0.0", "\t>=1.0.0", ">=1.0.0\t", ">=>1.0.0", ">==1.0.0", "=>1.0.0",
			"!==1.0.0", "!1.0.0", "<>1.0.0", "1.0.0 - 2.0.0", "^1.0.0", "~1.0.0", "1.x", "1.0.0 || 2.0.0", ">=1.0.0-a,<1.0.0",
			">=1.0.0 ,<2.0.0", "=1.0.0 =1.0.0", "!=1.0.0,!=1.0.0", "1.0.0-a b", "1.0.0+a,b",
		})
	}
	n := 1
	if r.Chance(55) {
		n = r.Range(2, 4)
	}
	s := ""
	for i := 0; i < n; i++ {
		if i > 0 {
			s += r.Pick(semverXSeps)
		}
		op := r.Pick(semverXOps)
		if op != "" && r.Chance(25) {
			op += r.Pick([]string{" ", "  ", "\t"})
		}
		s += op + semverBound(r, p)
	}
	if r.Chance(8) {
		s = r.Pick([]string{" ", "\t", "\n", ","}) + s + r.Pick([]string{" ", "\n", ",", ""})
	}
	return s
}

func init() {
	old := versionGens["semver"]
	versionGens["semver"] = func(r *RNG) string {
		if r.Chance(40) {
			return genSemverX(r)
		}
		return old(r)
	}
	extraRangeGens["semver"] = append(extraRangeGens["semver"], genSemverRangeX)
}
