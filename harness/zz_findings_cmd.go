package main

import (
	"encoding/json"
	"fmt"
)

func init() {
	props["FINDINGS"] = func(ctx *Ctx) {
		for _, f := range loadFindings() {
			still, note := replayWitness(f)
			b, _ := json.Marshal(f.Witness)
			fmt.Printf("%-32s %-6s still_fails=%-5v %s %s\n", f.ID, f.Status, still, note, b)
		}
	}
}
