package main

import (
	"fmt"
	"os"
)

// VERIF_POOLDUMP=<eco>:<stream>:<n>: print the pool BuildPool makes (debugging aid).
func init() {
	spec := os.Getenv("VERIF_POOLDUMP")
	if spec == "" {
		return
	}
	var eco, stream string
	var n int
	fmt.Sscanf(spec, "%s", &spec)
	parts := splitN(spec, ':', 3)
	eco, stream = parts[0], parts[1]
	fmt.Sscan(parts[2], &n)
	defer os.Exit(0)
	e := ecoByName(eco)
	for seed := uint64(1); seed <= 3; seed++ {
		r := NewRNG(seed, stream+"/"+eco)
		p, _ := BuildPool(e, r, n, corpusVersions(eco))
		for _, s := range p.Strs {
			fmt.Printf("%d\t%q\n", seed, s)
		}
	}
}

func splitN(s string, sep byte, n int) []string {
	var out []string
	for len(out) < n-1 {
		i := -1
		for k := 0; k < len(s); k++ {
			if s[k] == sep {
				i = k
				break
			}
		}
		if i < 0 {
			break
		}
		out = append(out, s[:i])
		s = s[i+1:]
	}
	return append(out, s)
}
