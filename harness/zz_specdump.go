package main

import (
	"fmt"
	"os"
)

// SPECDUMP: development aid — prints every pair on which implementation and reference order
// differ (ecosystems from -eco), one per line: eco <TAB> a <TAB> b <TAB> impl <TAB> spec.
func init() {
	props["SPECDUMP"] = func(ctx *Ctx) {
		for _, e := range allEcos {
			if !ecoSelected(e.Name) || ecoFilter == "" {
				continue
			}
			r := NewRNG(ctx.Seed, "SPECDUMP/"+e.Name)
			extra := corpusVersions(e.Name)
			if g := extraSpecGens[e.Name]; g != nil {
				for i := 0; i < 400; i++ {
					extra = append(extra, g(r))
				}
			}
			p, _ := BuildPool(e, r, 500, extra)
			var reqs []string
			type ij struct{ i, j int }
			var pairs []ij
			for i := range p.Strs {
				for j := range p.Strs {
					if i < j && isASCII(p.Strs[i]) && isASCII(p.Strs[j]) {
						reqs = append(reqs, "SP "+e.Name+" "+hx(p.Strs[i])+" "+hx(p.Strs[j]))
						pairs = append(pairs, ij{i, j})
					}
				}
			}
			ans, _ := ctx.Pool.Map(reqs)
			tot, bad := 0, 0
			for k, a := range ans {
				if a == "x" {
					continue
				}
				tot++
				got := fmt.Sprint(cmpS(e, p.Vals[pairs[k].i], p.Vals[pairs[k].j]))
				if got != a {
					bad++
					fmt.Printf("%s\t%s\t%s\t%s\t%s\n", e.Name, p.Strs[pairs[k].i], p.Strs[pairs[k].j], got, a)
				}
			}
			fmt.Fprintf(os.Stderr, "%s: %d valid pairs, %d disagreements\n", e.Name, tot, bad)
		}
	}
}
