import re,sys
# transcription of apk-tools 2.12 src/version.c (get_token / apk_version_compare_blob)
INVALID,DIGIT_OR_ZERO,DIGIT,LETTER,SUFFIX,SUFFIX_NO,REVISION_NO,END=-1,0,1,2,3,4,5,6
PRE=["alpha","beta","pre","rc"]; POST=["cvs","svn","git","hg","p"]
def next_token(t, s):
    # returns new type given current type and remaining string (first char decides)
    if not s: return END
    c=s[0]
    if (t==DIGIT or t==DIGIT_OR_ZERO) and c.islower(): return LETTER
    if t==LETTER and c.isdigit(): return DIGIT  # not in real apk? keep invalid
    if t==SUFFIX and c.isdigit(): return SUFFIX_NO
    if c=='.': return DIGIT_OR_ZERO
    if c=='_': return SUFFIX
    if c=='-':
        if len(s)>1 and s[1]=='r': return REVISION_NO
        return INVALID
    return INVALID
def get_token(t, s):
    """returns (value, newtype_for_next, rest) ; mirrors get_token: consumes token of type t from s"""
    if not s: return 0, END, s
    if t==DIGIT_OR_ZERO and s[0]=='0' and len(s)>1 and s[1].isdigit():
        # leading zero: compare as fraction -> apk returns negative index trick; emulate with string
        i=0
        while i<len(s) and s[i]=='0': i+=1
        v=-i
        # then falls to DIGIT parsing of the rest? real apk: "while (i < blob->len && blob->ptr[i] == '0') i++; nt = TOKEN_DIGIT; v = -i; break"
        rest=s[i:]
        return v, DIGIT, rest, True
    if t in (DIGIT,DIGIT_OR_ZERO):
        m=re.match(r'\d+',s)
        if not m: return 0,INVALID,s,False
        v=int(m.group()); rest=s[m.end():]
    elif t==LETTER:
        v=ord(s[0]); rest=s[1:]
    elif t==SUFFIX:
        m=re.match(r'[a-z]+',s)
        if not m: return 0,INVALID,s,False
        w=m.group()
        if w in PRE: v=PRE.index(w)-len(PRE)
        elif w in POST: v=POST.index(w)
        else: return 0,INVALID,s,False
        rest=s[m.end():]
    elif t in (SUFFIX_NO,REVISION_NO):
        m=re.match(r'\d+',s)
        if not m: return 0,INVALID,s,False
        v=int(m.group()); rest=s[m.end():]
    else: return 0,INVALID,s,False
    return v,None,rest,False
def step(t,s):
    # consume separator then decide next type
    if not s: return END,s
    c=s[0]
    if t in (DIGIT,DIGIT_OR_ZERO):
        if c.islower(): return LETTER,s
    if t==SUFFIX and c.isdigit(): return SUFFIX_NO,s
    if c=='.' and t in (DIGIT,DIGIT_OR_ZERO): return DIGIT_OR_ZERO,s[1:]
    if c=='_': return SUFFIX,s[1:]
    if c=='-' and len(s)>1 and s[1]=='r': return REVISION_NO,s[2:]
    return INVALID,s
def tokens(s):
    out=[]; t=DIGIT; rest=s
    while t not in (END,INVALID):
        r=get_token(t,rest)
        v,nt,rest2,lz=r
        if nt==INVALID: t=INVALID; break
        if lz:
            out.append((t,v)); t=DIGIT; rest=rest2
            # after leading zeros the remaining digits form another DIGIT token
            if not rest or not rest[0].isdigit():
                t,rest=step(DIGIT,rest)
            continue
        out.append((t,v)); t,rest=step(t,rest2)
    return out,t
def compare(a,b):
    ta,ea=tokens(a); tb,eb=tokens(b)
    i=0
    while i<len(ta) and i<len(tb):
        (at,av),(bt,bv)=ta[i],tb[i]
        if at!=bt: break
        if av!=bv: return -1 if av<bv else 1
        i+=1
    at=ta[i][0] if i<len(ta) else ea
    bt=tb[i][0] if i<len(tb) else eb
    if at==bt: return 0
    if at==SUFFIX and ta[i][1]<0: return -1
    if bt==SUFFIX and tb[i][1]<0: return 1
    if at>bt: return -1
    return 1
if __name__=='__main__':
    bad=0;n=0;skipped=0
    for line in open('/repo/pkg/ecosystem/alpine/testdata/compare.txt'):
        line=line.split('#')[0].strip()
        if not line: continue
        a,op,b=line.split()
        if '~' in a or '~' in b or not re.fullmatch(r'[0-9a-z._-]+',a+b): skipped+=1; continue
        e={'<':-1,'=':0,'>':1}[op]
        n+=1
        try: r=compare(a,b)
        except Exception as ex: r=None
        if r!=e:
            bad+=1
            if bad<15: print("FAIL",a,op,b,"got",r)
    print("rows",n,"skipped",skipped,"failures",bad)
