import random, subprocess
src=open('/tmp/specs/apk_ref.py').read().split("if __name__=='__main__':")[0]
ns={}; exec(src,ns)
random.seed(9)
SUF=["alpha","beta","pre","rc","cvs","svn","git","hg","p"]
def gen(n):
    s='.'.join(str(random.choice([0,1,2,9,10,11,100])) for _ in range(n))
    if random.random()<0.3: s+=random.choice("abz")
    for _ in range(random.choice([0,0,1,1,2,3])):
        s+='_'+random.choice(SUF)
        if random.random()<0.6: s+=str(random.choice([0,1,2,10]))
    if random.random()<0.4: s+='-r'+str(random.choice([0,1,2,10]))
    return s
pairs=[]
for _ in range(60000):
    n=random.randint(1,4); pairs.append((gen(n),gen(n)))
inp="".join(f"alpine\t{a}\t{b}\n" for a,b in pairs)
out=subprocess.run(['/var/tmp/batch/batch'],input=inp,capture_output=True,text=True).stdout.split()
bad=0;acc=0;cls={}
for (a,b),r in zip(pairs,out):
    if r.startswith('E'): continue
    acc+=1
    e=ns['compare'](a,b)
    if int(r)!=e:
        bad+=1
        if bad<12: print("MISMATCH",a,b,"go",r,"apk",e)
print("pairs",len(pairs),"accepted",acc,"mismatches",bad)
