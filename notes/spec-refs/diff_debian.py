import random, subprocess, sys
sys.argv=[sys.argv[0]]
import importlib.util
spec=importlib.util.spec_from_file_location("d","/tmp/specs/dpkg_ref.py")
# avoid running main part: read functions by exec of the top part
src=open('/tmp/specs/dpkg_ref.py').read().split("random.seed(")[0]
ns={}; exec(src,ns)
random.seed(5)
alpha="0019a.b+~-Z"
def gen():
    s=random.choice("0123456789")
    for _ in range(random.randint(0,9)): s+=random.choice(alpha)
    if random.random()<0.2: s=str(random.randint(0,3))+":"+s
    if s.endswith('-'): s+='1'
    return s
pairs=[]
for _ in range(60000):
    a,b=gen(),gen()
    if random.random()<0.35: b=a[:random.randint(1,len(a))]+random.choice(["","0","a","~","+","00","-0","-1"])
    if b.endswith('-'): b+='0'
    pairs.append((a,b))
inp="".join(f"debian\t{a}\t{b}\n" for a,b in pairs)
out=subprocess.run(['/var/tmp/batch/batch'],input=inp,capture_output=True,text=True).stdout.split()
bad=0; acc=0
for (a,b),r in zip(pairs,out):
    if r.startswith('E'): continue
    acc+=1
    e=ns['full'](a,b,ns['token_cmp'])
    if int(r)!=e:
        bad+=1
        if bad<10: print("MISMATCH",a,b,"go",r,"dpkgref",e)
print("pairs",len(pairs),"accepted",acc,"mismatches",bad)
