import random, subprocess, re, collections
src=open('/tmp/specs/maven_ref.py').read().split("def jar(pairs):")[0]
ns={}; exec(src,ns)
random.seed(21)
known=["alpha","beta","milestone","rc","cr","snapshot","ga","final","release","sp"]
quals=known+["foo","bar","x"]+["a","b","m"]+["RC","Alpha","SNAPSHOT","Final"]
def shape():
    n=random.randint(1,4)
    nums=".".join(str(random.choice([0,0,1,2,10])) for _ in range(n))
    r=random.random()
    if r<0.2: return nums,"plain",None
    if r<0.3: return nums+"-"+str(random.choice([0,1,2,10])),"build",None
    sep=random.choice([".","-"]); q=random.choice(quals)
    r=random.random()
    if r<0.35: return nums+sep+q,"qual",q.lower()
    if r<0.7: return nums+sep+q+str(random.choice([0,1,2,10])),"qualnum-glued",q.lower()
    return nums+sep+q+random.choice([".","-"])+str(random.choice([0,1,2,10])),"qualnum-sep",q.lower()
pairs=[(shape(),shape()) for _ in range(60000)]
inp="".join(f"maven\t{a[0]}\t{b[0]}\n" for a,b in pairs)
out=subprocess.run(['/var/tmp/batch/batch'],input=inp,capture_output=True,text=True).stdout.split()
bad=0;acc=0;cat=collections.Counter();ex={}
def qclass(q):
    if q is None: return "-"
    if q in ("a","b","m"): return "alias1"
    if q in ("ga","final","release"): return "release-word"
    if q=="sp": return "sp"
    if q in known: return "known-pre"
    return "unknown"
for (a,b),r in zip(pairs,out):
    if r.startswith('E'): continue
    acc+=1
    e=ns['compare'](a[0],b[0])
    if int(r)!=e:
        bad+=1
        k=tuple(sorted([(a[1],qclass(a[2])),(b[1],qclass(b[2]))]))
        cat[k]+=1; ex.setdefault(k,(a[0],b[0],r,e))
print("pairs",len(pairs),"accepted",acc,"mismatches",bad)
for k,c in cat.most_common(40): print(c,k,ex[k])
