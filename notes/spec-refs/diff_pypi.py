import random, subprocess, re
src=open('/tmp/specs/pep440_ref.py').read().split("random.seed(")[0]
ns={}; exec(src,ns)
KIND=ns['KIND']
random.seed(3)
def gen():
    s=''
    if random.random()<0.15: s+=str(random.randint(0,2))+'!'
    s+='.'.join(str(random.choice([0,0,1,2,10])) for _ in range(random.randint(1,4)))
    if random.random()<0.4: s+=random.choice(['','.'])+random.choice(list(KIND))+str(random.choice([0,1,2,10]))
    if random.random()<0.3: s+=random.choice(['','.'])+random.choice(['post','rev','r'])+str(random.choice([0,1,2]))
    if random.random()<0.3: s+=random.choice(['','.'])+'dev'+str(random.choice([0,1,2]))
    if random.random()<0.15: s+='+'+random.choice(['abc','1','1.2','abc.1','ABC','a-1','10','2'])
    return s
pairs=[(gen(),gen()) for _ in range(60000)]
inp="".join(f"pypi\t{a}\t{b}\n" for a,b in pairs)
out=subprocess.run(['/var/tmp/batch/batch'],input=inp,capture_output=True,text=True).stdout.split()
bad=0; badnolocal=0; acc=0
for (a,b),r in zip(pairs,out):
    if r.startswith('E'): continue
    acc+=1
    e=ns['cmp'](a,b)
    if int(r)!=e:
        bad+=1
        if '+' not in a and '+' not in b:
            badnolocal+=1
            if badnolocal<10: print("MISMATCH(no local)",a,b,"go",r,"ref",e)
print("pairs",len(pairs),"accepted",acc,"mismatches",bad,"of which without local label",badnolocal)
