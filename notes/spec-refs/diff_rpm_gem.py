import random, subprocess, collections, re
ns={}; exec(open('/tmp/specs/rpm_ref.py').read().split('T="""')[0],ns)
gs={}; exec(open('/tmp/specs/gem_ref.py').read().split('T=[')[0],gs)
random.seed(4)
def run(eco,pairs):
    inp="".join(f"{eco}\t{a}\t{b}\n" for a,b in pairs)
    return subprocess.run(['/var/tmp/batch/batch'],input=inp,capture_output=True,text=True).stdout.split()
# ---- rpm: full EVR compare per property: epoch, version, release(missing<present)
def rpm_full(a,b):
    def split(s):
        e=0
        m=re.match(r'(\d+):(.*)$',s)
        if m: e=int(m.group(1)); s=m.group(2)
        if '-' in s: i=s.rindex('-'); return e,s[:i],s[i+1:]
        return e,s,None
    ea,va,ra=split(a); eb,vb,rb=split(b)
    if ea!=eb: return -1 if ea<eb else 1
    c=ns['rpmvercmp'](va,vb)
    if c: return c
    if ra is None and rb is None: return 0
    if ra is None: return -1
    if rb is None: return 1
    return ns['rpmvercmp'](ra,rb)
def rpm_gen(kind):
    n=random.randint(1,4)
    s='.'.join(str(random.choice([0,1,2,10,"01"])) for _ in range(n))
    if kind>=1 and random.random()<0.4: s+='~'+random.choice(['rc','beta','a'])+str(random.choice(['',1,2]))
    if kind>=2 and random.random()<0.4: s+=random.choice(['a','b','rc1','.a','_1','^git1','+b','.rc.1','p1'])
    if random.random()<0.4: s+='-'+str(random.choice([1,2,10]))+random.choice(['','.el8','.fc30'])
    return s
for kind,label in [(0,"numeric dotted [+ -release]"),(1,"... + ~tag"),(2,"... + letters/_/^ tails")]:
    pairs=[(rpm_gen(kind),rpm_gen(kind)) for _ in range(30000)]
    out=run('rpm',pairs); bad=0;acc=0;ex=[]
    for (a,b),r in zip(pairs,out):
        if r.startswith('E'): continue
        acc+=1
        e=rpm_full(a,b)
        if int(r)!=e:
            bad+=1
            if len(ex)<5: ex.append((a,b,r,e))
    print("rpm",label,"accepted",acc,"mismatches",bad,ex)
# ---- gem
def gem_gen(kind):
    n=random.randint(1,4)
    s='.'.join(str(random.choice([0,1,2,10])) for _ in range(n))
    if kind==1 and random.random()<0.6: s+='-'+random.choice(['alpha','beta','rc','pre'])
    if kind==2 and random.random()<0.6: s+='.'+random.choice(['alpha','beta','rc','pre','a'])+str(random.choice(['',1,2,10]))
    if kind==3 and random.random()<0.6: s+='-'+random.choice(['alpha','beta','rc'])+random.choice(['1','2','10','.1','.2','.10'])
    return s
for kind,label in [(0,"numeric only"),(1,"-word"),(2,".wordN"),(3,"-wordN / -word.N")]:
    pairs=[(gem_gen(kind),gem_gen(kind)) for _ in range(30000)]
    out=run('gem',pairs); bad=0;acc=0;ex=[]
    for (a,b),r in zip(pairs,out):
        if r.startswith('E'): continue
        acc+=1
        e=gs['cmp'](a,b)
        if int(r)!=e:
            bad+=1
            if len(ex)<5: ex.append((a,b,r,e))
    print("gem",label,"accepted",acc,"mismatches",bad,ex)
# cross-spelling check for gem
pairs=[]
W=['alpha','beta','rc','pre','a']
for _ in range(30000):
    def g():
        s='.'.join(str(random.choice([0,1,2])) for _ in range(random.randint(1,3)))
        r=random.random()
        if r<0.3: return s
        w=random.choice(W); n=random.choice(['','1','2','10','.1','.2','.10'])
        return s+random.choice(['-','.'])+w+n
    a=g(); b=g()
    if not re.fullmatch(r'[0-9]+(\.[0-9a-zA-Z]+)*(-[0-9A-Za-z-]+(\.[0-9A-Za-z-]+)*)?',a) or not re.fullmatch(r'[0-9]+(\.[0-9a-zA-Z]+)*(-[0-9A-Za-z-]+(\.[0-9A-Za-z-]+)*)?',b): continue
    pairs.append((a,b))
out=run('gem',pairs); bad=0;acc=0;ex=[]
for (a,b),r in zip(pairs,out):
    if r.startswith('E'): continue
    acc+=1
    e=gs['cmp'](a,b)
    if int(r)!=e:
        bad+=1
        if len(ex)<8: ex.append((a,b,r,e))
print("gem mixed spellings accepted",acc,"mismatches",bad,ex)
