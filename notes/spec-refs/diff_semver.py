import random, subprocess, re
def parse(s):
    m=re.fullmatch(r'v?(\d+)\.(\d+)\.(\d+)(?:-([0-9A-Za-z-]+(?:\.[0-9A-Za-z-]+)*))?(?:\+([0-9A-Za-z-]+(?:\.[0-9A-Za-z-]+)*))?',s)
    return [int(m.group(1)),int(m.group(2)),int(m.group(3))], (m.group(4).split('.') if m.group(4) else [])
def cid(a,b):
    an,bn=a.isdigit(),b.isdigit()
    if an and bn: return (int(a)>int(b))-(int(a)<int(b))
    if an: return -1
    if bn: return 1
    return (a>b)-(a<b)
def prec(a,b):
    ca,pa=parse(a); cb,pb=parse(b)
    if ca!=cb: return -1 if ca<cb else 1
    if not pa and not pb: return 0
    if not pa: return 1
    if not pb: return -1
    for x,y in zip(pa,pb):
        c=cid(x,y)
        if c: return c
    return (len(pa)>len(pb))-(len(pa)<len(pb))
random.seed(11)
ids=['0','1','2','10','123456789012345678','a','alpha','beta','rc','-5','a-b','-','A','Z','x','0a','1-1','--','pseudo']
def ts(): return random.choice(['20200101000000','20210315123045','20191231235959'])
def gen(prefix):
    core=[random.choice([0,1,2]),random.choice([0,1,10]),random.choice([0,3])]
    r=random.random()
    s=prefix+'.'.join(map(str,core))
    if prefix and r<0.12: return f"v{core[0]}.0.0-{ts()}-abcdefabcdef"
    if prefix and r<0.24: return f"{s}-{random.choice(['rc','beta','pre'])}.0.{ts()}-abcdefabcdef"
    if prefix and r<0.36: return f"{s}-0.{ts()}-abcdefabcdef"
    if r<0.85:
        s+='-'+'.'.join(random.choice(ids) for _ in range(random.randint(1,4)))
    if random.random()<0.15: s+='+'+random.choice(['b1','1.2','x-y'])
    return s
tot={}
for eco,prefix in [('golang','v'),('npm',''),('semver','')]:
    pairs=[(gen(prefix),gen(prefix)) for _ in range(40000)]
    inp="".join(f"{eco}\t{a}\t{b}\n" for a,b in pairs)
    out=subprocess.run(['/var/tmp/batch/batch'],input=inp,capture_output=True,text=True).stdout.split()
    bad=0;acc=0
    for (a,b),r in zip(pairs,out):
        if r.startswith('E'): continue
        acc+=1
        e=prec(a,b)
        if int(r)!=e:
            bad+=1
            if bad<6: print(eco,"MISMATCH",a,b,"go",r,"semver",e)
    print(eco,"pairs",len(pairs),"accepted",acc,"mismatches",bad)
