import random, subprocess, sys
def order(c):
    if c is None: return 0
    if c.isdigit(): return 0
    if c.isascii() and c.isalpha(): return ord(c)
    if c == '~': return -1
    return ord(c) + 256
def verrevcmp(a, b):
    i = j = 0
    while i < len(a) or j < len(b):
        first_diff = 0
        while (i < len(a) and not a[i].isdigit()) or (j < len(b) and not b[j].isdigit()):
            ac = order(a[i] if i < len(a) else None)
            bc = order(b[j] if j < len(b) else None)
            if ac != bc: return -1 if ac < bc else 1
            i += 1; j += 1
        while i < len(a) and a[i] == '0': i += 1
        while j < len(b) and b[j] == '0': j += 1
        while i < len(a) and j < len(b) and a[i].isdigit() and b[j].isdigit():
            if not first_diff: first_diff = ord(a[i]) - ord(b[j])
            i += 1; j += 1
        if i < len(a) and a[i].isdigit(): return 1
        if j < len(b) and b[j].isdigit(): return -1
        if first_diff: return -1 if first_diff < 0 else 1
    return 0
# token-style spec (the one DESIGN proposes): pairs of (nondigit run, digit run)
def tokens(s):
    out=[]; i=0
    while i < len(s):
        j=i
        while j < len(s) and not s[j].isdigit(): j+=1
        k=j
        while k < len(s) and s[k].isdigit(): k+=1
        out.append((s[i:j], s[j:k])); i=k
    return out
def cmp_nondigit(x,y):
    for n in range(max(len(x),len(y))):
        a=order(x[n] if n<len(x) else None); b=order(y[n] if n<len(y) else None)
        if a!=b: return -1 if a<b else 1
    return 0
def cmp_digits(x,y):
    x=x.lstrip('0'); y=y.lstrip('0')
    if len(x)!=len(y): return -1 if len(x)<len(y) else 1
    return (x>y)-(x<y)
def token_cmp(a,b):
    ta,tb=tokens(a),tokens(b)
    for n in range(max(len(ta),len(tb))):
        x=ta[n] if n<len(ta) else ('',''); y=tb[n] if n<len(tb) else ('','')
        c=cmp_nondigit(x[0],y[0])
        if c: return c
        c=cmp_digits(x[1],y[1])
        if c: return c
    return 0
def split(v):
    epoch=0
    if ':' in v:
        e,v=v.split(':',1); epoch=int(e)
    if '-' in v:
        i=v.rindex('-'); up,rev=v[:i],v[i+1:]
    else: up,rev=v,''
    return epoch,up,rev
def full(a,b,f):
    ea,ua,ra=split(a); eb,ub,rb=split(b)
    if ea!=eb: return -1 if ea<eb else 1
    c=f(ua,ub)
    if c: return c
    return f(ra,rb)
def dpkg(a,b):
    for op,val in (('lt',-1),('eq',0),('gt',1)):
        if subprocess.run(['dpkg','--compare-versions',a,op,b],stderr=subprocess.PIPE).returncode==0: return val
    return None
random.seed(int(sys.argv[1]) if len(sys.argv)>1 else 1)
alpha="0019a.b+~-Z"
def gen():
    s=random.choice("0123456789")
    for _ in range(random.randint(0,8)): s+=random.choice(alpha)
    if random.random()<0.2: s=str(random.randint(0,3))+":"+s
    if s.endswith('-'): s+='1'
    return s
bad=0; n=0
for _ in range(int(sys.argv[2]) if len(sys.argv)>2 else 1500):
    a,b=gen(),gen()
    if random.random()<0.3: b=a[:random.randint(1,len(a))]+random.choice(["","0","a","~","+","00"])
    if b.endswith('-') : b+='0'
    r=dpkg(a,b)
    if r is None: continue
    n+=1
    x=full(a,b,verrevcmp); y=full(a,b,token_cmp)
    if not (r==x==y):
        bad+=1; print("MISMATCH",a,b,"dpkg",r,"verrevcmp",x,"token",y)
print("pairs",n,"mismatches",bad)
