import re
PAT=re.compile(r'\A\s*([0-9]+(?:\.[0-9a-zA-Z]+)*(-[0-9A-Za-z-]+(\.[0-9A-Za-z-]+)*)?)?\s*\Z')
def segments(v):
    v=v.strip()
    if v=='' : v='0'
    v=v.replace('-','.pre.')
    return [int(s) if s.isdigit() else s for s in re.findall(r'[0-9]+|[a-z]+',v,re.I)]
def canonical(v):
    segs=segments(v)
    i=0
    while i<len(segs) and isinstance(segs[i],int): i+=1
    num,rest=segs[:i],segs[i:]
    def drop(l):
        l=list(l)
        while l and l[-1]==0: l.pop()
        return l
    return drop(num)+drop(rest)
def cmp(a,b):
    l,r=canonical(a),canonical(b)
    for i in range(max(len(l),len(r))):
        x=l[i] if i<len(l) else 0
        y=r[i] if i<len(r) else 0
        if x==y: continue
        if isinstance(x,str) and isinstance(y,int): return -1
        if isinstance(x,int) and isinstance(y,str): return 1
        return -1 if x<y else 1
    return 0
T=[("1.0","1.0.0",0),("1.0","1.0.a",1),("1.8.2","0.0.0",1),("1.8.2","1.8.2.a",1),("1.8.2.b","1.8.2.a",1),("1.8.2.a","1.8.2",-1),("1.8.2.a10","1.8.2.a9",1),("","0",0),("0.beta.1","0.0.beta.1",0),("0.0.beta","0.0.beta.1",-1),("0.0.beta","0.beta.1",-1),("5.a","5.0.0.rc2",-1),("5.x","5.0.0.rc2",1),
   ("2.0.0.rc1","2.0.0",-1),("1.0.0-beta.2","1.0.0-beta.10",-1),("1.0.0-1","1.0.0",-1),("1.2.b1","1.2.b.1",0),("1.0.0.pre","1.0.0",-1),("1.9.3","1.9.2.99",1)]
bad=0
for a,b,e in T:
    if cmp(a,b)!=e: bad+=1; print("FAIL",a,b,e,cmp(a,b))
print(len(T),"rows, failures",bad)
