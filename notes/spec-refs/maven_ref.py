import random, subprocess, sys, re
QUALS=["alpha","beta","milestone","rc","snapshot","","sp"]
ALIASES={"ga":"","final":"","release":"","cr":"rc"}
# --- transcription of org.apache.maven.artifact.versioning.ComparableVersion (3.8.x) ---
class IntItem:
    def __init__(s,v): s.v=v
    def isnull(s): return s.v==0
    kind=0
class StrItem:
    def __init__(s,v,followed):
        if followed and len(v)==1:
            v={"a":"alpha","b":"beta","m":"milestone"}.get(v,v)
        s.v=ALIASES.get(v,v)
    def isnull(s): return cq(s.v)==cq("")
    kind=1
class ListItem:
    def __init__(s): s.items=[]
    def isnull(s): return len(s.items)==0
    kind=2
    def normalize(s):
        i=len(s.items)-1
        while i>=0:
            last=s.items[i]
            if last.isnull(): s.items.pop(i)
            elif not isinstance(last,ListItem): break
            i-=1
def cq(q):
    if q in QUALS: return str(QUALS.index(q))
    return str(len(QUALS))+"-"+q
def parse_item(isdigit,buf):
    if isdigit:
        return IntItem(int(buf))
    return StrItem(buf,False)
def parse(version):
    version=version.lower()
    items=ListItem(); lst=items; stack=[lst]
    isdigit=False; start=0
    i=0
    while i<len(version):
        c=version[i]
        if c=='.':
            if i==start: lst.items.append(IntItem(0))
            else: lst.items.append(parse_item(isdigit,version[start:i]))
            start=i+1
        elif c=='-':
            if i==start: lst.items.append(IntItem(0))
            else: lst.items.append(parse_item(isdigit,version[start:i]))
            start=i+1
            new=ListItem(); lst.items.append(new); lst=new; stack.append(lst)
        elif c.isdigit():
            if not isdigit and i>start:
                if lst.items:
                    new=ListItem(); lst.items.append(new); lst=new; stack.append(lst)
                lst.items.append(StrItem(version[start:i],True))
                start=i
                new=ListItem(); lst.items.append(new); lst=new; stack.append(lst)
            isdigit=True
        else:
            if isdigit and i>start:
                lst.items.append(parse_item(True,version[start:i]))
                start=i
                new=ListItem(); lst.items.append(new); lst=new; stack.append(lst)
            isdigit=False
        i+=1
    if len(version)>start:
        if not isdigit and lst.items:
            new=ListItem(); lst.items.append(new); lst=new; stack.append(lst)
        lst.items.append(parse_item(isdigit,version[start:]))
    while stack:
        l=stack.pop(); l.normalize()
    return items
def sgn(x): return (x>0)-(x<0)
def cmp_item(a,b):
    # a is never None
    if isinstance(a,IntItem):
        if b is None: return 0 if a.v==0 else 1
        if isinstance(b,IntItem): return sgn(a.v-b.v)
        if isinstance(b,StrItem): return 1
        if isinstance(b,ListItem): return 1
    if isinstance(a,StrItem):
        if b is None: return sgn((cq(a.v)>cq(""))-(cq(a.v)<cq("")))
        if isinstance(b,IntItem): return -1
        if isinstance(b,StrItem): return (cq(a.v)>cq(b.v))-(cq(a.v)<cq(b.v))
        if isinstance(b,ListItem): return -1
    if isinstance(a,ListItem):
        if b is None:
            for it in a.items:
                r=cmp_item(it,None)
                if r: return r
            return 0
        if isinstance(b,IntItem): return -1
        if isinstance(b,StrItem): return 1
        n=max(len(a.items),len(b.items))
        for k in range(n):
            l=a.items[k] if k<len(a.items) else None
            r=b.items[k] if k<len(b.items) else None
            if l is None:
                res = 0 if r is None else -cmp_item(r,l)
            else: res=cmp_item(l,r)
            if res: return res
        return 0
def compare(a,b): return cmp_item(parse(a),parse(b))
def jar(pairs):
    args=[]
    for a,b in pairs: args += [a,b]
    out=subprocess.run(['java','-cp','/usr/share/java/maven-artifact-3.x.jar','org.apache.maven.artifact.versioning.ComparableVersion']+args,capture_output=True,text=True).stdout
    res=[]
    lines=[l for l in out.splitlines() if re.match(r'^\s+\S+ [<>=]+ \S+$',l)]
    # comparison lines appear after each version except the last: take even-indexed ones
    for k,(a,b) in enumerate(pairs):
        l=lines[2*k].split()
        assert l[0]==a and l[2]==b,(l,a,b)
        res.append({'<':-1,'==':0,'>':1}[l[1]])
    return res
random.seed(int(sys.argv[1]) if len(sys.argv)>1 else 1)
quals=["alpha","beta","milestone","rc","cr","snapshot","ga","final","release","sp","foo","bar","a","b","m","RC","Alpha","SNAPSHOT","Final","x"]
def gen():
    n=random.randint(1,4)
    s=".".join(str(random.choice([0,0,1,2,10])) for _ in range(n))
    r=random.random()
    if r<0.25: return s
    sep=random.choice([".","-"])
    q=random.choice(quals)
    r=random.random()
    if r<0.3: return s+sep+q
    if r<0.6: return s+sep+q+str(random.choice([0,1,2,10]))
    if r<0.8: return s+sep+q+random.choice([".","-"])+str(random.choice([0,1,2,10]))
    return s+"-"+str(random.choice([0,1,2,10]))
pairs=[(gen(),gen()) for _ in range(int(sys.argv[2]) if len(sys.argv)>2 else 1500)]
ref=jar(pairs)
bad=0
for (a,b),r in zip(pairs,ref):
    m=compare(a,b)
    if m!=r:
        bad+=1
        if bad<15: print("MISMATCH",a,b,"jar",r,"mine",m)
print("pairs",len(pairs),"mismatches",bad)
