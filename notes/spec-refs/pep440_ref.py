import random, re, sys
from packaging.version import Version
INF=float('inf')
# grammar accepted by go-univers pypi (subset of PEP 440)
PAT=re.compile(r'^(?:([0-9]+)!)?([0-9]+(?:\.[0-9]+)*?)(?:\.?(a|b|rc|alpha|beta|c)([0-9]+))?(?:\.?(post|rev|r)([0-9]+))?(?:\.?(dev)([0-9]+))?(?:\+([a-zA-Z0-9]+(?:[-_.][a-zA-Z0-9]+)*))?$')
KIND={'a':1,'alpha':1,'b':2,'beta':2,'c':3,'rc':3}
def key(s):
    m=PAT.match(s); assert m,s
    epoch=int(m.group(1) or 0)
    rel=[int(x) for x in m.group(2).split('.')]
    while rel and rel[-1]==0: rel.pop()          # trailing zeros insignificant
    pre=(KIND[m.group(3)],int(m.group(4))) if m.group(3) else None
    post=int(m.group(6)) if m.group(5) else None
    dev=int(m.group(8)) if m.group(7) else None
    local=m.group(9)
    if pre is None and post is None and dev is not None: prek=(-INF,0)
    elif pre is None: prek=(INF,0)
    else: prek=pre
    postk=-INF if post is None else post
    devk=INF if dev is None else dev
    if local is None: localk=((-INF,''),)*0; has=0
    else:
        has=1
        localk=tuple((int(p),'') if p.isdigit() else (-INF,p.lower()) for p in re.split(r'[._-]',local))
    return (epoch,tuple(rel),prek,postk,devk,has,localk)
def cmp(a,b):
    ka,kb=key(a),key(b); return (ka>kb)-(ka<kb)
random.seed(int(sys.argv[1]) if len(sys.argv)>1 else 1)
def gen():
    s=''
    if random.random()<0.15: s+=str(random.randint(0,2))+'!'
    s+='.'.join(str(random.choice([0,0,1,2,10])) for _ in range(random.randint(1,4)))
    if random.random()<0.4: s+=random.choice(['','.'])+random.choice(list(KIND))+str(random.choice([0,1,2,10]))
    if random.random()<0.3: s+=random.choice(['','.'])+random.choice(['post','rev','r'])+str(random.choice([0,1,2]))
    if random.random()<0.3: s+=random.choice(['','.'])+'dev'+str(random.choice([0,1,2]))
    if random.random()<0.2: s+='+'+random.choice(['abc','1','1.2','abc.1','ABC','a-1','10','2'])
    return s
bad=0; n=int(sys.argv[2]) if len(sys.argv)>2 else 20000
for _ in range(n):
    a,b=gen(),gen()
    if random.random()<0.3:
        b=a.split('+')[0] if random.random()<0.5 else a+'.0' if re.fullmatch(r'[0-9.!]+',a) else b
    va,vb=Version(a),Version(b)
    r=(va>vb)-(va<vb)
    if r!=cmp(a,b):
        bad+=1
        if bad<10: print("MISMATCH",a,b,"packaging",r,"mine",cmp(a,b))
print("pairs",n,"mismatches",bad)
