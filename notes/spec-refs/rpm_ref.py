def rpmvercmp(a,b):
    if a==b: return 0
    isalnum=lambda c: c.isascii() and c.isalnum()
    while a or b:
        while a and not isalnum(a[0]) and a[0] not in '~^': a=a[1:]
        while b and not isalnum(b[0]) and b[0] not in '~^': b=b[1:]
        if (a and a[0]=='~') or (b and b[0]=='~'):
            if not (a and a[0]=='~'): return 1
            if not (b and b[0]=='~'): return -1
            a,b=a[1:],b[1:]; continue
        if (a and a[0]=='^') or (b and b[0]=='^'):
            if not a: return -1
            if not b: return 1
            if a[0]!='^': return 1
            if b[0]!='^': return -1
            a,b=a[1:],b[1:]; continue
        if not (a and b): break
        if a[0].isdigit():
            f=str.isdigit; isnum=True
        else:
            f=str.isalpha; isnum=False
        i=0
        while i<len(a) and a[i].isascii() and f(a[i]): i+=1
        j=0
        while j<len(b) and b[j].isascii() and f(b[j]): j+=1
        sa,sb=a[:i],b[:j]; a,b=a[i:],b[j:]
        if not sa: return -1
        if not sb: return 1 if isnum else -1
        if isnum:
            sa=sa.lstrip('0'); sb=sb.lstrip('0')
            if len(sa)>len(sb): return 1
            if len(sb)>len(sa): return -1
        if sa!=sb: return -1 if sa<sb else 1
    if not a and not b: return 0
    return 1 if a else -1
T="""1.0 1.0 0;1.0 2.0 -1;2.0 1.0 1;2.0.1 2.0.1 0;2.0 2.0.1 -1;2.0.1 2.0 1;2.0.1a 2.0.1a 0;2.0.1a 2.0.1 1;2.0.1 2.0.1a -1;5.5p1 5.5p1 0;5.5p1 5.5p2 -1;5.5p2 5.5p1 1;5.5p10 5.5p10 0;5.5p1 5.5p10 -1;5.5p10 5.5p1 1;10xyz 10.1xyz -1;10.1xyz 10xyz 1;xyz10 xyz10 0;xyz10 xyz10.1 -1;xyz10.1 xyz10 1;xyz.4 xyz.4 0;xyz.4 8 -1;8 xyz.4 1;xyz.4 2 -1;2 xyz.4 1;5.5p2 5.6p1 -1;5.6p1 5.5p2 1;5.6p1 6.5p1 -1;6.5p1 5.6p1 1;6.0.rc1 6.0 1;6.0 6.0.rc1 -1;10b2 10a1 1;10a2 10b2 -1;1.0aa 1.0aa 0;1.0a 1.0aa -1;1.0aa 1.0a 1;10.0001 10.0001 0;10.0001 10.1 0;10.1 10.0001 0;10.0001 10.0039 -1;10.0039 10.0001 1;4.999.9 5.0 -1;5.0 4.999.9 1;20101121 20101121 0;20101121 20101122 -1;20101122 20101121 1;2_0 2_0 0;2.0 2_0 0;2_0 2.0 0;a a 0;a+ a+ 0;a+ a_ 0;a_ a+ 0;+a +a 0;+a _a 0;_a +a 0;+_ +_ 0;_+ +_ 0;_+ _+ 0;+ _ 0;_ + 0;1.0~rc1 1.0~rc1 0;1.0~rc1 1.0 -1;1.0 1.0~rc1 1;1.0~rc1 1.0~rc2 -1;1.0~rc2 1.0~rc1 1;1.0~rc1~git123 1.0~rc1~git123 0;1.0~rc1~git123 1.0~rc1 -1;1.0~rc1 1.0~rc1~git123 1;1.0^ 1.0^ 0;1.0^ 1.0 1;1.0 1.0^ -1;1.0^git1 1.0^git1 0;1.0^git1 1.0 1;1.0 1.0^git1 -1;1.0^git1 1.0^git2 -1;1.0^git2 1.0^git1 1;1.0^git1 1.01 -1;1.01 1.0^git1 1;1.0^20160101 1.0^20160101 0;1.0^20160101 1.0.1 -1;1.0.1 1.0^20160101 1;1.0^20160101^git1 1.0^20160101^git1 0;1.0^20160102 1.0^20160101^git1 1;1.0^20160101^git1 1.0^20160102 -1;1.0~rc1^git1 1.0~rc1^git1 0;1.0~rc1^git1 1.0~rc1 1;1.0~rc1 1.0~rc1^git1 -1;1.0^git1~pre 1.0^git1~pre 0;1.0^git1 1.0^git1~pre 1;1.0^git1~pre 1.0^git1 -1"""
bad=0
for row in T.split(';'):
    a,b,e=row.split(' ')
    r=rpmvercmp(a,b)
    if r!=int(e): bad+=1; print("FAIL",a,b,"want",e,"got",r)
print(len(T.split(';')),"rows, failures",bad)
