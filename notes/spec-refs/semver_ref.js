const semver=require('/usr/lib/node_modules/npm/node_modules/semver');
// SemVer 2.0.0 section 11 transcription
function parse(s){ const m=/^(\d+)\.(\d+)\.(\d+)(?:-([0-9A-Za-z-]+(?:\.[0-9A-Za-z-]+)*))?(?:\+([0-9A-Za-z-]+(?:\.[0-9A-Za-z-]+)*))?$/.exec(s); if(!m) throw s;
  return {core:[BigInt(m[1]),BigInt(m[2]),BigInt(m[3])], pre: m[4]? m[4].split('.'):[]}; }
function cmpId(a,b){ const an=/^\d+$/.test(a), bn=/^\d+$/.test(b);
  if(an&&bn){ const x=BigInt(a), y=BigInt(b); return x<y?-1:x>y?1:0 }
  if(an) return -1; if(bn) return 1; return a<b?-1:a>b?1:0 }
function prec(a,b){ const A=parse(a),B=parse(b);
  for(let i=0;i<3;i++){ if(A.core[i]<B.core[i]) return -1; if(A.core[i]>B.core[i]) return 1 }
  if(!A.pre.length&&!B.pre.length) return 0; if(!A.pre.length) return 1; if(!B.pre.length) return -1;
  for(let i=0;i<Math.min(A.pre.length,B.pre.length);i++){ const c=cmpId(A.pre[i],B.pre[i]); if(c) return c }
  return Math.sign(A.pre.length-B.pre.length) }
let seed=+process.argv[2]||1; function rnd(){ seed=(seed*1103515245+12345)%2147483648; return seed/2147483648 }
function pick(a){ return a[Math.floor(rnd()*a.length)] }
const ids=['0','1','2','10','123456789012345','a','alpha','beta','rc','-5','a-b','-','A','Z','x','0a','1-1','--'];
function gen(){ let s=[pick([0,1,2]),pick([0,1,10]),pick([0,3])].join('.'); if(rnd()<0.7){ const n=1+Math.floor(rnd()*4); const p=[]; for(let i=0;i<n;i++) p.push(pick(ids)); s+='-'+p.join('.') } if(rnd()<0.2) s+='+'+pick(['b1','1.2','x-y']); return s }
let bad=0,n=+process.argv[3]||50000;
for(let i=0;i<n;i++){ const a=gen(),b=gen(); const r=semver.compare(a,b), m=prec(a,b); if(r!==m){ bad++; if(bad<10) console.log('MISMATCH',a,b,'node',r,'mine',m) } }
console.log('pairs',n,'mismatches',bad);
