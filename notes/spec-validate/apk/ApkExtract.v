(* extraction of the Alpine reference order for validation (ExtrOcamlBasic only; N/Z kept) *)
From Coq Require Import Extraction ExtrOcamlBasic.
From Verif.Base Require Import Bytes GoNum Ord.
From Verif.Spec Require Import Apk.
Extraction Language OCaml.
Extraction "apkspec.ml" spec_valid spec_cmp parse comps.
