(* stdin: one pair per line "a<TAB>b"; stdout: "va vb na nb r"
   va/vb = spec_valid (0/1), na/nb = number of numeric components (-1: does not parse),
   r = spec_cmp (N = None, -1/0/1) *)
module M = Apkspec
let ascii_of_char (c : char) : M.ascii =
  let n = Char.code c in
  let b i = (n lsr i) land 1 = 1 in
  M.Ascii (b 0, b 1, b 2, b 3, b 4, b 5, b 6, b 7)
let bytes_of_string (s : string) : M.ascii list =
  let r = ref [] in
  for i = String.length s - 1 downto 0 do r := ascii_of_char s.[i] :: !r done;
  !r
let ncomps s = match M.parse s with
  | None -> -1
  | Some x -> List.length (M.comps x)
let () =
  try
    while true do
      let line = input_line stdin in
      match String.split_on_char '\t' line with
      | [a; b] ->
          let a = bytes_of_string a and b = bytes_of_string b in
          let r = match M.spec_cmp a b with
            | None -> "N" | Some M.Lt -> "-1" | Some M.Eq -> "0" | Some M.Gt -> "1" in
          Printf.printf "%d %d %d %d %s\n"
            (if M.spec_valid a then 1 else 0) (if M.spec_valid b then 1 else 0)
            (ncomps a) (ncomps b) r
      | _ -> print_endline "? ? ? ? ?"
    done
  with End_of_file -> ()
