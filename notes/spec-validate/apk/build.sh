#!/bin/sh
# builds the extracted spec + driver into ./_build/apk_driver (expects coq/ already built)
set -e
HERE="$(cd "$(dirname "$0")" && pwd)"
ROOT="$(cd "$HERE/../../.." && pwd)"
mkdir -p "$HERE/_build" && cd "$HERE/_build"
cp "$HERE/ApkExtract.v" "$HERE/apk_driver.ml" .
timeout 600 coqc -Q "$ROOT/coq" Verif ApkExtract.v >/dev/null
ocamlfind ocamlopt -w -a apkspec.mli apkspec.ml apk_driver.ml -o apk_driver
