#!/usr/bin/env python3
"""Validation of coq/Spec/Apk.v (extracted, ./_build/apk_driver; run ./build.sh first).

 1. fixture: every row of apk-tools' version.data (the repository's testdata/compare.txt)
    whose two sides are spec_valid with equal component counts, against the row's operator;
 2. random pairs from the grammar digits{.digits}[letter]{_suffix[digits]}[-rN] against the
    Python transcription notes/spec-refs/apk_ref.py, with every disagreement classified;
 3. the same pairs after making every "absent" token explicit (suffix without digits -> 0,
    no revision -> -r0): apk_ref must then agree everywhere, i.e. token presence is the
    ONLY source of disagreement;
 4. acceptance: parse / spec_valid against a regular expression of the grammar on mutated strings.

usage: validate_apk.py [npairs] [seed]
"""
import os, random, re, subprocess, sys, collections

HERE = os.path.dirname(os.path.abspath(__file__))
ROOT = os.path.abspath(os.path.join(HERE, '..', '..', '..'))
FIXTURE = '/repo/pkg/ecosystem/alpine/testdata/compare.txt'
DRIVER = os.path.join(HERE, '_build', 'apk_driver')

src = open(os.path.join(ROOT, 'notes', 'spec-refs', 'apk_ref.py')).read().split("if __name__=='__main__':")[0]
ref = {}
exec(src, ref)
TNAME = {-1: 'INVALID', 0: 'DIGIT_OR_ZERO', 1: 'DIGIT', 2: 'LETTER', 3: 'SUFFIX', 4: 'SUFFIX_NO',
         5: 'REVISION_NO', 6: 'END'}

SUF = ["alpha", "beta", "pre", "rc", "cvs", "svn", "git", "hg", "p"]
GRAMMAR = re.compile(r'\d+(\.\d+)*[a-z]?(_(alpha|beta|pre|rc|cvs|svn|git|hg|p)\d*)*(-r\d+)?')
NUMPART = re.compile(r'\d+(\.\d+)*')


def run(pairs):
    inp = "".join("%s\t%s\n" % p for p in pairs)
    out = subprocess.run([DRIVER], input=inp, capture_output=True, text=True, check=True).stdout.splitlines()
    assert len(out) == len(pairs), (len(out), len(pairs))
    res = []
    for line in out:
        va, vb, na, nb, r = line.split()
        res.append((va == '1', vb == '1', int(na), int(nb), None if r == 'N' else int(r)))
    return res


def py_valid(s):
    if not GRAMMAR.fullmatch(s):
        return False
    num = NUMPART.match(s).group()
    return all(not (len(f) > 1 and f[0] == '0') for f in num.split('.'))


# ---------------------------------------------------------------- 1. fixture
def fixture():
    rows = []
    for line in open(FIXTURE):
        line = line.split('#')[0].strip()
        if not line:
            continue
        a, op, b = line.split()
        rows.append((a, op, b))
    res = run([(a, b) for a, _, b in rows])
    scope = agree = 0
    out = collections.Counter()
    bad = []
    for (a, op, b), (va, vb, na, nb, r) in zip(rows, res):
        if '~' in a or '~' in b:
            assert r is None
            out['~hash part'] += 1
        elif na < 0 or nb < 0:
            assert r is None
            out['a side outside the grammar'] += 1
        elif not (va and vb):
            assert r is None
            out['leading zero in a numeric component'] += 1
        elif na != nb:
            assert r is None
            out['component counts differ'] += 1
        else:
            assert r is not None
            scope += 1
            e = {'<': -1, '=': 0, '>': 1}[op]
            if r == e:
                agree += 1
            else:
                bad.append((a, op, b, r))
    print("fixture rows: %d   in scope: %d   agreeing: %d" % (len(rows), scope, agree))
    for k, v in sorted(out.items()):
        print("   out of scope, %-40s %d" % (k + ':', v))
    for a, op, b, r in bad:
        # is the disagreement one of the expected presence classes?
        print("   DISAGREE  %s %s %s   spec says %d   apk_ref says %d   [%s]"
              % (a, op, b, r, ref['compare'](a, b), classify(a, b)))
    return scope, agree


# ---------------------------------------------------------------- 2./3. random pairs
def gen(rng, n):
    def comp():
        k = rng.random()
        if k < 0.75:
            return str(rng.choice([0, 1, 2, 9, 10, 11, 100]))
        if k < 0.95:
            return str(rng.randrange(0, 3000))
        return str(rng.randrange(0, 10 ** rng.randrange(1, 25)))
    s = '.'.join(comp() for _ in range(n))
    if rng.random() < 0.3:
        s += rng.choice("abz")
    for _ in range(rng.choice([0, 0, 1, 1, 2, 3])):
        s += '_' + rng.choice(SUF)
        if rng.random() < 0.6:
            s += rng.choice(["0", "1", "2", "10", "00", "01", "20240101"])
    if rng.random() < 0.45:
        s += '-r' + rng.choice(["0", "0", "1", "2", "10", "01"])
    return s


def mutate_near(rng, s):
    """a version close to s: same text with one token changed / added / removed"""
    k = rng.randrange(6)
    if k == 0:
        return s
    if k == 1:   # toggle -r0
        return s + '-r0' if '-r' not in s else s
    if k == 2:   # make numbers explicit
        return explicit(s)
    if k == 3:   # append a suffix before the revision
        m = re.fullmatch(r'(.*?)(-r\d+)?', s)
        return m.group(1) + '_' + rng.choice(SUF) + rng.choice(["", "0", "1"]) + (m.group(2) or '')
    if k == 4:   # drop the numbers of suffixes
        return re.sub(r'(_[a-z]+)\d+', r'\1', s)
    m = re.fullmatch(r'(.*?)(-r\d+)?', s)
    return m.group(1)


def explicit(s):
    """every absent token made explicit: suffix without digits -> 0, no revision -> -r0"""
    s = re.sub(r'(_[a-z]+)(?!\d|[a-z])', r'\g<1>0', s)
    if not re.search(r'-r\d+$', s):
        s += '-r0'
    return s


def classify(a, b):
    """token types at which apk_ref's streams part (the place where it decides by type)"""
    ta, ea = ref['tokens'](a)
    tb, eb = ref['tokens'](b)
    i = 0
    while i < len(ta) and i < len(tb):
        if ta[i][0] != tb[i][0]:
            break
        if ta[i][1] != tb[i][1]:
            return "value of %s" % TNAME[ta[i][0]]
        i += 1
    at = ta[i][0] if i < len(ta) else ea
    bt = tb[i][0] if i < len(tb) else eb
    x, y = sorted([TNAME[at], TNAME[bt]])
    return "%s against %s" % (x, y)


def randoms(npairs, seed):
    rng = random.Random(seed)
    pairs = []
    for i in range(npairs):
        n = rng.randint(1, 4)
        a = gen(rng, n)
        b = mutate_near(rng, a) if i % 3 == 0 else gen(rng, n)
        if rng.random() < 0.5:
            a, b = b, a
        pairs.append((a, b))
    res = run(pairs)
    total = dis = 0
    classes = collections.Counter()
    kinds = collections.Counter()
    examples = {}
    flips = {}
    dis_explicit = 0
    for (a, b), (va, vb, na, nb, r) in zip(pairs, res):
        assert va and vb and na == nb and r is not None, (a, b, va, vb, na, nb, r)
        assert py_valid(a) and py_valid(b)
        total += 1
        e = ref['compare'](a, b)
        if r != e:
            dis += 1
            c = classify(a, b)
            classes[c] += 1
            kind = "spec %+d / apk_ref %+d" % (r, e)
            kinds[kind] += 1
            if r != 0:
                flips.setdefault((kind, c), []).append((a, b))
            examples.setdefault(c, []).append((a, b, r, e))
        e2 = ref['compare'](explicit(a), explicit(b))
        if r != e2:
            dis_explicit += 1
            if dis_explicit < 10:
                print("   UNEXPLAINED", a, b, "spec", r, "apk_ref on explicit form", e2)
    # the explicit forms themselves through the Coq function: must not change its answer
    res2 = run([(explicit(a), explicit(b)) for a, b in pairs])
    moved = sum(1 for x, y in zip(res, res2) if x[4] != y[4])
    print("random pairs: %d   agreeing with apk_ref: %d   disagreeing: %d" % (total, total - dis, dis))
    for c, v in sorted(classes.items(), key=lambda kv: -kv[1]):
        print("   class  %-36s %6d    e.g. %s" % (c, v, "   ".join(
            "%s ? %s spec %+d apk %+d" % x for x in examples[c][:2])))
    for k, v in sorted(kinds.items()):
        print("   signs  %-36s %6d" % (k, v))
    for (kind, c), v in sorted(flips.items()):
        print("   opposite signs (%s) in class %s: %d   e.g. %s" % (kind, c, len(v), "   ".join("%s ? %s" % x for x in v[:2])))
    print("   after making absent tokens explicit (_sfx -> _sfx0, no revision -> -r0):"
          " disagreements with apk_ref: %d; spec answers changed by the rewriting: %d" % (dis_explicit, moved))
    return total, dis, dis_explicit, moved


# ---------------------------------------------------------------- 4. acceptance
def acceptance(n, seed):
    rng = random.Random(seed + 1000)
    alphabet = "0123456789.._-rabpz_~A "
    strs = []
    for _ in range(n):
        s = gen(rng, rng.randint(1, 4))
        k = rng.randrange(5)
        if k == 1 and s:
            i = rng.randrange(len(s)); s = s[:i] + s[i + 1:]
        elif k == 2:
            i = rng.randrange(len(s) + 1); s = s[:i] + rng.choice(alphabet) + s[i:]
        elif k == 3 and s:
            i = rng.randrange(len(s)); s = s[:i] + rng.choice(alphabet) + s[i + 1:]
        elif k == 4:
            s = s.replace('.', '.0', 1) if rng.random() < 0.5 else '0' + s
        if '\t' in s or '\n' in s:
            continue
        strs.append(s)
    # short exhaustive strings over a small alphabet
    small = "01.a_p-r"
    level = ['']
    for _ in range(5):
        level = [x + c for x in level for c in small]
        strs.extend(level)
    res = run([(s, s) for s in strs])
    bad = 0
    acc = 0
    for s, (va, vb, na, nb, r) in zip(strs, res):
        g = bool(GRAMMAR.fullmatch(s))
        v = py_valid(s)
        acc += v
        if (na >= 0) != g or va != v or (r == 0) != v:
            bad += 1
            if bad < 10:
                print("   ACCEPTANCE MISMATCH %r: parse %s grammar %s valid %s/%s" % (s, na >= 0, g, va, v))
    print("acceptance: %d strings (%d valid), mismatches with the grammar regexp: %d" % (len(strs), acc, bad))
    return bad


if __name__ == '__main__':
    npairs = int(sys.argv[1]) if len(sys.argv) > 1 else 30000
    seed = int(sys.argv[2]) if len(sys.argv) > 2 else 1
    fixture()
    randoms(npairs, seed)
    acceptance(20000, seed)
