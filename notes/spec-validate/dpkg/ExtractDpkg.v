(* scratch/ExtractDpkg.v — extraction of Spec/Dpkg.v for notes/spec-validate/dpkg_validate.py *)
From Coq Require Import Extraction ExtrOcamlBasic.
From Verif.Base Require Import Bytes GoNum Ord.
From Verif.Spec Require Import Dpkg.
Extraction Language OCaml.
Extraction "dpkgspec.ml" dpkg_valid dpkg_accepts split_evr verrevcmp verrevcmp_loop dpkg_cmp dpkg_cmp_loop spec_valid spec_cmp.
