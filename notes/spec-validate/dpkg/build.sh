#!/bin/sh
# notes/spec-validate/build.sh — extract coq/Spec/Dpkg.v and build _build/spec-dpkg/dpkg_driver
# (the Coq project must have been built: cd coq && make)
set -e
ROOT="$(cd "$(dirname "$0")/../.." && pwd)"
mkdir -p "$ROOT/_build/spec-dpkg" && cd "$ROOT/_build/spec-dpkg"
timeout 600 coqc -Q "$ROOT/coq" Verif "$ROOT/coq/scratch/ExtractDpkg.v" >/dev/null
cp "$ROOT/notes/spec-validate/dpkg_driver.ml" .
ocamlfind ocamlopt -w -a dpkgspec.mli dpkgspec.ml dpkg_driver.ml -o dpkg_driver
echo "built $ROOT/_build/spec-dpkg/dpkg_driver"
