(* notes/spec-validate/dpkg_driver.ml — reads lines "A<TAB>B" on stdin, writes one line
     validA validB acceptsA acceptsB cmpToken cmpLoop specCmp rawToken rawLoop
   per input line, computed by the functions extracted from coq/Spec/Dpkg.v.
   cmp* are -1/0/1 (dpkg_cmp / dpkg_cmp_loop, computed on any input); specCmp is -1/0/1 or N
   (None); raw* are verrevcmp / verrevcmp_loop applied to the whole strings A and B. *)
module M = Dpkgspec

let ascii_of_char (c : char) : M.ascii =
  let n = Char.code c in
  let b i = (n lsr i) land 1 = 1 in
  M.Ascii (b 0, b 1, b 2, b 3, b 4, b 5, b 6, b 7)

let bytes_of_string (s : string) : M.ascii list =
  let r = ref [] in
  for i = String.length s - 1 downto 0 do r := ascii_of_char s.[i] :: !r done;
  !r

let cmp_str = function M.Eq -> "0" | M.Lt -> "-1" | M.Gt -> "1"
let b_str b = if b then "1" else "0"

let () =
  try
    while true do
      let line = input_line stdin in
      let a, b =
        match String.index_opt line '\t' with
        | Some i -> String.sub line 0 i, String.sub line (i + 1) (String.length line - i - 1)
        | None -> line, ""
      in
      let a = bytes_of_string a and b = bytes_of_string b in
      Printf.printf "%s %s %s %s %s %s %s %s %s\n"
        (b_str (M.dpkg_valid a)) (b_str (M.dpkg_valid b))
        (b_str (M.dpkg_accepts a)) (b_str (M.dpkg_accepts b))
        (cmp_str (M.dpkg_cmp a b)) (cmp_str (M.dpkg_cmp_loop a b))
        (match M.spec_cmp a b with Some c -> cmp_str c | None -> "N")
        (cmp_str (M.verrevcmp a b)) (cmp_str (M.verrevcmp_loop a b))
    done
  with End_of_file -> ()
