#!/usr/bin/env python3
"""Validation of coq/Spec/Dpkg.v (extracted to OCaml) against
     (1) notes/spec-refs/dpkg_ref.py   (both formulations: character loop and token pairs),
     (2) the real /usr/bin/dpkg        (--compare-versions and --validate-version).

   usage: dpkg_validate.py [seed] [npairs] [ndpkg_pairs] [ndpkg_valid]
   Builds nothing: run notes/spec-validate/build.sh first (it creates _build/spec-dpkg/dpkg_driver).
"""
import os, random, re, subprocess, sys

ROOT = os.path.abspath(os.path.join(os.path.dirname(__file__), "..", ".."))
DRIVER = os.path.join(ROOT, "_build", "spec-dpkg", "dpkg_driver")
REF = os.path.join(ROOT, "notes", "spec-refs", "dpkg_ref.py")

seed = int(sys.argv[1]) if len(sys.argv) > 1 else 1
NPAIRS = int(sys.argv[2]) if len(sys.argv) > 2 else 60000
NDPKG_PAIRS = int(sys.argv[3]) if len(sys.argv) > 3 else 6000
NDPKG_VALID = int(sys.argv[4]) if len(sys.argv) > 4 else 6000
rnd = random.Random(seed)

# the reference transcription (only its function definitions, not its main part)
ns = {}
exec(open(REF).read().split("random.seed(")[0], ns)
ref_full, ref_loop, ref_token = ns["full"], ns["verrevcmp"], ns["token_cmp"]

# ---------------------------------------------------------------------------------------
# an independent statement of what dpkg accepts silently (parseversion without error/warning),
# restricted to strings without blanks and without a signed epoch  (= Coq dpkg_accepts);
# py_valid (= Coq dpkg_valid) additionally forbids a colon in the upstream version (Policy 5.6.12)
INT_MAX = 2147483647
def py_accepts(s):
    if ":" in s:
        e, s = s.split(":", 1)
        if not re.fullmatch(r"[0-9]+", e) or int(e) > INT_MAX: return False
    if "-" in s:
        i = s.rindex("-"); up, rev = s[:i], s[i + 1:]
        if not re.fullmatch(r"[0-9A-Za-z.+~]+", rev): return False
    else:
        up = s
    return re.fullmatch(r"[0-9][0-9A-Za-z.+~:-]*", up) is not None
def py_valid(s):
    return py_accepts(s) and ":" not in (s.split(":", 1)[1] if ":" in s else s)

# ---------------------------------------------------------------------------------------
# generators
FULL = "0123456789ABCDEFGHIJKLMNOPQRSTUVWXYZabcdefghijklmnopqrstuvwxyz.+~:-"
SMALL = "0019a.b+~-Z"
FRAGS = ["~", "~~", "~~~", "~a", "a~", "a", "b", "A", "Z", "z", "rc", "+", "++", ".", "..", ".+", "+.",
         "0", "00", "000", "1", "01", "001", "2", "9", "10", "09", "19", "100",
         "a0", "a1", "1a", "1a0", ".0", ".00", ".1", "~0", "~1", "+0", "+1", "-", "-0", "-1", "-00", "--",
         "1.0", "1.0a", "1.0+", "1.0~", "1.0~~", "1.0.", "deb", "ubuntu", "+b1", "~rc1", "+dfsg"]
def longdigits():
    n = rnd.randint(19, 32)
    s = "".join(rnd.choice("0123456789") for _ in range(n))
    r = rnd.random()
    if r < 0.3: s = "0" * rnd.randint(1, 5) + s
    if r > 0.8: s = rnd.choice(["18446744073709551615", "18446744073709551616", "9223372036854775807",
                                "9223372036854775808", "99999999999999999999", "100000000000000000000"])
    return s
def epoch():
    return rnd.choice(["0", "00", "1", "01", "2", "3", "10", "2147483647", "2147483648", "4294967296",
                       "000000000000000000000000001", "99999999999999999999", "", "a", "1a", "+1", "-1"])
def gen_small():                       # the generator of dpkg_ref.py
    s = rnd.choice("0123456789")
    for _ in range(rnd.randint(0, 9)): s += rnd.choice(SMALL)
    if rnd.random() < 0.2: s = str(rnd.randint(0, 3)) + ":" + s
    if s.endswith("-"): s += "1"
    return s
def gen_full():                        # anything over the full alphabet (mostly for dpkg_valid)
    s = "".join(rnd.choice(FULL) for _ in range(rnd.randint(0, 10)))
    if rnd.random() < 0.6: s = rnd.choice("0123456789") + s
    return s
def gen_frag():                        # built from the interesting fragments
    s = rnd.choice("0123456789") if rnd.random() < 0.9 else ""
    for _ in range(rnd.randint(0, 6)):
        s += longdigits() if rnd.random() < 0.08 else rnd.choice(FRAGS)
    if rnd.random() < 0.35:
        s += "-" + "".join(rnd.choice(FRAGS[:40]).replace("-", "") for _ in range(rnd.randint(0, 3)))
    if rnd.random() < 0.3: s = epoch() + ":" + s
    return s
def gen():
    r = rnd.random()
    return gen_small() if r < 0.35 else gen_frag() if r < 0.85 else gen_full()
def mutate(a):
    r = rnd.random()
    if r < 0.25:                       # prefix + small suffix
        return a[:rnd.randint(0, len(a))] + rnd.choice(["", "0", "a", "~", "+", "00", "-0", "-1", ".", "~~", "1", "-", ":"])
    if r < 0.45:                       # leading zeros in front of some digit run / remove a zero
        runs = [m.start() for m in re.finditer(r"[0-9]+", a)]
        if runs:
            i = rnd.choice(runs)
            return a[:i] + "0" * rnd.randint(1, 3) + a[i:]
        return a
    if r < 0.6:                        # replace one character
        if not a: return a
        i = rnd.randrange(len(a))
        return a[:i] + rnd.choice(FULL if rnd.random() < 0.3 else SMALL) + a[i + 1:]
    if r < 0.7:                        # native vs explicit zero revision / epoch
        return rnd.choice([a + "-0", a + "-", "0:" + a, "00:" + a, "1:" + a, a + "-00", a + "-0.", a + "-~"])
    if r < 0.8:                        # delete one character
        if not a: return a
        i = rnd.randrange(len(a))
        return a[:i] + a[i + 1:]
    if r < 0.9:                        # insert one character
        i = rnd.randint(0, len(a))
        return a[:i] + rnd.choice(SMALL + ":") + a[i:]
    return a                           # identical
pairs = []
for _ in range(NPAIRS):
    a = gen()
    b = mutate(a) if rnd.random() < 0.45 else gen()
    if rnd.random() < 0.5: a, b = b, a
    pairs.append((a, b))

# ---------------------------------------------------------------------------------------
# Coq (extracted)
inp = "".join("%s\t%s\n" % p for p in pairs)
out = subprocess.run([DRIVER], input=inp, capture_output=True, text=True, check=True).stdout.splitlines()
assert len(out) == len(pairs), (len(out), len(pairs))
coq = []
for line in out:
    va, vb, pa, pb, ct, cl, sc, rt, rl = line.split()
    coq.append(dict(va=va == "1", vb=vb == "1", aa=pa == "1", ab=pb == "1", tok=int(ct), loop=int(cl),
                    spec=None if sc == "N" else int(sc), rawtok=int(rt), rawloop=int(rl)))

def report(title, n, bad, examples):
    print("%-66s cases=%-7d mismatches=%d" % (title, n, bad))
    for e in examples[:8]: print("      ", e)

# (a) validity against the independent Python statement
n = bad = 0; ex = []
for (a, b), c in zip(pairs, coq):
    for s, v, p in ((a, c["va"], c["aa"]), (b, c["vb"], c["ab"])):
        n += 1
        if v != py_valid(s) or p != py_accepts(s) or (v and not p):
            bad += 1; ex.append((s, "coq", v, p, "py", py_valid(s), py_accepts(s)))
report("dpkg_valid / dpkg_accepts  vs  python statement", n, bad, ex)
print("       pairs with both sides dpkg_valid: %d, both sides dpkg_accepts: %d, of %d" % (
    sum(1 for c in coq if c["va"] and c["vb"]), sum(1 for c in coq if c["aa"] and c["ab"]), len(pairs)))

# (b) comparison against dpkg_ref.py on pairs with both sides accepted by dpkg;
#     spec_cmp = Some of the same on valid pairs, None otherwise
n = bad = 0; ex = []; dist = {-1: 0, 0: 0, 1: 0}
for (a, b), c in zip(pairs, coq):
    if not (c["va"] and c["vb"]):
        if c["spec"] is not None: bad += 1; ex.append((a, b, "spec_cmp should be None"))
    elif c["spec"] != c["tok"]: bad += 1; ex.append((a, b, "spec_cmp", c["spec"], "dpkg_cmp", c["tok"]))
    if not (c["aa"] and c["ab"]): continue
    n += 1
    r1, r2 = ref_full(a, b, ref_loop), ref_full(a, b, ref_token)
    dist[c["tok"]] += 1
    if not (c["tok"] == c["loop"] == r1 == r2):
        bad += 1; ex.append((a, b, "coq-token", c["tok"], "coq-loop", c["loop"], "spec", c["spec"], "ref-loop", r1, "ref-token", r2))
report("dpkg_cmp = dpkg_cmp_loop (= spec_cmp)  vs  dpkg_ref.py (both forms)", n, bad, ex)
print("       result distribution (Lt/Eq/Gt): %d/%d/%d" % (dist[-1], dist[0], dist[1]))

def coverage(ps):
    f = lambda pred: sum(1 for a, b in ps if pred(a) or pred(b))
    return "digit run > 20: %d, '~': %d, >= 2 hyphens: %d, epoch: %d, leading zero in a run: %d, differ only by a suffix: %d" % (
        f(lambda s: re.search(r"[0-9]{21}", s)), f(lambda s: "~" in s), f(lambda s: s.count("-") >= 2),
        f(lambda s: ":" in s), f(lambda s: re.search(r"(^|[^0-9])0[0-9]", s)),
        sum(1 for a, b in ps if a != b and (a.startswith(b) or b.startswith(a))))
print("       coverage: " + coverage([p for p, c in zip(pairs, coq) if c["aa"] and c["ab"]]))

# (c) verrevcmp on the raw strings (no splitting), all pairs, valid or not
n = bad = 0; ex = []
for (a, b), c in zip(pairs, coq):
    n += 1
    r1, r2 = ref_loop(a, b), ref_token(a, b)
    if not (c["rawtok"] == c["rawloop"] == r1 == r2):
        bad += 1; ex.append((a, b, "coq-token", c["rawtok"], "coq-loop", c["rawloop"], "ref-loop", r1, "ref-token", r2))
report("verrevcmp = verrevcmp_loop on whole strings  vs  dpkg_ref.py", n, bad, ex)

# (d) dpkg_cmp and dpkg_cmp_loop agree on every pair, valid or not
n = bad = 0; ex = []
for (a, b), c in zip(pairs, coq):
    n += 1
    if c["tok"] != c["loop"]: bad += 1; ex.append((a, b, c["tok"], c["loop"]))
report("dpkg_cmp = dpkg_cmp_loop on all pairs (valid or not)", n, bad, ex)

# ---------------------------------------------------------------------------------------
# the real dpkg
def dpkg_rel(a, b, op):
    p = subprocess.run(["dpkg", "--compare-versions", a, op, b], capture_output=True, text=True)
    if p.stderr or p.returncode not in (0, 1): return None
    return p.returncode == 0
def dpkg_sign(a, b):
    lt = dpkg_rel(a, b, "lt")
    if lt is None: return None
    if lt: return -1
    eq = dpkg_rel(a, b, "eq")
    if eq is None: return None
    if eq: return 0
    gt = dpkg_rel(a, b, "gt")
    return 1 if gt else None
def dpkg_validate(s):
    p = subprocess.run(["dpkg", "--validate-version", "--", s], capture_output=True, text=True)
    return p.returncode == 0 and not p.stderr

if NDPKG_PAIRS:
    idx = [i for i, c in enumerate(coq) if c["aa"] and c["ab"]]
    rnd.shuffle(idx)
    n = bad = 0; ex = []; dist = {-1: 0, 0: 0, 1: 0}
    for i in idx[:NDPKG_PAIRS]:
        a, b = pairs[i]
        r = dpkg_sign(a, b)
        n += 1
        if r is not None: dist[r] += 1
        if r != coq[i]["tok"]:
            bad += 1; ex.append((a, b, "coq", coq[i]["tok"], "dpkg", r))
    ncol = sum(1 for i in idx[:NDPKG_PAIRS] if not (coq[i]["va"] and coq[i]["vb"]))
    report("dpkg_cmp  vs  real dpkg --compare-versions", n, bad, ex)
    print("       result distribution (Lt/Eq/Gt): %d/%d/%d; pairs with a colon in an upstream version: %d" % (dist[-1], dist[0], dist[1], ncol))
    print("       coverage: " + coverage([pairs[i] for i in idx[:NDPKG_PAIRS]]))

if NDPKG_VALID:
    strs = {}
    for (a, b), c in zip(pairs, coq):
        strs[a] = c["aa"]; strs[b] = c["ab"]
    items = list(strs.items()); rnd.shuffle(items)
    # a balanced sample: half valid, half invalid
    val = [x for x in items if x[1]][:NDPKG_VALID // 2]
    inv = [x for x in items if not x[1]][:NDPKG_VALID - len(val)]
    n = bad = known = 0; ex = []
    for s, v in val + inv:
        r = dpkg_validate(s)
        n += 1
        if r != v:
            # the binary's strtol accepts a signed epoch ("+1:2", "-0:2"); deb-version(7) says unsigned
            if r and not v and re.match(r"[+-][0-9]+:", s) and py_accepts(s[1:]): known += 1
            else: bad += 1; ex.append((s, "coq", v, "dpkg", r))
    report("dpkg_accepts  vs  real dpkg --validate-version (%d valid, %d invalid)" % (len(val), len(inv)), n, bad, ex)
    print("       signed-epoch strings accepted by the binary only (documented divergence): %d" % known)
