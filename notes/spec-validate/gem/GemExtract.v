(* notes/spec-validate/gem/GemExtract.v — extraction of Spec/GemVersion.v for validation *)
From Coq Require Import Extraction ExtrOcamlBasic.
From Verif.Base Require Import Bytes GoNum Ord.
From Verif.Spec Require Import GemVersion.
Extraction Language OCaml.
Extraction "gemspec.ml" spec_valid spec_cmp gem_valid gem_cmp gem_canonical gem_segments dec.
