(* notes/spec-validate/gem/gem_driver.ml — batch driver around the extracted Spec/GemVersion.v.
   stdin : one request per line, "<hex a>\t<hex b>"   ("-" = empty string)
   stdout: "<valid a> <valid b> <spec_cmp: N|-1|0|1> <gem_cmp: -1|0|1> <canonical a> <canonical b>"
           canonical = comma-joined "i<decimal>" / "s<letters>", "-" when empty *)
module M = Gemspec

let ascii_of_char (c : char) : M.ascii =
  let n = Char.code c in
  let b i = (n lsr i) land 1 = 1 in
  M.Ascii (b 0, b 1, b 2, b 3, b 4, b 5, b 6, b 7)
let char_of_ascii (a : M.ascii) : char =
  match a with
  | M.Ascii (b0, b1, b2, b3, b4, b5, b6, b7) ->
      let v b i = if b then 1 lsl i else 0 in
      Char.chr (v b0 0 + v b1 1 + v b2 2 + v b3 3 + v b4 4 + v b5 5 + v b6 6 + v b7 7)
let bytes_of_string (s : string) : M.ascii list =
  let r = ref [] in
  for i = String.length s - 1 downto 0 do r := ascii_of_char s.[i] :: !r done; !r
let string_of_bytes (l : M.ascii list) : string =
  let b = Buffer.create 16 in
  List.iter (fun a -> Buffer.add_char b (char_of_ascii a)) l; Buffer.contents b
let nib c = match c with
  | '0'..'9' -> Char.code c - 48 | 'a'..'f' -> Char.code c - 87 | _ -> failwith "bad hex"
let string_of_hex (h : string) : string =
  if h = "-" then "" else
  String.init (String.length h / 2) (fun i -> Char.chr (nib h.[2*i] * 16 + nib h.[2*i+1]))
let cmp_str = function M.Eq -> "0" | M.Lt -> "-1" | M.Gt -> "1"
let seg_str = function
  | M.SInt n -> "i" ^ string_of_bytes (M.dec n)
  | M.SStr s -> "s" ^ string_of_bytes s
let segs_str l = if l = [] then "-" else String.concat "," (List.map seg_str l)
let bs b = if b then "1" else "0"

let () =
  try
    while true do
      let line = input_line stdin in
      match String.split_on_char '\t' line with
      | [ha; hb] ->
          let a = bytes_of_string (string_of_hex ha) and b = bytes_of_string (string_of_hex hb) in
          let sc = match M.spec_cmp a b with None -> "N" | Some c -> cmp_str c in
          Printf.printf "%s %s %s %s %s %s\n" (bs (M.spec_valid a)) (bs (M.spec_valid b)) sc
            (cmp_str (M.gem_cmp a b)) (segs_str (M.gem_canonical a)) (segs_str (M.gem_canonical b))
      | _ -> print_endline "?"
    done
  with End_of_file -> ()
