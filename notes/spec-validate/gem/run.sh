#!/bin/sh
# notes/spec-validate/gem/run.sh [seed] — build the extracted Spec/GemVersion.v and compare it
# with notes/spec-refs/gem_ref.py.  Requires coq/ to be built (make) first.
set -e
HERE="$(cd "$(dirname "$0")" && pwd)"
ROOT="$(cd "$HERE/../../.." && pwd)"
B="$ROOT/_build/spec-validate-gem"
mkdir -p "$B" && cd "$B"
timeout 600 coqc -Q "$ROOT/coq" Verif -o "$B/GemExtract.vo" "$HERE/GemExtract.v" >/dev/null
cp "$HERE/gem_driver.ml" .
ocamlfind ocamlopt -w -a gemspec.mli gemspec.ml gem_driver.ml -o gem_driver
python3 "$HERE/validate_gem.py" "$B/gem_driver" "$ROOT/notes/spec-refs/gem_ref.py" "${1:-1}"
