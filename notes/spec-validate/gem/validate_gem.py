#!/usr/bin/env python3
# notes/spec-validate/gem/validate_gem.py <driver> <gem_ref.py> [seed]
# Compares the extracted Coq specification coq/Spec/GemVersion.v (through gem_driver) with the
# Python transcription notes/spec-refs/gem_ref.py:
#   stream A  the assertions contained in gem_ref.py (table T)
#   stream G  random pairs over the grammar  N(.N)* { .<letters>[N] | .N | -<letters>[.N] | -N }
#   stream P  the same, the two sides sharing a prefix of groups
#   stream M  pairs (v, mutation of v): "-" <-> ".pre.", trailing / inner zeros, rcN <-> rc.N, case ...
#   stream V  validity only: random strings over a small alphabet and damaged valid versions
# For every pair: validity of both sides, sign of the comparison AND the canonical segment lists.
import sys, io, re, random, subprocess, contextlib

driver, refpath = sys.argv[1], sys.argv[2]
seed = int(sys.argv[3]) if len(sys.argv) > 3 else 1
random.seed(seed)

ref = {}
with contextlib.redirect_stdout(io.StringIO()) as out:
    exec(open(refpath).read(), ref)
print("gem_ref.py self-test:", out.getvalue().strip())
PAT, ref_cmp, ref_canonical, T = ref['PAT'], ref['cmp'], ref['canonical'], ref['T']

def hx(s): return s.encode('latin-1').hex() if s else '-'

def run(pairs):
    inp = "".join("%s\t%s\n" % (hx(a), hx(b)) for a, b in pairs)
    r = subprocess.run([driver], input=inp, capture_output=True, text=True)
    lines = r.stdout.split("\n")[:-1]
    assert len(lines) == len(pairs), (len(lines), len(pairs), r.stderr[:500])
    return [l.split(" ") for l in lines]

def ref_valid(s):
    # in scope: RubyGems-correct and not blank
    return bool(PAT.match(s)) and s.strip() != ''

def canon_str(s):
    c = ref_canonical(s)
    return ",".join(("i%d" % x) if isinstance(x, int) else "s" + x for x in c) if c else "-"

def check(label, pairs, cmp_too=True):
    res = run(pairs)
    n = bad_valid = bad_cmp = bad_canon = both = 0
    ex = []
    hist = {-1: 0, 0: 0, 1: 0}
    for (a, b), (va, vb, sc, gc, ca, cb) in zip(pairs, res):
        n += 1
        ea, eb = ref_valid(a), ref_valid(b)
        if (va == '1') != ea or (vb == '1') != eb:
            bad_valid += 1
            if len(ex) < 8: ex.append(("valid", a, b, va, vb, ea, eb))
        if (sc != 'N') != (ea and eb):
            bad_valid += 1
            if len(ex) < 8: ex.append(("spec_cmp definedness", a, b, sc))
        if not cmp_too: continue
        if ea and eb:
            both += 1
            e = ref_cmp(a, b)
            hist[e] += 1
            if sc != str(e) or gc != str(e):
                bad_cmp += 1
                if len(ex) < 8: ex.append(("cmp", a, b, sc, gc, e))
            if ca != canon_str(a) or cb != canon_str(b):
                bad_canon += 1
                if len(ex) < 8: ex.append(("canonical", a, b, ca, cb, canon_str(a), canon_str(b)))
    print("%-28s pairs=%-6d both-valid=%-6d (Lt %d / Eq %d / Gt %d)  mismatches: validity=%d cmp=%d canonical=%d"
          % (label, n, both, hist[-1], hist[0], hist[1], bad_valid, bad_cmp, bad_canon))
    for e in ex: print("     ", e)
    return bad_valid + bad_cmp + bad_canon

total = 0

# ---- stream A: the assertions of gem_ref.py --------------------------------------------------
res = run([(a, b) for a, b, _ in T])
okA = 0; noneA = []
for (a, b, e), (va, vb, sc, gc, ca, cb) in zip(T, res):
    if gc == str(e) and (sc == str(e) or (sc == 'N' and (a.strip() == '' or b.strip() == ''))):
        okA += 1
    else:
        print("      ASSERTION FAIL", (a, b, e), sc, gc)
    if sc == 'N': noneA.append((a, b))
print("A assertions of gem_ref.py    rows=%d  gem_cmp agrees=%d  spec_cmp=None (blank side, out of scope): %s"
      % (len(T), okA, noneA))
total += len(T) - okA

# ---- generators -------------------------------------------------------------------------------
NUMS = ['0', '0', '0', '1', '1', '2', '3', '9', '10', '11', '00', '01', '010', '2', '99', '100',
        '18446744073709551615', '18446744073709551616', '18446744073709551617',
        '9223372036854775808', '340282366920938463463374607431768211456', '99999999999999999999999']
WORDS = ['a', 'b', 'c', 'rc', 'pre', 'alpha', 'beta', 'RC', 'B', 'Beta', 'x', 'Z', 'pr', 'prea', 'dev', 'z', 'A']

def num():
    r = random.random()
    if r < 0.75: return random.choice(NUMS)
    if r < 0.9: return str(random.randint(0, 30))
    return str(random.randint(0, 10 ** random.randint(1, 40)))

def word():
    if random.random() < 0.85: return random.choice(WORDS)
    return "".join(random.choice("abcxyzABXZpre") for _ in range(random.randint(1, 4)))

def gen_groups():
    nseg = random.randint(1, 6)
    k = random.randint(1, nseg)              # leading numeric segments
    parts = [num()]
    for _ in range(k - 1): parts.append('.' + num())
    left = nseg - k
    while left > 0:
        r = random.random()
        if r < 0.30:   g = '.' + word() + (num() if random.random() < 0.5 else '')
        elif r < 0.50: g = '.' + num()
        elif r < 0.75:
            g = '-' + word()
            if random.random() < 0.5: g += random.choice(['.', '']) + num()
        elif r < 0.85: g = '-' + num()
        elif r < 0.93: g = '.' + num() + word()          # 1.2.3.4a
        else:          g = '-' + word() + '-' + word()   # dashes inside the second part
        parts.append(g); left -= 1
    return parts

def gen_version(parts=None):
    s = "".join(parts or gen_groups())
    if random.random() < 0.05: s = random.choice([' ', '\t', '  ', '\n']) + s
    if random.random() < 0.05: s = s + random.choice([' ', '\t', ' \n', '\r\n', '\f', '\v'])
    return s

def mutate(s):
    for _ in range(20):
        t = mutate1(s)
        if t != s: return t
    return s + '.1'

def mutate1(s):
    r = random.random()
    if r < 0.15: return s.replace('-', '.pre.', 1) if '-' in s else s + '.0'
    if r < 0.25: return s.replace('.pre.', '-', 1)
    if r < 0.35: return s.rstrip() + '.0' * random.randint(1, 3)
    if r < 0.45: return re.sub(r'(\.0)+$', '', s.strip()) or s
    if r < 0.55:
        m = re.search(r'[.-][A-Za-z]', s)            # zeros just before the first word
        return s[:m.start()] + '.0' * random.randint(1, 2) + s[m.start():] if m else s + '.0'
    if r < 0.65: return re.sub(r'([A-Za-z])([0-9])', r'\1.\2', s, 1)      # rc1 -> rc.1
    if r < 0.72: return re.sub(r'([A-Za-z])\.([0-9])', r'\1\2', s, 1)     # rc.1 -> rc1
    if r < 0.80:
        ms = list(re.finditer(r'[0-9]+', s))
        m = random.choice(ms); return s[:m.start()] + num() + s[m.end():]
    if r < 0.86: return s.swapcase()
    if r < 0.92:
        ms = list(re.finditer(r'[A-Za-z]+', s))
        if not ms: return s
        m = random.choice(ms); return s[:m.start()] + word() + s[m.end():]
    if r < 0.96: return re.sub(r'0*([0-9]+)', r'0\1', s, 1)                # leading zero
    return s + random.choice(['.a', '-a', '.0.a', '.a.0', '-0', '.1'])

NG, NM, NV = 30000, 25000, 30000
total += check("G grammar pairs", [(gen_version(), gen_version()) for _ in range(NG)])
pp = []
for _ in range(NG):                       # shared prefix of groups, independent tails
    g1, g2 = gen_groups(), gen_groups()
    k = random.randint(1, len(g1))
    pp.append((gen_version(g1), gen_version(g1[:k] + g2[1:][:6 - k])))
total += check("P shared-prefix pairs", pp)
pm = []
for _ in range(NM):
    a = gen_version(); b = mutate(a)
    if random.random() < 0.3: b = mutate(b)
    pm.append((a, b) if random.random() < 0.5 else (b, a))
total += check("M mutated pairs", pm)

# ---- stream V: validity ----------------------------------------------------------------------
ALPH = "0019aZz..--  \t\n_+~:/\x00"
def junk():
    r = random.random()
    if r < 0.4:
        return "".join(random.choice(ALPH) for _ in range(random.randint(1, 7)))
    s = gen_version()
    for _ in range(random.randint(1, 2)):
        i = random.randint(0, len(s))
        q = random.random()
        if q < 0.4: s = s[:i] + random.choice(ALPH) + s[i:]
        elif q < 0.7 and s: s = s[:i] + s[i + 1:]
        else: s = s[:i] + random.choice(['..', '.-', '-.', '--', ' ', 'v']) + s[i:]
    return s
pv = [(junk(), junk()) for _ in range(NV)]
nvalid = sum(ref_valid(a) + ref_valid(b) for a, b in pv)
print("V: %d of %d strings valid" % (nvalid, 2 * len(pv)))
total += check("V validity (+cmp if valid)", pv)

# exhaustive short strings over a tiny alphabet: validity only
import itertools
small = []
for n in range(1, 6):
    for t in itertools.product("1a.- ", repeat=n): small.append("".join(t))
total += check("X exhaustive len<=5 {1,a,.,-,SP}", [(s, '1') for s in small], cmp_too=False)

print("TOTAL MISMATCHES:", total)
sys.exit(1 if total else 0)
