(* extraction of Spec/MavenCV.v for validation against the real jar.  ExtrOcamlBasic only. *)
From Coq Require Import Extraction ExtrOcamlBasic.
From Verif.Base Require Import Bytes GoNum.
From Verif.Spec Require Import MavenCV.
Extraction Language OCaml.
Extraction "maven_spec.ml" parse_cv cv_cmp mvn_cmp spec_valid spec_cmp conventional_strict dec.
