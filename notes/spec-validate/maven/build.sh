#!/bin/sh
# builds the extracted spec + driver into ./_build/maven_driver  (coq/ must be compiled first)
set -e
here="$(cd "$(dirname "$0")" && pwd)"
root="$(cd "$here/../../.." && pwd)"
mkdir -p "$here/_build" && cd "$here/_build"
cp "$here/MavenExtract.v" "$here/maven_driver.ml" .
coqc -Q "$root/coq" Verif MavenExtract.v >/dev/null
rm -f maven_spec.mli
ocamlfind ocamlopt -w -a -o maven_driver maven_spec.ml maven_driver.ml
echo built "$here/_build/maven_driver"
cp "$here/trans_search.ml" . && ocamlfind ocamlopt -w -a -o trans_search maven_spec.ml trans_search.ml
