#!/usr/bin/env python3
"""string sets for trans_search: gen_strings.py OUTDIR"""
import random, sys, os
sys.path.insert(0, os.path.dirname(os.path.abspath(__file__)))
import validate_maven as V
out = sys.argv[1]
small = set()
for nums in ["0", "1", "1.0", "1.1", "0.0", "1.0.1"]:
    small.add(nums)
    for b in ["0", "1", "2"]: small.add(nums + "-" + b)
    for sep in ".-":
        for w in ["alpha", "rc", "ga", "sp", "foo", "a", "snapshot"]:
            small.add(nums + sep + w)
            for k in ["0", "1", "2"]:
                small.add(nums + sep + w + k)
                for s2 in ".-": small.add(nums + sep + w + s2 + k)
open(os.path.join(out, 'conv_small.txt'), 'w').write("\n".join(sorted(small)) + "\n")
random.seed(7)
conv = set(V.conv() for _ in range(1200))
open(os.path.join(out, 'conv_rand.txt'), 'w').write("\n".join(sorted(conv)[:500]) + "\n")
random.seed(8)
nc = set(V.nonconv() for _ in range(600))
open(os.path.join(out, 'nonconv.txt'), 'w').write("\n".join(sorted(nc)[:400]) + "\n")
