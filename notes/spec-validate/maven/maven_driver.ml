(* reads lines "a<TAB>b", prints "cmp<TAB>validA<TAB>validB<TAB>tokensA<TAB>tokensB<TAB>strictA<TAB>strictB"
   where tokens mimic ComparableVersion.ListItem.toListString *)
module M = Maven_spec

let ascii_of_char (c : char) : M.ascii =
  let n = Char.code c in
  let b i = (n lsr i) land 1 = 1 in
  M.Ascii (b 0, b 1, b 2, b 3, b 4, b 5, b 6, b 7)
let char_of_ascii (M.Ascii (b0, b1, b2, b3, b4, b5, b6, b7)) : char =
  let v b i = if b then 1 lsl i else 0 in
  Char.chr (v b0 0 + v b1 1 + v b2 2 + v b3 3 + v b4 4 + v b5 5 + v b6 6 + v b7 7)
let bytes_of_string (s : string) : M.ascii list =
  List.init (String.length s) (fun i -> ascii_of_char s.[i])
let string_of_bytes (l : M.ascii list) : string =
  let b = Buffer.create 16 in
  List.iter (fun a -> Buffer.add_char b (char_of_ascii a)) l;
  Buffer.contents b

(* ListItem.toListString, including its "length > 1" test for the ", " separator *)
let rec to_list_string (items : M.item list) : string =
  let sb = Buffer.create 32 in
  Buffer.add_string sb "[";
  List.iter (fun it ->
    if Buffer.length sb > 1 then Buffer.add_string sb ", ";
    match it with
    | M.IInt n -> Buffer.add_string sb (string_of_bytes (M.dec n))
    | M.IStr s -> Buffer.add_string sb (string_of_bytes s)
    | M.IList l -> Buffer.add_string sb (to_list_string l)) items;
  Buffer.add_string sb "]";
  Buffer.contents sb
let tokens (it : M.item) : string =
  match it with M.IList l -> to_list_string l | _ -> "?"

let cmp_str = function M.Eq -> "0" | M.Lt -> "-1" | M.Gt -> "1"
let b01 b = if b then "1" else "0"

let () =
  try
    while true do
      let line = input_line stdin in
      match String.index_opt line '\t' with
      | None -> print_endline "ERR"
      | Some k ->
          let a = String.sub line 0 k in
          let b = String.sub line (k + 1) (String.length line - k - 1) in
          let ba = bytes_of_string a and bb = bytes_of_string b in
          let ia = M.parse_cv ba and ib = M.parse_cv bb in
          let c = M.mvn_cmp ba bb in
          let va = M.spec_valid ba and vb = M.spec_valid bb in
          (* spec_cmp must be consistent with mvn_cmp / spec_valid *)
          (match M.spec_cmp ba bb with
           | Some c' -> assert (va && vb && c' = c)
           | None -> assert (not (va && vb)));
          assert (M.cv_cmp ia ib = c);
          Printf.printf "%s\t%s\t%s\t%s\t%s\t%s\t%s\n" (cmp_str c) (b01 va) (b01 vb) (tokens ia) (tokens ib)
            (b01 (M.conventional_strict ba)) (b01 (M.conventional_strict bb))
    done
  with End_of_file -> ()
