#!/bin/sh
# full validation of coq/Spec/MavenCV.v against maven-artifact 3.8.7 (compile coq/ first)
set -e
cd "$(dirname "$0")"
./build.sh
for seed in 1 2 3 4 5; do python3 validate_maven.py conv $seed 20000; done
for seed in 1 2 3; do python3 validate_maven.py nonconv $seed 10000; python3 validate_maven.py soup $seed 10000; done
python3 validate_maven.py exh 1 3
python3 gen_strings.py _build
echo "== preorder laws on all triples (conventional shapes; violations expected: real cycles)"
_build/trans_search conv < _build/conv_small.txt | tail -4
echo "== preorder laws on all triples (conventional_strict; no violation expected)"
_build/trans_search strict < _build/conv_small.txt | tail -2
_build/trans_search strict < _build/conv_rand.txt | tail -2
