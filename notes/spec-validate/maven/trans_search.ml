(* reads version strings (one per line), checks the total-preorder laws of mvn_cmp on all
   triples: transitivity for each of Lt/Eq/Gt and "a == b -> cmp a c = cmp b c".
   Prints the first violations and the counts.
   Optional argument: "conv" keeps only spec_valid strings, "strict" only conventional_strict. *)
module M = Maven_spec
let ascii_of_char (c : char) : M.ascii =
  let n = Char.code c in
  let b i = (n lsr i) land 1 = 1 in
  M.Ascii (b 0, b 1, b 2, b 3, b 4, b 5, b 6, b 7)
let bytes_of_string (s : string) : M.ascii list =
  List.init (String.length s) (fun i -> ascii_of_char s.[i])
let () =
  let strs = ref [] in
  (try while true do strs := input_line stdin :: !strs done with End_of_file -> ());
  let keep s =
    if Array.length Sys.argv < 2 then true
    else if Sys.argv.(1) = "strict" then M.conventional_strict (bytes_of_string s)
    else M.spec_valid (bytes_of_string s) in
  let strs = Array.of_list (List.filter keep (List.sort_uniq compare !strs)) in
  let n = Array.length strs in
  let items = Array.map (fun s -> M.parse_cv (bytes_of_string s)) strs in
  let code = function M.Lt -> -1 | M.Eq -> 0 | M.Gt -> 1 in
  let m = Array.init n (fun i -> Array.init n (fun j -> code (M.cv_cmp items.(i) items.(j)))) in
  let bad_t = ref 0 and bad_e = ref 0 and shown = ref 0 in
  for a = 0 to n - 1 do for b = 0 to n - 1 do
    let ab = m.(a).(b) in
    for c = 0 to n - 1 do
      if ab = m.(b).(c) && m.(a).(c) <> ab then begin
        incr bad_t;
        if ab <> 0 && !shown < 12 then begin incr shown;
          Printf.printf "TRANS  %s %s %s : ab=%d bc=%d ac=%d\n" strs.(a) strs.(b) strs.(c) ab m.(b).(c) m.(a).(c) end
      end;
      if ab = 0 && m.(a).(c) <> m.(b).(c) then begin
        incr bad_e;
        if !bad_e <= 12 then
          Printf.printf "EQ_L   %s == %s but vs %s : %d / %d\n" strs.(a) strs.(b) strs.(c) m.(a).(c) m.(b).(c) end
    done done done;
  Printf.printf "strings %d  triples %d  transitivity violations %d  eq-congruence violations %d\n"
    n (n*n*n) !bad_t !bad_e
