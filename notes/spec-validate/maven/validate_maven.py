#!/usr/bin/env python3
"""Validation of coq/Spec/MavenCV.v (extracted, ./_build/maven_driver) against the real
ComparableVersion of maven-artifact 3.8.7 (/usr/share/java/maven-artifact-3.x.jar).

usage: validate_maven.py MODE SEED NPAIRS
  MODE = conv     random pairs of conventional shapes  (spec_valid must hold for all)
         nonconv  random strings outside the conventional shapes (token soup)
         soup     fully random short strings over a small alphabet
         exh      ALL strings of length <= 5 over "01ag.-" (NPAIRS = number of random
                  partners per string)
Compared per pair: sign of compareTo, and per version the jar's token list
("tokens: [...]", ListItem.toListString) against the token list of parse_cv.
"""
import random, subprocess, sys, os, re, collections

HERE = os.path.dirname(os.path.abspath(__file__))
JAR = '/usr/share/java/maven-artifact-3.x.jar'
CLS = 'org.apache.maven.artifact.versioning.ComparableVersion'
DRIVER = os.path.join(HERE, '_build', 'maven_driver')

KNOWN = ["alpha", "beta", "milestone", "rc", "cr", "snapshot", "ga", "final", "release", "sp"]
SHORT = ["a", "b", "m"]
UNKNOWN = ["foo", "bar", "x", "dev", "preview", "alph", "betax", "rcx", "spx", "s", "z", "c",
           "jre", "android", "incubating", "gaa", "redhat", "ab", "am"]
NUMS = ["0", "0", "0", "1", "1", "2", "3", "9", "10", "11", "20", "100", "00", "01", "007", "010",
        "999999999", "1000000000", "2147483648", "999999999999999999", "1000000000000000000",
        "18446744073709551616", "123456789012345678901234567890"]
SMALL = ["0", "0", "1", "2", "10"]

def rcase(w):
    r = random.random()
    if r < 0.4: return w
    if r < 0.55: return w.upper()
    if r < 0.7: return w.capitalize()
    return "".join(random.choice([c.lower(), c.upper()]) for c in w)

def num():
    return random.choice(SMALL) if random.random() < 0.7 else random.choice(NUMS)

def word():
    r = random.random()
    if r < 0.55: return rcase(random.choice(KNOWN))
    if r < 0.75: return rcase(random.choice(SHORT))
    return rcase(random.choice(UNKNOWN))

def conv():
    n = random.randint(1, 4)
    s = ".".join(num() for _ in range(n))
    r = random.random()
    if r < 0.15: return s
    if r < 0.25: return s + "-" + num()
    sep = random.choice(".-")
    w = word()
    r = random.random()
    if r < 0.30: return s + sep + w
    if r < 0.65: return s + sep + w + num()
    return s + sep + w + random.choice(".-") + num()

def mutate_conv(s):
    """a conventional neighbour of s: same numbers / same qualifier with a small change"""
    for _ in range(20):
        t = list(re.findall(r'\d+|[A-Za-z]+|[.-]', s))
        k = random.randrange(len(t))
        x = t[k]
        if x.isdigit(): t[k] = num()
        elif x in ".-":
            if k + 1 < len(t) and t[k+1].isdigit() and k > 0 and t[k-1].isdigit() and x == '.':
                t[k] = random.choice(".-")
            else: t[k] = random.choice(".-")
        else: t[k] = word()
        r = "".join(t)
        if CONV_RE.match(r): return r
    return conv()

CONV_RE = re.compile(r'^\d+(\.\d+){0,3}([.-][A-Za-z]+([.-]?\d+)?|-\d+)?$')

INLINE_RE = re.compile(r'^\d+(\.\d+)*\.[A-Za-z]+[.-]\d+$')   # excluded by conventional_strict

def nonconv():
    """token soup: several groups, bare aliases, release words in the middle, odd separators"""
    toks = []
    n = random.randint(1, 7)
    for _ in range(n):
        r = random.random()
        if r < 0.40: toks.append(num())
        elif r < 0.80: toks.append(word())
        else: toks.append("")
        r = random.random()
        toks.append("." if r < 0.40 else "-" if r < 0.75 else "" if r < 0.95 else random.choice(["_", "+", "..", "--", ".-", "-."]))
    if random.random() < 0.8: toks.pop()
    return "".join(toks)

ALPHA = "0011a.-.-bmrcgspxAF_"
def soup():
    return "".join(random.choice(ALPHA) for _ in range(random.randint(0, 8)))

def mutate_any(s):
    if not s: return soup()
    k = random.randrange(len(s))
    r = random.random()
    if r < 0.4: return s[:k] + random.choice(ALPHA) + s[k+1:]
    if r < 0.7: return s[:k] + s[k+1:]
    return s[:k] + random.choice(ALPHA) + s[k:]

def jar(pairs):
    """[(sign, tokensA, tokensB)] from the real implementation; one JVM per batch"""
    res = []
    B = 1500
    for off in range(0, len(pairs), B):
        chunk = pairs[off:off+B]
        args = []
        for a, b in chunk: args += [a, b]
        out = subprocess.run(['java', '-cp', JAR, CLS] + args, capture_output=True, text=True).stdout
        lines = out.split("\n")
        # lines[0] header, lines[1] version 1, then for k >= 2: lines[2k-2] comparison, lines[2k-1] version k
        def vline(k):      # k is 1-based argument index
            l = lines[1] if k == 1 else lines[2*k-1]
            pre = "%d. %s -> " % (k, args[k-1])
            assert l.startswith(pre), (l, pre)
            return l.rsplit("; tokens: ", 1)[1]
        for j, (a, b) in enumerate(chunk):
            ka, kb = 2*j+1, 2*j+2
            cl = lines[2*kb-2]
            m = None
            for op, v in (("<", -1), ("==", 0), (">", 1)):
                if cl == "   " + a + " " + op + " " + b: m = v
            assert m is not None, (cl, a, b)
            res.append((m, vline(ka), vline(kb)))
    return res

def model(pairs):
    inp = "".join("%s\t%s\n" % p for p in pairs)
    out = subprocess.run([DRIVER], input=inp, capture_output=True, text=True).stdout.split("\n")
    res = []
    for k in range(len(pairs)):
        f = out[k].split("\t")
        res.append((int(f[0]), f[1] == "1", f[2] == "1", f[3], f[4], f[5] == "1", f[6] == "1"))
    return res

def main():
    mode, seed, n = sys.argv[1], int(sys.argv[2]), int(sys.argv[3])
    random.seed(seed)
    pairs = []
    if mode == "exh":
        import itertools
        strs = ["".join(t) for L in range(0, 6) for t in itertools.product("01ag.-", repeat=L)]
        for _ in range(n):
            perm = strs[:]; random.shuffle(perm)
            pairs += list(zip(strs, perm))
        n = 0
    for _ in range(n):
        if mode == "conv":
            a = conv(); b = mutate_conv(a) if random.random() < 0.4 else conv()
        elif mode == "nonconv":
            a = nonconv(); b = mutate_any(a) if random.random() < 0.3 else nonconv()
        else:
            a = soup(); b = mutate_any(a) if random.random() < 0.4 else soup()
        if random.random() < 0.5: a, b = b, a
        pairs.append((a, b))
    ref = jar(pairs)
    mod = model(pairs)
    bad_cmp = bad_tok = 0; nvalid = 0; nvalid_pairs = 0; dist = collections.Counter()
    pyconv_disagree = 0
    for (a, b), (rc, rta, rtb), (mc, va, vb, mta, mtb, sa, sb) in zip(pairs, ref, mod):
        dist[rc] += 1
        nvalid += va + vb
        nvalid_pairs += (va and vb)
        for s, v, st in ((a, va, sa), (b, vb, sb)):
            if bool(CONV_RE.match(s)) != v or (bool(CONV_RE.match(s)) and not INLINE_RE.match(s)) != st:
                pyconv_disagree += 1
                if pyconv_disagree < 10: print("SPEC_VALID/STRICT vs regexp:", repr(s), v, st)
        if rc != mc:
            bad_cmp += 1
            if bad_cmp < 15: print("CMP MISMATCH", repr(a), repr(b), "jar", rc, "coq", mc, rta, rtb)
        if rta != mta or rtb != mtb:
            bad_tok += 1
            if bad_tok < 15: print("TOKEN MISMATCH", repr(a), rta, mta, "|", repr(b), rtb, mtb)
    print("mode %s seed %d: pairs %d  (jar: %d '<', %d '==', %d '>')  spec_valid strings %d/%d, pairs with both valid %d"
          % (mode, seed, len(pairs), dist[-1], dist[0], dist[1], nvalid, 2*len(pairs), nvalid_pairs))
    print("  compare mismatches %d   token-list mismatches %d   spec_valid/regexp disagreements %d"
          % (bad_cmp, bad_tok, pyconv_disagree))
    return 1 if (bad_cmp or bad_tok or pyconv_disagree) else 0

if __name__ == "__main__":
    sys.exit(main())
