(* extraction of the PEP 440 specification for validation against packaging *)
From Coq Require Import Extraction ExtrOcamlBasic.
From Verif.Spec Require Import Pep440.
Extraction Language OCaml.
Extraction "pep440_spec.ml" spec_cmp spec_valid parse pep440_cmp.
