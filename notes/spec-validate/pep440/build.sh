#!/bin/sh
# builds ./_build/driver from coq/Spec/Pep440.v (the Coq project must have been made)
set -e
HERE="$(cd "$(dirname "$0")" && pwd)"
ROOT="$(cd "$HERE/../../.." && pwd)"
mkdir -p "$HERE/_build" && cd "$HERE/_build"
cp "$HERE/ExtractPep440.v" "$HERE/driver.ml" .
timeout 600 coqc -Q "$ROOT/coq" Verif ExtractPep440.v >/dev/null
ocamlfind ocamlopt -w -a pep440_spec.mli pep440_spec.ml driver.ml -o driver
echo built "$HERE/_build/driver"
