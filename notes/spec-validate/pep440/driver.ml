(* reads lines "a<TAB>b", prints -1/0/1 (spec_cmp) or E (a side invalid); a line "v<TAB>s"
   with first field exactly "?" prints spec_valid s as 1/0; first field "!" prints the AST
   of s (numbers in binary) or E *)
module M = Pep440_spec
let ascii_of_char (c : char) : M.ascii =
  let n = Char.code c in
  let b i = (n lsr i) land 1 = 1 in
  M.Ascii (b 0, b 1, b 2, b 3, b 4, b 5, b 6, b 7)
let bytes_of_string (s : string) : M.ascii list =
  let r = ref [] in
  for i = String.length s - 1 downto 0 do r := ascii_of_char s.[i] :: !r done;
  !r
let char_of_ascii (a : M.ascii) : char =
  match a with
  | M.Ascii (b0, b1, b2, b3, b4, b5, b6, b7) ->
      let v b i = if b then 1 lsl i else 0 in
      Char.chr (v b0 0 + v b1 1 + v b2 2 + v b3 3 + v b4 4 + v b5 5 + v b6 6 + v b7 7)
let string_of_bytes l =
  let b = Buffer.create 16 in
  List.iter (fun a -> Buffer.add_char b (char_of_ascii a)) l;
  Buffer.contents b
(* numbers are printed in binary (they may exceed 63 bits) *)
let rec bin_of_pos = function
  | M.XH -> "1"
  | M.XO p -> bin_of_pos p ^ "0"
  | M.XI p -> bin_of_pos p ^ "1"
let bin_of_n = function M.N0 -> "0" | M.Npos p -> bin_of_pos p
let show_ast (v : M.ast) : string =
  let opt f = function None -> "-" | Some x -> f x in
  let kind = function M.Ka -> "a" | M.Kb -> "b" | M.Krc -> "rc" in
  String.concat "|"
    [ bin_of_n v.M.epoch;
      String.concat "," (List.map bin_of_n v.M.release);
      opt (fun (k, n) -> kind k ^ ":" ^ bin_of_n n) v.M.pre;
      opt bin_of_n v.M.post;
      opt bin_of_n v.M.dev;
      String.concat ","
        (List.map (function M.Inl n -> "#" ^ bin_of_n n | M.Inr t -> "$" ^ string_of_bytes t)
           v.M.local) ]
let () =
  try
    while true do
      let line = input_line stdin in
      match String.index_opt line '\t' with
      | None -> print_endline "BAD"
      | Some i ->
          let a = String.sub line 0 i in
          let b = String.sub line (i + 1) (String.length line - i - 1) in
          if a = "?" then
            print_endline (if M.spec_valid (bytes_of_string b) then "1" else "0")
          else if a = "!" then
            print_endline
              (match M.parse (bytes_of_string b) with None -> "E" | Some v -> show_ast v)
          else
            print_endline
              (match M.spec_cmp (bytes_of_string a) (bytes_of_string b) with
               | None -> "E"
               | Some M.Lt -> "-1"
               | Some M.Eq -> "0"
               | Some M.Gt -> "1")
    done
  with End_of_file -> ()
