#!/bin/sh
# sensitivity check of validate.py: build deliberately wrong variants of Spec/Pep440.v in a
# scratch directory and confirm that the validation reports mismatches for each of them.
HERE="$(cd "$(dirname "$0")" && pwd)"
ROOT="$(cd "$HERE/../../.." && pwd)"
i=0
while IFS='@' read -r from to; do
  i=$((i+1)); D="$HERE/_build/mut$i"; rm -rf "$D"; mkdir -p "$D/Base" "$D/Spec"
  cp "$ROOT"/coq/Base/Ord.v "$ROOT"/coq/Base/Bytes.v "$ROOT"/coq/Base/GoNum.v "$D/Base/"
  python3 - "$ROOT/coq/Spec/Pep440.v" "$D/Spec/Pep440.v" "$from" "$to" <<'PY'
import sys
s=open(sys.argv[1]).read(); assert s.count(sys.argv[3])>=1, sys.argv[3]
open(sys.argv[2],'w').write(s.replace(sys.argv[3],sys.argv[4],1))
PY
  ( cd "$D" && for f in Base/Ord Base/Bytes Base/GoNum Spec/Pep440; do coqc -Q . Verif $f.v || exit 1; done
    cp "$HERE/ExtractPep440.v" "$HERE/driver.ml" . && coqc -Q . Verif ExtractPep440.v >/dev/null &&
    ocamlfind ocamlopt -w -a pep440_spec.mli pep440_spec.ml driver.ml -o driver ) || { echo "mutant $i: BUILD FAILED"; continue; }
  printf 'mutant %d [%s -> %s]: ' "$i" "$from" "$to"
  PEP440_DRIVER="$D/driver" python3-vt "$HERE/validate.py" 1 20000 2>/dev/null | grep -E "^(comparison|ast|validity)" | sed -E 's/ +\(results.*//; s/  +/ /g' | tr '\n' ';'; echo
done <<'MUT'
cmp_on dev (opt_last N.compare)@cmp_on dev (opt_first N.compare)
cmp_on post (opt_first N.compare)@cmp_on post (opt_last N.compare)
| None, None, Some _ => None@| None, _, Some _ => None
lex_pad 0 N.compare@lex_short N.compare
| inr t => (None, t)@| inr t => (Some 0, t)
inr (to_lower p)@inr p
($"c", Krc)@($"c", Kb)
if ceqb dot "."%char && is_digit c then@if ceqb dot "."%char then
replace_c "_"%char "."%char l@l
lex_short lseg_cmp@lex_long lseg_cmp
MUT
