#!/usr/bin/env python3-vt
"""Validate coq/Spec/Pep440.v (extracted, ./_build/driver) against the real `packaging` library.

usage: python3-vt validate.py [seed] [npairs]

 1. comparison: npairs pairs generated from the in-scope grammar (all 32 present/absent
    combinations of epoch/pre/post/dev/local, release length 1-5, numbers 0 / small / multi-digit
    / leading zeros / > 64 bit, every marker spelling, optional dots, mixed-case local labels);
    the second element of a pair is independent, a one-field mutation of the first, or a
    respelling of it.  sign(packaging) must equal spec_cmp.
 2. AST: every generated string: parse must give packaging's epoch/release/pre/post/dev/local.
 3. validity: mutated (mostly invalid) strings and all strings up to length 4 over a small
    alphabet: spec_valid must equal the grammar regex (fullmatch), and every spec-valid string
    must be accepted by packaging.
"""
import itertools, os, random, re, subprocess, sys
from packaging.version import Version, InvalidVersion

HERE = os.path.dirname(os.path.abspath(__file__))
DRIVER = os.environ.get("PEP440_DRIVER") or os.path.join(HERE, "_build", "driver")
seed = int(sys.argv[1]) if len(sys.argv) > 1 else 1
NPAIRS = int(sys.argv[2]) if len(sys.argv) > 2 else 30000
R = random.Random(seed)

GRAMMAR = re.compile(
    r"(?:[0-9]+!)?[0-9]+(?:\.[0-9]+)*"
    r"(?:\.?(?:a|b|rc|alpha|beta|c)[0-9]+)?"
    r"(?:\.?(?:post|rev|r)[0-9]+)?"
    r"(?:\.?dev[0-9]+)?"
    r"(?:\+[a-zA-Z0-9]+(?:[-_.][a-zA-Z0-9]+)*)?")

PRE = {"a": "a", "alpha": "a", "b": "b", "beta": "b", "rc": "rc", "c": "rc"}
POST = ["post", "rev", "r"]


def num(r):
    """a value and one of its spellings"""
    k = r.random()
    if k < 0.30:
        v = 0
    elif k < 0.65:
        v = r.randint(1, 3)
    elif k < 0.80:
        v = r.randint(4, 120)
    elif k < 0.88:
        v = r.choice([2**31 - 1, 2**31, 2**32, 2**63 - 1, 2**63, 2**64 - 1])
    elif k < 0.96:
        v = r.choice([2**64, 2**64 + 1, 10**20, 10**25 + 7, 2**100, 99999999999999999999999])
    else:
        v = r.randint(0, 10**30)
    return v


def spell_num(r, v):
    s = str(v)
    if r.random() < 0.12:
        s = "0" * r.randint(1, 3) + s
    return s


ALNUM_WORDS = ["a", "b", "z", "abc", "ABC", "Abc", "abd", "ab", "x1", "1x", "0a", "a0", "Z", "zz",
               "ubuntu", "deadbeef", "DEADBEEF", "r", "dev", "post", "rc", "9a", "a9", "A", "aB"]


def gen_local(r):
    """list of segments: int or str"""
    n = r.choice([1, 1, 2, 2, 3, 4])
    segs = []
    for _ in range(n):
        if r.random() < 0.5:
            segs.append(num(r))
        else:
            segs.append(r.choice(ALNUM_WORDS))
    return segs


class V:
    """structured version: values only; spelling chosen at render time"""
    def __init__(self, r, mask=None):
        if mask is None:
            mask = r.randrange(32)
        self.epoch = num(r) if mask & 1 else None
        self.rel = [num(r) for _ in range(r.randint(1, 5))]
        self.pre = (r.choice(["a", "b", "rc"]), num(r)) if mask & 2 else None
        self.post = num(r) if mask & 4 else None
        self.dev = num(r) if mask & 8 else None
        self.local = gen_local(r) if mask & 16 else None

    def copy(self):
        c = V.__new__(V)
        c.epoch, c.rel, c.pre, c.post, c.dev = self.epoch, list(self.rel), self.pre, self.post, self.dev
        c.local = None if self.local is None else list(self.local)
        return c

    def render(self, r):
        s = ""
        if self.epoch is not None:
            s += spell_num(r, self.epoch) + "!"
        s += ".".join(spell_num(r, x) for x in self.rel)
        if self.pre is not None:
            k, n = self.pre
            s += r.choice(["", "."]) + r.choice([w for w, c in PRE.items() if c == k]) + spell_num(r, n)
        if self.post is not None:
            s += r.choice(["", "."]) + r.choice(POST) + spell_num(r, self.post)
        if self.dev is not None:
            s += r.choice(["", "."]) + "dev" + spell_num(r, self.dev)
        if self.local is not None:
            s += "+"
            for i, seg in enumerate(self.local):
                if i:
                    s += r.choice("-_.")
                if isinstance(seg, int):
                    s += spell_num(r, seg)
                else:
                    s += "".join(ch.upper() if r.random() < 0.2 else ch for ch in seg)
        return s


def tweak(r, v):
    return max(0, v + r.choice([-1, 1, 1, 2, 10])) if r.random() < 0.8 else num(r)


def mutate(r, a):
    """one-field change of a structured version"""
    b = a.copy()
    k = r.randrange(12)
    if k == 0:
        b.epoch = None if (a.epoch is not None and r.random() < 0.4) else tweak(r, a.epoch or 0)
    elif k == 1:
        i = r.randrange(len(b.rel)); b.rel[i] = tweak(r, b.rel[i])
    elif k == 2:
        b.rel = b.rel + [0] * r.randint(1, 2) if r.random() < 0.6 else b.rel + [r.randint(0, 2)]
        b.rel = b.rel[:6]
    elif k == 3:
        if len(b.rel) > 1: b.rel = b.rel[:-1]
        else: b.rel = b.rel + [0]
    elif k == 4:
        if a.pre is None: b.pre = (r.choice(["a", "b", "rc"]), num(r))
        elif r.random() < 0.3: b.pre = None
        elif r.random() < 0.5: b.pre = (r.choice(["a", "b", "rc"]), a.pre[1])
        else: b.pre = (a.pre[0], tweak(r, a.pre[1]))
    elif k == 5:
        b.post = (num(r) if a.post is None else (None if r.random() < 0.4 else tweak(r, a.post)))
    elif k == 6:
        b.dev = (num(r) if a.dev is None else (None if r.random() < 0.4 else tweak(r, a.dev)))
    elif k == 7:
        b.local = gen_local(r) if a.local is None else (None if r.random() < 0.5 else gen_local(r))
    elif k == 8 and a.local is not None:
        i = r.randrange(len(b.local)); s = b.local[i]
        if isinstance(s, int): b.local[i] = tweak(r, s) if r.random() < 0.7 else r.choice(ALNUM_WORDS)
        else: b.local[i] = r.choice(ALNUM_WORDS) if r.random() < 0.7 else num(r)
    elif k == 9 and a.local is not None:
        if r.random() < 0.5 and len(b.local) > 1: b.local = b.local[:-1]
        else: b.local = b.local + gen_local(r)[:1]
    elif k == 10:
        # drop everything after the release / make a bare dev release
        b.pre = None; b.post = None
        if r.random() < 0.5: b.dev = num(r) if a.dev is None else a.dev
    else:
        pass  # pure respelling
    return b


def run_driver(lines):
    inp = "".join(l + "\n" for l in lines)
    out = subprocess.run([DRIVER], input=inp, capture_output=True, text=True, check=True).stdout.split("\n")
    if out and out[-1] == "":
        out.pop()
    assert len(out) == len(lines), (len(out), len(lines))
    return out


def pk_sign(a, b):
    va, vb = Version(a), Version(b)
    lt, gt, eq = va < vb, va > vb, va == vb
    assert lt + gt + eq == 1
    return -1 if lt else (1 if gt else 0)


def pk_ast(s):
    v = Version(s)
    f = lambda n: format(n, "b")
    loc = ""
    if v.local is not None:
        loc = ",".join("#" + f(int(p)) if p.isdigit() else "$" + p for p in v.local.split("."))
    return "|".join([
        f(v.epoch),
        ",".join(f(x) for x in v.release),
        "-" if v.pre is None else "%s:%s" % (v.pre[0], f(v.pre[1])),
        "-" if v.post is None else f(v.post),
        "-" if v.dev is None else f(v.dev),
        loc])


def decided_by(a, b):
    """which key component of packaging's order separates a and b (coverage statistics)"""
    va, vb = Version(a), Version(b)
    if va.epoch != vb.epoch: return "epoch"
    st = lambda t: tuple(reversed(list(itertools.dropwhile(lambda x: x == 0, reversed(t)))))
    if st(va.release) != st(vb.release): return "release"
    if va.public == vb.public or Version(a.split("+")[0]) == Version(b.split("+")[0]):
        return "equal" if va == vb else "local"
    return "pre/post/dev"


# ---------------------------------------------------------------- 1. comparison
pairs, masks = [], set()
for i in range(NPAIRS):
    ma = i % 32 if i < 32 * 40 else None     # every combination, repeatedly, for the first element
    a = V(R, ma)
    k = R.random()
    if k < 0.30:
        mb = (i // 32) % 32 if i < 32 * 32 else None   # ... and every combination of pairs once
        b = V(R, mb)
    elif k < 0.90:
        b = mutate(R, a)
        if R.random() < 0.3: b = mutate(R, b)
    else:
        b = a.copy()
    sa, sb = a.render(R), b.render(R)
    if R.random() < 0.5: sa, sb = sb, sa
    pairs.append((sa, sb))
    for x in (a, b):
        masks.add((x.epoch is not None, x.pre is not None, x.post is not None, x.dev is not None,
                   x.local is not None, len(x.rel)))

for a, b in pairs:
    assert GRAMMAR.fullmatch(a) and GRAMMAR.fullmatch(b), (a, b)

got = run_driver(["%s\t%s" % p for p in pairs])
bad = 0
tally, why = {}, {}
for (a, b), g in zip(pairs, got):
    e = pk_sign(a, b)
    tally[e] = tally.get(e, 0) + 1
    w = decided_by(a, b); why[w] = why.get(w, 0) + 1
    if g != str(e):
        bad += 1
        if bad <= 10: print("CMP MISMATCH", repr(a), repr(b), "packaging", e, "coq", g)
big = sum(1 for a, b in pairs if any(int(x) >= 2**64 for x in re.findall(r"[0-9]+", a + " " + b)))
print("comparison: pairs %d  mismatches %d   (results <:%d =:%d >:%d; decided by %s; "
      "pairs with a number >= 2^64: %d; distinct presence/length shapes: %d)"
      % (len(pairs), bad, tally.get(-1, 0), tally.get(0, 0), tally.get(1, 0),
         ", ".join("%s:%d" % kv for kv in sorted(why.items())), big, len(masks)))

# ---------------------------------------------------------------- 2. AST
strs = sorted({s for p in pairs for s in p})
got = run_driver(["!\t" + s for s in strs])
bad_ast = 0
for s, g in zip(strs, got):
    e = pk_ast(s)
    if g != e:
        bad_ast += 1
        if bad_ast <= 10: print("AST MISMATCH", repr(s), "packaging", e, "coq", g)
print("ast: strings %d  mismatches %d" % (len(strs), bad_ast))

# ---------------------------------------------------------------- 3. validity
ALPHA = "0123456789.!+-_abcdehlprstvABCRX \n"
def corrupt(r, s):
    for _ in range(r.choice([1, 1, 1, 2, 3])):
        k = r.randrange(4)
        i = r.randrange(len(s) + 1)
        if k == 0: s = s[:i] + r.choice(ALPHA) + s[i:]
        elif k == 1 and s: s = s[:max(i - 1, 0)] + s[i:]
        elif k == 2 and s: s = s[:max(i - 1, 0)] + r.choice(ALPHA) + s[i:]
        else:
            j = r.randrange(len(s) + 1); i, j = min(i, j), max(i, j)
            s = s[:i] + s[j:] if r.random() < 0.5 else s[:i] + s[i:j] + s[i:j] + s[j:]
    return s
cands = set()
for s in R.sample(strs, min(len(strs), 15000)):
    cands.add(corrupt(R, s))
# hand-picked edge cases
cands.update(["", "1", "1.", ".1", "1..2", "1!", "!1", "1!!2", "1!2!3", "1.a1", "1a", "1.a", "1a1b2",
              "1post1a1", "1dev1post1", "1.0.post1.dev2", "1rc", "1rc1", "1r1", "1rev1", "1re1", "1c1",
              "1cc1", "1alph1", "1alpha1", "1alphaa1", "1beta.1", "1.0+", "1.0+a..b", "1.0+a.", "1.0+.a",
              "1.0+a+b", "1.0+a b", "1.0 ", " 1.0", "1.0\n", "v1.0", "1.0A1", "1.0RC1", "1.0-1", "1.0post",
              "1.0.dev", "1.0-post1", "1.0_post1", "1.0..post1", "1.0pre1", "1.0preview1", "1.0+A-b_C.d",
              "1.0.+a", "1.0.0a1.post2.dev3+x", "1e5", "0", "00", "0!0", "1.0dev1.dev2", "1.0a1a2",
              "1.0post1post2", "1.0+é", "1.0+a\x00", "\x001"])
cands = sorted(c for c in cands if "\t" not in c and "\n" not in c.rstrip("\n") and all(ord(ch) < 128 for ch in c) and not c.endswith("\n"))
# exhaustive short strings
SMALL = "01.!+-arcdev"
exh = ["".join(t) for n in range(0, 5) for t in itertools.product(SMALL, repeat=n)]
allc = cands + exh
got = run_driver(["?\t" + s for s in allc])
bad_val = bad_pk = nvalid = 0
for s, g in zip(allc, got):
    e = "1" if GRAMMAR.fullmatch(s) else "0"
    if g != e:
        bad_val += 1
        if bad_val <= 10: print("VALID MISMATCH", repr(s), "grammar", e, "coq", g)
    if g == "1":
        nvalid += 1
        try: Version(s)
        except InvalidVersion:
            bad_pk += 1
            if bad_pk <= 10: print("SPEC-VALID BUT REJECTED BY packaging", repr(s))
print("validity: strings %d (mutated/hand-picked %d, exhaustive len<=4 %d)  spec-valid %d  "
      "mismatches vs grammar %d  spec-valid rejected by packaging %d"
      % (len(allc), len(cands), len(exh), nvalid, bad_val, bad_pk))
print("TOTAL MISMATCHES", bad + bad_ast + bad_val + bad_pk)
sys.exit(1 if bad + bad_ast + bad_val + bad_pk else 0)
