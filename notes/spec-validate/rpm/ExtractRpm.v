(* extraction of Spec/Rpm.v for the validation driver (ExtrOcamlBasic only; N/Z kept) *)
From Coq Require Import Extraction ExtrOcamlBasic.
From Verif.Spec Require Import Rpm.
Extraction Language OCaml.
Extraction "rpmspec.ml" rpmvercmp rpm_cmp spec_valid spec_cmp split_evr.
