#!/bin/sh
# builds ./rpmspec_driver from coq/Spec/Rpm.v (the project must have been built with make first)
set -e
cd "$(dirname "$0")"
ROOT=$(cd ../../.. && pwd)
mkdir -p _build && cd _build
cp ../ExtractRpm.v ../driver.ml .
coqc -Q "$ROOT/coq" Verif ExtractRpm.v >/dev/null
ocamlfind ocamlopt -w -a -O3 rpmspec.mli rpmspec.ml driver.ml -o ../rpmspec_driver 2>/dev/null || \
ocamlfind ocamlopt -w -a rpmspec.mli rpmspec.ml driver.ml -o ../rpmspec_driver
