(* reads lines "a<TAB>b" (raw ASCII, no tabs/newlines inside), prints
   "<rpmvercmp> <rpm_cmp> <valid a><valid b>" per line *)
module M = Rpmspec
let ascii_of_char (c : char) : M.ascii =
  let n = Char.code c in
  let b i = (n lsr i) land 1 = 1 in
  M.Ascii (b 0, b 1, b 2, b 3, b 4, b 5, b 6, b 7)
let bytes_of_string (s : string) : M.ascii list =
  let r = ref [] in
  for i = String.length s - 1 downto 0 do r := ascii_of_char s.[i] :: !r done;
  !r
let cs = function M.Eq -> "0" | M.Lt -> "-1" | M.Gt -> "1"
let bs b = if b then "1" else "0"
let () =
  try
    while true do
      let line = input_line stdin in
      let i = String.index line '\t' in
      let a = bytes_of_string (String.sub line 0 i) in
      let b = bytes_of_string (String.sub line (i + 1) (String.length line - i - 1)) in
      let va = M.spec_valid a and vb = M.spec_valid b in
      (match M.spec_cmp a b with
       | Some c -> assert (va && vb && c = M.rpm_cmp a b)
       | None -> assert (not (va && vb)));
      print_string (cs (M.rpmvercmp a b) ^ " " ^ cs (M.rpm_cmp a b) ^ " " ^ bs va ^ bs vb ^ "\n")
    done
  with End_of_file -> ()
