#!/usr/bin/env python3
"""Search for intransitive triples of rpm_ref.rpmvercmp / rpm_full (EVR) by exhaustive enumeration
of short strings: builds the full comparison matrix and checks that <= is transitive and that
cmp(a,b) = -cmp(b,a), with row bitsets."""
import os, re, sys, itertools
HERE = os.path.dirname(os.path.abspath(__file__))
src = open(os.path.join(HERE, '..', '..', 'spec-refs', 'rpm_ref.py')).read()
ns = {}; exec(src.split('T="""')[0], ns); vercmp = ns['rpmvercmp']
def rpm_full(a, b):
    def split(s):
        e = 0
        m = re.match(r'(\d+):(.*)$', s)
        if m: e = int(m.group(1)); s = m.group(2)
        if '-' in s: i = s.rindex('-'); return e, s[:i], s[i+1:]
        return e, s, None
    ea, va, ra = split(a); eb, vb, rb = split(b)
    if ea != eb: return -1 if ea < eb else 1
    c = vercmp(va, vb)
    if c: return c
    if ra is None and rb is None: return 0
    if ra is None: return -1
    if rb is None: return 1
    return vercmp(ra, rb)
def check(name, f, strs):
    n = len(strs)
    M = [[f(a, b) for b in strs] for a in strs]
    anti = sum(1 for i in range(n) for j in range(n) if M[i][j] != -M[j][i])
    LE = [sum(1 << j for j in range(n) if M[i][j] <= 0) for i in range(n)]
    viol = []
    for i in range(n):
        for j in range(n):
            if M[i][j] <= 0:
                d = LE[j] & ~LE[i]          # c with b<=c but not a<=c
                if d:
                    k = d.bit_length() - 1
                    viol.append((i, j, k))
    print(f"{name}: {n} strings, {n*n} pairs, {n**3} triples; antisymmetry violations {anti}, "
          f"transitivity violations (a<=b<=c but a>c) {len(viol)}")
    for i, j, k in viol[:5]:
        print("   ", repr(strs[i]), repr(strs[j]), repr(strs[k]), M[i][j], M[j][k], M[i][k])
alpha1 = "0a.~^1"
s1 = [''.join(t) for n in range(0, 5) for t in itertools.product(alpha1, repeat=n)]
check("rpmvercmp over [0a.~^1] len<=4", vercmp, s1)
alpha2 = "01aB.~^-:"
s2 = [''.join(t) for n in range(0, 4) for t in itertools.product(alpha2, repeat=n)]
check("rpmvercmp over [01aB.~^-:] len<=3", vercmp, s2)
check("rpm_full  over [01aB.~^-:] len<=3", rpm_full, s2)
