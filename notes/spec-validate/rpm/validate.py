#!/usr/bin/env python3
"""Validation of coq/Spec/Rpm.v (extracted to OCaml, ./rpmspec_driver) against the Python
transcription notes/spec-refs/rpm_ref.py.

  ./build.sh && python3 validate.py [seed] [pairs-per-stream]

Checks
  1. rpm's own vectors (tests/rpmvercmp.at, the table T in rpm_ref.py): rpmvercmp, 100 % required;
  2. random pairs over [0-9A-Za-z._+~^:-] in several streams (uniform, mutation of a common
     base, segment grammar, leading zeros, > 64-bit digit runs, tilde/caret at every position,
     digit/letter adjacency, repeated separators): rpmvercmp vs rpm_ref.rpmvercmp and
     rpm_cmp vs the EVR comparison of notes/spec-refs/diff_rpm_gem.py (rpm_full);
  3. spec_valid vs an independent regular expression.
"""
import os, re, sys, random, subprocess, itertools

HERE = os.path.dirname(os.path.abspath(__file__))
REF = os.path.join(HERE, '..', '..', 'spec-refs', 'rpm_ref.py')
src = open(REF).read()
ns = {}
exec(src.split('T="""')[0], ns)
ref_vercmp = ns['rpmvercmp']
T = src.split('T="""')[1].split('"""')[0]

# EVR comparison, copied from notes/spec-refs/diff_rpm_gem.py (rpm_full)
def rpm_full(a, b):
    def split(s):
        e = 0
        m = re.match(r'(\d+):(.*)$', s)
        if m: e = int(m.group(1)); s = m.group(2)
        if '-' in s: i = s.rindex('-'); return e, s[:i], s[i+1:]
        return e, s, None
    ea, va, ra = split(a); eb, vb, rb = split(b)
    if ea != eb: return -1 if ea < eb else 1
    c = ref_vercmp(va, vb)
    if c: return c
    if ra is None and rb is None: return 0
    if ra is None: return -1
    if rb is None: return 1
    return ref_vercmp(ra, rb)

VALID = re.compile(r'([0-9]+:)?[0-9A-Za-z._+~^]+(-[0-9A-Za-z._+~^]+)?\Z')
def ref_valid(s): return VALID.match(s) is not None

def run(pairs):
    inp = "".join(f"{a}\t{b}\n" for a, b in pairs)
    out = subprocess.run([os.path.join(HERE, 'rpmspec_driver')], input=inp,
                         capture_output=True, text=True, check=True).stdout.splitlines()
    assert len(out) == len(pairs), (len(out), len(pairs))
    return [l.split(' ') for l in out]

seed = int(sys.argv[1]) if len(sys.argv) > 1 else 1
NPER = int(sys.argv[2]) if len(sys.argv) > 2 else 6000
rnd = random.Random(seed)

ALPHA = "0123456789" + "abcxyzABZ" + "._+~^:-"
FULL = "0123456789abcdefghijklmnopqrstuvwxyzABCDEFGHIJKLMNOPQRSTUVWXYZ._+~^:-"

def g_uniform():
    return ''.join(rnd.choice(ALPHA) for _ in range(rnd.randint(0, 8)))
def g_full():
    return ''.join(rnd.choice(FULL) for _ in range(rnd.randint(0, 12)))
def g_small():  # tiny alphabet: many near-collisions
    return ''.join(rnd.choice("01a.~^-:") for _ in range(rnd.randint(0, 7)))

NUMS = ['0', '1', '2', '9', '10', '01', '001', '00', '0010', '20101121',
        '18446744073709551615', '18446744073709551616', '18446744073709551617',
        '99999999999999999999999999', '099999999999999999999999999', '100000000000000000000000000',
        '000000000000000000000000000000001']
WORDS = ['a', 'b', 'rc', 'rc1', 'beta', 'git', 'p', 'A', 'Z', 'aa', 'xyz', 'el', 'fc']
SEPS = ['.', '.', '.', '_', '+', '..', '._', '', '', '~', '^', '~~', '^^', '~^', '^~', '.~', '~.', '.^', '^.']
def g_seg():
    n = rnd.randint(1, 5)
    s = ''
    for i in range(n):
        s += rnd.choice(NUMS) if rnd.random() < 0.6 else rnd.choice(WORDS)
        if i < n - 1 or rnd.random() < 0.3: s += rnd.choice(SEPS)
    if rnd.random() < 0.2: s = rnd.choice(SEPS) + s
    return s
def g_evr():
    s = g_seg()
    r = rnd.random()
    if r < 0.35: s = rnd.choice(['0', '1', '2', '01', '10', '', 'a', '18446744073709551616', '1:2']) + ':' + s
    r = rnd.random()
    if r < 0.5: s += '-' + rnd.choice(['', '1', '2', '10', '1.el8', '1.fc30', '0.1.rc1', '1~a', '1^b', '1-2', g_seg()])
    return s
def mutate(s):
    k = rnd.randint(0, 5)
    if k == 0 and s:
        i = rnd.randrange(len(s)); return s[:i] + s[i+1:]
    if k == 1:
        i = rnd.randint(0, len(s)); return s[:i] + rnd.choice(ALPHA) + s[i:]
    if k == 2 and s:
        i = rnd.randrange(len(s)); return s[:i] + rnd.choice(ALPHA) + s[i+1:]
    if k == 3:
        i = rnd.randint(0, len(s)); return s[:i] + rnd.choice(['~', '^', '0', '.', '-', ':']) + s[i:]
    if k == 4 and s:
        i = rnd.randrange(len(s)); return s[:i] + s[i] + s[i:]
    return s
def pair_mut(gen):
    a = gen(); b = a
    for _ in range(rnd.randint(0, 3)): b = mutate(b)
    if rnd.random() < 0.3:
        for _ in range(rnd.randint(0, 2)): a = mutate(a)
    return (a, b) if rnd.random() < 0.5 else (b, a)
def insert_everywhere(base, ch):
    return [base[:i] + ch + base[i:] for i in range(len(base) + 1)]

streams = []
# 1. rpm's vectors
vec = [tuple(r.split(' ')) for r in T.split(';')]
# 2. random streams
streams.append(("uniform len<=8", [(g_uniform(), g_uniform()) for _ in range(NPER)]))
streams.append(("uniform full alphabet len<=12", [(g_full(), g_full()) for _ in range(NPER)]))
streams.append(("tiny alphabet len<=7", [(g_small(), g_small()) for _ in range(NPER)]))
streams.append(("segment grammar", [(g_seg(), g_seg()) for _ in range(NPER)]))
streams.append(("segment grammar, mutated twin", [pair_mut(g_seg) for _ in range(NPER)]))
streams.append(("evr grammar", [(g_evr(), g_evr()) for _ in range(NPER)]))
streams.append(("evr grammar, mutated twin", [pair_mut(g_evr) for _ in range(NPER)]))
streams.append(("uniform, mutated twin", [pair_mut(g_uniform) for _ in range(NPER)]))
# 3. systematic: tilde / caret / zero / separators inserted at every position of fixed bases
bases = ['1.0', '1.0a', '1.0.1', '1.0a1', '10.0001', '1.0~rc1', '1.0^git1', '1:1.0-1', 'a.b', '1a2b',
         '1.0-1.el8', '2_0', '1.0~rc1^git1', '1.0^git1~pre', '007', 'x']
sysl = []
for base in bases:
    vs = [base]
    for ch in ['~', '^', '0', '.', '-', ':', 'a', '1', '~~', '^^']:
        vs += insert_everywhere(base, ch)
    sysl += list(itertools.product(vs, vs))
rnd.shuffle(sysl)
streams.append(("systematic insertion (all pairs within a base)", sysl[:4 * NPER]))
# 4. exhaustive short strings over a tiny alphabet
ex = [''.join(t) for n in range(0, 4) for t in itertools.product("0a.~^-:1", repeat=n)]
exl = list(itertools.product(ex, ex))
rnd.shuffle(exl)
streams.append(("exhaustive len<=3 over [0a.~^-:1] (sample)", exl[:4 * NPER]))

total = 0; bad = 0
def report(label, n, mism):
    global total, bad
    total += n; bad += len(mism)
    print(f"{label}: {n} pairs, mismatches {len(mism)}", mism[:5] if mism else "")

out = run([(a, b) for a, b, _ in vec])
mism = [(a, b, e, o[0]) for (a, b, e), o in zip(vec, out) if int(o[0]) != int(e)]
report("rpm tests/rpmvercmp.at vectors (rpmvercmp vs expected)", len(vec), mism)
mism = [(a, b, o[0]) for (a, b, e), o in zip(vec, out) if int(o[0]) != ref_vercmp(a, b)]
report("rpm tests/rpmvercmp.at vectors (rpmvercmp vs rpm_ref.py)", len(vec), mism)

nvalid = 0; nbothvalid = 0
for label, pairs in streams:
    out = run(pairs)
    m1 = []; m2 = []; m3 = []
    for (a, b), o in zip(pairs, out):
        if int(o[0]) != ref_vercmp(a, b): m1.append((a, b, o[0], ref_vercmp(a, b)))
        if int(o[1]) != rpm_full(a, b): m2.append((a, b, o[1], rpm_full(a, b)))
        va, vb = ref_valid(a), ref_valid(b)
        if o[2] != ('1' if va else '0') + ('1' if vb else '0'): m3.append((a, b, o[2], va, vb))
        nvalid += va + vb; nbothvalid += (va and vb)
    report(f"[rpmvercmp] {label}", len(pairs), m1)
    report(f"[rpm_cmp  ] {label}", len(pairs), m2)
    report(f"[valid    ] {label}", len(pairs), m3)
print(f"TOTAL comparisons checked: {total}, TOTAL MISMATCHES: {bad}")
print(f"(strings accepted by spec_valid: {nvalid}; pairs with both sides valid: {nbothvalid})")
sys.exit(1 if bad else 0)
