(* extraction of Spec/SemVer.v for the validation driver (ExtrOcamlBasic only: N stays binary) *)
From Coq Require Import Extraction ExtrOcamlBasic.
From Verif.Spec Require Import SemVer.
Extraction Language OCaml.
Extraction "semver_spec.ml" semver_bnf spec_cmp parse_strict prec
  den_semver den_npm den_cargo den_hex den_nuget den_golang spec_cmp_with.
