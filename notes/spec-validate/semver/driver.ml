(* driver.ml — reads the case file written by gen.js and checks the extracted Coq
   specification (Semver_spec) against the expectations recorded there.
   Line format (TAB separated):
     a  b  refValidA refValidB nodeValidA nodeValidB xmodValidA xmodValidB refCmp nodeCmp xmodCmp
   validity fields: 1 / 0 / - (oracle not applicable to this string)
   compare fields: -1 / 0 / 1 / E (a side invalid) / - (oracle not applicable) *)
module M = Semver_spec

let ascii_of_char (c : char) : M.ascii =
  let n = Char.code c in
  let b i = (n lsr i) land 1 = 1 in
  M.Ascii (b 0, b 1, b 2, b 3, b 4, b 5, b 6, b 7)

let bytes_of_string (s : string) : M.ascii list =
  let r = ref [] in
  for i = String.length s - 1 downto 0 do r := ascii_of_char s.[i] :: !r done;
  !r

let cmp_str = function
  | Some M.Eq -> "0" | Some M.Lt -> "-1" | Some M.Gt -> "1" | None -> "E"
let bool_str b = if b then "1" else "0"

type ctr = { mutable n : int; mutable bad : int }
let mk () = { n = 0; bad = 0 }
let v_ref = mk () and v_node = mk () and v_xmod = mk () and c_ref = mk () and c_node = mk () and c_xmod = mk ()
let c_ref_valid = mk () and c_node_valid = mk () and c_xmod_valid = mk ()
let shown = ref 0

let check name (c : ctr) expected got ctx =
  if expected <> "-" then begin
    c.n <- c.n + 1;
    if expected <> got then begin
      c.bad <- c.bad + 1;
      if !shown < 40 then begin
        incr shown;
        Printf.printf "MISMATCH %s: %s expected=%s coq=%s\n" name ctx expected got
      end
    end
  end

let () =
  let lines = ref 0 in
  (try
    while true do
      let l = input_line stdin in
      incr lines;
      match String.split_on_char '\t' l with
      | [a; b; rva; rvb; nva; nvb; xva; xvb; rc; nc; xc] ->
          let ba = bytes_of_string a and bb = bytes_of_string b in
          let va = bool_str (M.semver_bnf ba) and vb = bool_str (M.semver_bnf bb) in
          check "valid/ref" v_ref rva va (Printf.sprintf "%S" a);
          check "valid/ref" v_ref rvb vb (Printf.sprintf "%S" b);
          check "valid/node" v_node nva va (Printf.sprintf "%S" a);
          check "valid/node" v_node nvb vb (Printf.sprintf "%S" b);
          check "valid/xmod" v_xmod xva va (Printf.sprintf "%S" a);
          check "valid/xmod" v_xmod xvb vb (Printf.sprintf "%S" b);
          let c = cmp_str (M.spec_cmp ba bb) in
          let ctx = Printf.sprintf "%S %S" a b in
          check "cmp/ref" c_ref rc c ctx;
          check "cmp/node" c_node nc c ctx;
          check "cmp/xmod" c_xmod xc c ctx;
          if rc <> "E" && rc <> "-" then c_ref_valid.n <- c_ref_valid.n + 1;
          if nc <> "E" && nc <> "-" then c_node_valid.n <- c_node_valid.n + 1;
          if xc <> "E" && xc <> "-" then c_xmod_valid.n <- c_xmod_valid.n + 1
      | _ -> failwith ("bad line: " ^ l)
    done
  with End_of_file -> ());
  Printf.printf "pairs read: %d\n" !lines;
  Printf.printf "semver_bnf vs BNF regex (semver_ref.js):   strings=%d mismatches=%d\n" v_ref.n v_ref.bad;
  Printf.printf "semver_bnf vs node-semver valid (strict):  strings=%d mismatches=%d\n" v_node.n v_node.bad;
  Printf.printf "semver_bnf vs x/mod/semver IsValid(v+s):   strings=%d mismatches=%d\n" v_xmod.n v_xmod.bad;
  Printf.printf "spec_cmp   vs semver_ref.js prec (BigInt): pairs=%d (both valid: %d) mismatches=%d\n" c_ref.n c_ref_valid.n c_ref.bad;
  Printf.printf "spec_cmp   vs node-semver compare:         pairs=%d (both valid: %d) mismatches=%d\n" c_node.n c_node_valid.n c_node.bad;
  Printf.printf "spec_cmp   vs x/mod/semver Compare:        pairs=%d (both valid: %d) mismatches=%d\n" c_xmod.n c_xmod_valid.n c_xmod.bad;
  let total = v_ref.bad + v_node.bad + v_xmod.bad + c_ref.bad + c_node.bad + c_xmod.bad in
  Printf.printf "TOTAL MISMATCHES: %d\n" total;
  exit (if total = 0 then 0 else 1)
