// gen.js <seed> <pairs> | gen.js exh <L> — random (or exhaustive short) SemVer-ish string pairs with the verdicts of two oracles:
//   * "ref":  the transcription of SemVer 2.0.0 in notes/spec-refs/semver_ref.js
//             (the BNF as one regular expression, section 11 with BigInt numerics);
//   * "node": node-semver 7.6.2, strict mode: valid() and compare().
// One TAB-separated line per pair:
//   a b refValidA refValidB nodeValidA nodeValidB xmodValidA xmodValidB refCmp nodeCmp xmodCmp
// The x/mod columns are written as "-" and filled in by xmod/main.go when Go is available.
//
// Where node-semver is not a faithful oracle the node columns are "-":
//   * valid(): it trims white space and accepts a leading "v" (we only ask it about strings that
//     start with neither and are not padded), rejects strings longer than 256 bytes and
//     major/minor/patch above 2^53-1 (we keep those to <= 15 digits when asking);
//   * compare(): numeric identifiers are converted to doubles, exact only up to 15 digits.
'use strict';
const semver = require('/usr/lib/node_modules/npm/node_modules/semver');

// ---- reference transcription (same text as notes/spec-refs/semver_ref.js) ----
const BNF = /^(0|[1-9]\d*)\.(0|[1-9]\d*)\.(0|[1-9]\d*)(?:-((?:0|[1-9]\d*|\d*[a-zA-Z-][0-9a-zA-Z-]*)(?:\.(?:0|[1-9]\d*|\d*[a-zA-Z-][0-9a-zA-Z-]*))*))?(?:\+([0-9a-zA-Z-]+(?:\.[0-9a-zA-Z-]+)*))?$/;
function parse(s) {
  const m = BNF.exec(s);
  if (!m || /\n/.test(s)) return null;
  return { core: [BigInt(m[1]), BigInt(m[2]), BigInt(m[3])], pre: m[4] ? m[4].split('.') : [] };
}
function cmpId(a, b) {
  const an = /^\d+$/.test(a), bn = /^\d+$/.test(b);
  if (an && bn) { const x = BigInt(a), y = BigInt(b); return x < y ? -1 : x > y ? 1 : 0; }
  if (an) return -1;
  if (bn) return 1;
  return a < b ? -1 : a > b ? 1 : 0;   // all ASCII here: UTF-16 order = byte order
}
function prec(A, B) {
  for (let i = 0; i < 3; i++) { if (A.core[i] < B.core[i]) return -1; if (A.core[i] > B.core[i]) return 1; }
  if (!A.pre.length && !B.pre.length) return 0;
  if (!A.pre.length) return 1;
  if (!B.pre.length) return -1;
  for (let i = 0; i < Math.min(A.pre.length, B.pre.length); i++) { const c = cmpId(A.pre[i], B.pre[i]); if (c) return c; }
  return Math.sign(A.pre.length - B.pre.length);
}

// ---- random source ----
let seed = (+process.argv[2] || 1) >>> 0;
function rnd() { seed = (Math.imul(seed, 1103515245) + 12345) >>> 0; return ((seed >>> 8) & 0xffffff) / 0x1000000; }
function int(n) { return Math.floor(rnd() * n); }
function pick(a) { return a[int(a.length)]; }
function digits(n, first) { let s = pick(first); for (let i = 1; i < n; i++) s += pick('0123456789'); return s; }

const smallNum = ['0', '0', '1', '1', '2', '3', '9', '10', '11', '12', '19', '20', '99', '100', '101'];
const alnums = ['a', 'b', 'alpha', 'beta', 'rc', 'RC', 'Rc', 'Alpha', 'ALPHA', 'A', 'Z', 'x', 'pre', 'dev', 'SNAPSHOT',
  '0a', 'a0', '1a', 'a1', '00a', '0-0', '1-1', '-5', '-0', '-05', '-', '--', '---', 'a-b', '-a', 'a-', 'x-y-z', '5-', '0-', 'rc1', 'rc-1'];
const identChars = 'abcxyzABCXYZ0123456789--';
function numId(maxDigits) {
  const r = rnd();
  if (r < 0.55) return pick(smallNum);
  if (r < 0.80) return digits(1 + int(6), '123456789');
  return digits(7 + int(maxDigits - 6), '123456789');          // 7 .. maxDigits digits
}
function alnumId() {
  if (rnd() < 0.75) return pick(alnums);
  let s = ''; const n = 1 + int(6); for (let i = 0; i < n; i++) s += pick(identChars);
  return /^\d+$/.test(s) ? s + pick('aZ-') : s;
}
function preId(maxDigits) { return rnd() < 0.5 ? numId(maxDigits) : alnumId(); }
function coreNum() { const r = rnd(); return r < 0.85 ? pick(['0', '1', '2', '3', '10', '11']) : r < 0.95 ? digits(1 + int(5), '123456789') : digits(6 + int(10), '123456789'); }
function buildId() { return pick(['b1', '1', '001', '2', 'x-y', '-', 'exp', 'sha', '5114f85', '20130313144700', 'B', '0-', '--1']); }

// a version as a structure, so that the second member of a pair can be a near copy
function genV(maxDigits) {
  const v = { core: [coreNum(), coreNum(), coreNum()], pre: null, build: null };
  if (rnd() < 0.75) { const n = 1 + int(6); v.pre = []; for (let i = 0; i < n; i++) v.pre.push(preId(maxDigits)); }
  if (rnd() < 0.3) { const n = 1 + int(3); v.build = []; for (let i = 0; i < n; i++) v.build.push(buildId()); }
  return v;
}
function show(v) {
  return v.core.join('.') + (v.pre ? '-' + v.pre.join('.') : '') + (v.build ? '+' + v.build.join('.') : '');
}
function clone(v) { return { core: v.core.slice(), pre: v.pre && v.pre.slice(), build: v.build && v.build.slice() }; }
function bump(s) {                      // a numerically close numeral
  const x = BigInt(s) + BigInt(pick([-1, 1, 1, 2, 9, 10])); return x < 0n ? '0' : x.toString();
}
function near(v, maxDigits) {
  const w = clone(v);
  const k = int(9);
  if (k === 0) { const i = int(3); w.core[i] = bump(w.core[i]); }
  else if (k === 1) { w.pre = w.pre ? null : [preId(maxDigits)]; }
  else if (k === 2 && w.pre) { w.pre.push(preId(maxDigits)); }
  else if (k === 3 && w.pre && w.pre.length > 1) { w.pre.pop(); }
  else if (k === 4 && w.pre) { w.pre[int(w.pre.length)] = preId(maxDigits); }
  else if (k === 5 && w.pre) { const i = int(w.pre.length); if (/^\d+$/.test(w.pre[i])) w.pre[i] = bump(w.pre[i]); else w.pre[i] = alnumId(); }
  else if (k === 6) { w.build = w.build ? null : [buildId(), buildId()]; }
  else if (k === 7 && w.pre) {           // flip the case of / append to an alphanumeric identifier
    const i = int(w.pre.length); const s = w.pre[i];
    if (!/^\d+$/.test(s)) w.pre[i] = rnd() < 0.5 ? (s === s.toLowerCase() ? s.toUpperCase() : s.toLowerCase()) : s + pick(identChars);
  }
  // k === 8 or a non-applicable case: an exact copy (possibly with other build metadata)
  return w;
}
// textual damage, to exercise the recogniser
const junk = ['.', '..', '-', '+', '0', '00', ' ', '_', '~', '*', 'v', '=', '^', ':', '/', '!', 'é', 'x', '1', '.0', '+-', '-.', '.-', '+.'];
function damage(s) {
  const k = int(12);
  const pos = int(s.length + 1);
  if (k <= 3) return s.slice(0, pos) + pick(junk) + s.slice(pos);            // insert
  if (k <= 5 && s.length) { const p = int(s.length); return s.slice(0, p) + s.slice(p + 1); }   // delete
  if (k === 6) return s.replace(/(^|[.\-+])([1-9])/, '$10$2');               // a leading zero somewhere
  if (k === 7) return s.replace(/^(\d+\.\d+)\.\d+/, '$1');                   // two components
  if (k === 8) return s.replace(/^(\d+\.\d+\.\d+)/, '$1.' + pick(smallNum)); // four components
  if (k === 9) return s + pick(['-', '+', '.', '+a+b', '-a..b', '+a..b', ' ']);
  if (k === 10) return pick(['', '1', '1.2', 'a.b.c', '1.2.x', '-1.2.3', '+1.2.3', '1.2.3-', '1.2.3+', '.1.2.3', '1..3', '1.2.3-+b', '1.2.3-a+', '01.2.3', '1.02.3', '1.2.03', '1.2.3-01', '1.2.3-1.02', '1.2.3-0', '1.2.3-00a', '1.2.3+01', '0.0.0', '1.2.3-a.+b']);
  return s.replace(/[.\-+]/g, m => rnd() < 0.3 ? pick(['.', '-', '+']) : m); // shuffle separators
}

// ---- oracles ----
function maxNumLen(s) { let m = 0; for (const t of s.split(/[^0-9]+/)) m = Math.max(m, t.length); return m; }
function nodeApplicableValid(s) {
  return s.length <= 256 && s === s.trim() && !/^[vV=]/.test(s) && !/[\t\n\r]/.test(s) &&
    // the three core components must be safe integers for node; only look at what could be a core
    s.split(/[-+]/)[0].split('.').every(t => t.length <= 15);
}
function nodeValid(s) { return semver.valid(s) !== null; }

function line(a, b) {
  const A = parse(a), B = parse(b);
  const rva = A ? '1' : '0', rvb = B ? '1' : '0';
  const nva = nodeApplicableValid(a) ? (nodeValid(a) ? '1' : '0') : '-';
  const nvb = nodeApplicableValid(b) ? (nodeValid(b) ? '1' : '0') : '-';
  const rc = A && B ? String(prec(A, B)) : 'E';
  let nc = '-';
  if (nva !== '-' && nvb !== '-') {
    if (nva === '0' || nvb === '0') nc = 'E';
    else if (maxNumLen(a) <= 15 && maxNumLen(b) <= 15) nc = String(semver.compare(a, b));
  }
  return [a, b, rva, rvb, nva, nvb, '-', '-', rc, nc, '-'].join('\t');
}

const out = [];
if (process.argv[2] === 'exh') {
  // gen.js exh <L>: every string of length <= L over a small alphabet, each paired with the
  // previous valid one (so that the comparison is exercised too)
  const L = +process.argv[3] || 7, alpha = '01a-.+';
  let prev = '0.0.0';
  const rec = (s) => {
    out.push(line(s, prev));
    if (parse(s)) prev = s;
    if (s.length < L) for (const c of alpha) rec(s + c);
  };
  rec('');
} else {
  const N = +process.argv[3] || 25000;
  for (let i = 0; i < N; i++) {
    // a third of the pairs keep numeric identifiers within 15 digits in any case; the others go up to 18
    const maxDigits = rnd() < 0.33 ? 15 : 18;
    const va = genV(maxDigits);
    const vb = rnd() < 0.6 ? near(va, maxDigits) : genV(maxDigits);
    let a = show(va), b = show(vb);
    if (rnd() < 0.5) { const t = a; a = b; b = t; }
    if (rnd() < 0.15) a = damage(a);
    if (rnd() < 0.15) b = damage(b);
    if (/[\t\n\r]/.test(a + b)) { i--; continue; }
    out.push(line(a, b));
  }
}
process.stdout.write(out.join('\n') + '\n');
