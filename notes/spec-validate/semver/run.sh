#!/bin/sh
# run.sh [pairs-per-seed] [seed...] — validate coq/Spec/SemVer.v (extracted to OCaml) against
# node-semver 7.6.2, the BNF/section-11 transcription, and (when Go is usable) x/mod/semver.
# EXH=<L> additionally runs every string of length <= L over a six-letter alphabet.
# The Coq project must have been built (coq/Spec/SemVer.vo).  Everything is written to ./_build.
set -e
HERE="$(cd "$(dirname "$0")" && pwd)"
ROOT="$(cd "$HERE/../../.." && pwd)"
N="${1:-25000}"; [ $# -gt 0 ] && shift
SEEDS="${*:-1 2 3}"
mkdir -p "$HERE/_build" && cd "$HERE/_build"
cp "$HERE/ExtractSemVer.v" . && timeout 600 coqc -Q "$ROOT/coq" Verif ExtractSemVer.v >/dev/null
cp "$HERE/driver.ml" .
ocamlfind ocamlopt -w -a semver_spec.mli semver_spec.ml driver.ml -o driver
XMOD=cat
if ( cd "$HERE/xmod" && GOFLAGS=-mod=mod GOPROXY=off go build -o "$HERE/_build/xmod" . ) 2>/dev/null; then
  XMOD="$HERE/_build/xmod"
else
  echo "note: x/mod/semver oracle not available (go build failed); its columns stay empty"
fi
rc=0
for s in $SEEDS; do
  echo "== seed $s, $N pairs"
  node "$HERE/gen.js" "$s" "$N" | "$XMOD" > "cases-$s.tsv"
  ./driver < "cases-$s.tsv" || rc=1
done
if [ -n "$EXH" ]; then
  echo "== exhaustive strings of length <= $EXH over {0,1,a,-,.,+}"
  node "$HERE/gen.js" exh "$EXH" | "$XMOD" > cases-exh.tsv
  ./driver < cases-exh.tsv || rc=1
fi
exit $rc
