module specvalidate/xmod

go 1.22.0

toolchain go1.23.5

require golang.org/x/mod v0.22.0
