// xmod — optional third oracle: fills the x/mod/semver columns of the case file.
// Reads the TSV written by gen.js on stdin, writes it to stdout with columns
// xmodValidA, xmodValidB, xmodCmp filled in.
//
// golang.org/x/mod/semver requires a leading "v" and additionally accepts the
// shorthands vMAJOR and vMAJOR.MINOR; strings of that shorthand shape are marked
// "-" (oracle not applicable).  Numeric identifiers of any length are compared
// exactly by x/mod (by length, then as strings), so it also covers > 15 digits.
package main

import (
	"bufio"
	"fmt"
	"os"
	"regexp"
	"strings"

	"golang.org/x/mod/semver"
)

var shorthand = regexp.MustCompile(`^(0|[1-9][0-9]*)(\.(0|[1-9][0-9]*))?$`)

func valid(s string) string {
	if shorthand.MatchString(s) {
		return "-"
	}
	if semver.IsValid("v" + s) {
		return "1"
	}
	return "0"
}

func main() {
	in := bufio.NewScanner(os.Stdin)
	in.Buffer(make([]byte, 1<<20), 1<<20)
	out := bufio.NewWriter(os.Stdout)
	defer out.Flush()
	for in.Scan() {
		f := strings.Split(in.Text(), "\t")
		if len(f) != 11 {
			panic("bad line: " + in.Text())
		}
		a, b := f[0], f[1]
		f[6], f[7] = valid(a), valid(b)
		switch {
		case f[6] == "-" || f[7] == "-":
			f[10] = "-"
		case f[6] == "0" || f[7] == "0":
			f[10] = "E"
		default:
			f[10] = fmt.Sprint(semver.Compare("v"+a, "v"+b))
		}
		fmt.Fprintln(out, strings.Join(f, "\t"))
	}
}
