(* ocaml/driver.ml — line-oriented server around the extracted model (Model).
   One request per line; while answering, the model may ask the implementation (the Go
   harness at the other end of the pipe) about a lower layer with lines starting "? ";
   each such line must be answered by exactly one line.  The final answer starts "= ".
   All strings travel hex-encoded ("-" stands for the empty string). *)

module M = Model

(* ---------- glue: OCaml strings <-> extracted bytes ---------- *)

let ascii_of_char (c : char) : M.ascii =
  let n = Char.code c in
  let b i = (n lsr i) land 1 = 1 in
  M.Ascii (b 0, b 1, b 2, b 3, b 4, b 5, b 6, b 7)

let char_of_ascii (a : M.ascii) : char =
  match a with
  | M.Ascii (b0, b1, b2, b3, b4, b5, b6, b7) ->
      let v b i = if b then 1 lsl i else 0 in
      Char.chr (v b0 0 + v b1 1 + v b2 2 + v b3 3 + v b4 4 + v b5 5 + v b6 6 + v b7 7)

let bytes_of_string (s : string) : M.ascii list =
  let r = ref [] in
  for i = String.length s - 1 downto 0 do r := ascii_of_char s.[i] :: !r done;
  !r

let string_of_bytes (l : M.ascii list) : string =
  let b = Buffer.create 16 in
  List.iter (fun a -> Buffer.add_char b (char_of_ascii a)) l;
  Buffer.contents b

let hexdig = "0123456789abcdef"
let hex_of_string (s : string) : string =
  if s = "" then "-" else begin
    let b = Buffer.create (2 * String.length s) in
    String.iter (fun c ->
      let n = Char.code c in
      Buffer.add_char b hexdig.[n lsr 4]; Buffer.add_char b hexdig.[n land 15]) s;
    Buffer.contents b
  end
let nib c =
  match c with
  | '0'..'9' -> Char.code c - 48
  | 'a'..'f' -> Char.code c - 87
  | _ -> failwith "bad hex"
let string_of_hex (h : string) : string =
  if h = "-" then "" else
  String.init (String.length h / 2) (fun i -> Char.chr (nib h.[2*i] * 16 + nib h.[2*i+1]))

let b_of_hex h = bytes_of_string (string_of_hex h)
let hex_of_b l = hex_of_string (string_of_bytes l)

let rec int_of_pos = function
  | M.XH -> 1
  | M.XO p -> 2 * int_of_pos p
  | M.XI p -> 2 * int_of_pos p + 1
let int_of_z = function M.Z0 -> 0 | M.Zpos p -> int_of_pos p | M.Zneg p -> - (int_of_pos p)

let cmp_str = function M.Eq -> "0" | M.Lt -> "-1" | M.Gt -> "1"
let cmp_of_str = function "0" -> M.Eq | "-1" -> M.Lt | "1" -> M.Gt | s -> failwith ("bad cmp " ^ s)

(* ---------- talking to the implementation ---------- *)

let ask (q : string) : string =
  print_string "? "; print_string q; print_newline ();
  input_line stdin

(* memo tables are per request batch; cleared on "RESET" *)
let memo_ok : (string, bool) Hashtbl.t = Hashtbl.create 1024
let memo_cmp : (string, M.comparison) Hashtbl.t = Hashtbl.create 1024

let oracle_vok (eco : string) (s : M.ascii list) : bool =
  let k = eco ^ " " ^ hex_of_b s in
  match Hashtbl.find_opt memo_ok k with
  | Some b -> b
  | None -> let b = (ask ("P " ^ k) = "1") in Hashtbl.replace memo_ok k b; b

let oracle_vcmp (eco : string) (a : M.ascii list) (b : M.ascii list) : M.comparison =
  let k = eco ^ " " ^ hex_of_b a ^ " " ^ hex_of_b b in
  match Hashtbl.find_opt memo_cmp k with
  | Some c -> c
  | None -> let c = cmp_of_str (ask ("C " ^ k)) in Hashtbl.replace memo_cmp k c; c

let memo_str : (string, string) Hashtbl.t = Hashtbl.create 1024

let oracle_vshow (eco : string) (s : M.ascii list) : M.ascii list =
  let k = eco ^ " " ^ hex_of_b s in
  match Hashtbl.find_opt memo_str k with
  | Some r -> b_of_hex r
  | None -> let r = ask ("S " ^ k) in Hashtbl.replace memo_str k r; b_of_hex r

let oracle_rok (eco : string) (r : M.ascii list) : bool =
  ask ("RP " ^ eco ^ " " ^ hex_of_b r) = "1"

(* Some b / None (range or version rejected) *)
let oracle_rcontains (eco : string) (r : M.ascii list) (v : M.ascii list) : bool option =
  match ask ("RC " ^ eco ^ " " ^ hex_of_b r ^ " " ^ hex_of_b v) with
  | "t" -> Some true
  | "f" -> Some false
  | _ -> None

let oracle_scheme_ops (name : M.ascii list) : M.scheme_ops =
  let eco = string_of_bytes name in
  { M.s_vok = oracle_vok eco; M.s_vcmp = oracle_vcmp eco; M.s_vshow = oracle_vshow eco;
    M.s_rcontains = oracle_rcontains eco }

let oracle_lib_ops (name : M.ascii list) : M.lib_ops =
  let eco = string_of_bytes name in
  { M.l_name = bytes_of_string (ask ("N " ^ eco));
    M.l_vok = oracle_vok eco; M.l_vshow = oracle_vshow eco; M.l_vcmp = oracle_vcmp eco;
    M.l_rok = oracle_rok eco;
    M.l_rcontains = (fun r v -> match oracle_rcontains eco r v with Some b -> b | None -> false) }

let oracle_vers_fn (r : M.ascii list) (v : M.ascii list) : M.vres =
  match ask ("XC " ^ hex_of_b r ^ " " ^ hex_of_b v) with
  | "t" -> M.VTrue
  | "f" -> M.VFalse
  | _ -> M.VErr

(* ---------- requests ---------- *)

let find name = M.find_eco (bytes_of_string name) M.ecosystems

let reply s = print_string "= "; print_string s; print_newline ()

let handle (line : string) : unit =
  match String.split_on_char ' ' line with
  | ["PING"] -> reply "pong"
  | ["RESET"] -> Hashtbl.reset memo_ok; Hashtbl.reset memo_cmp; Hashtbl.reset memo_str; reply "ok"
  | ["ECOS"] ->
      reply (String.concat "," (List.map (fun e -> string_of_bytes e.M.e_name) M.ecosystems))
  (* version layer *)
  | ["VS"; eco; h] ->
      (match find eco with
       | None -> reply "noeco"
       | Some e ->
           (match e.M.e_v.M.v_show (b_of_hex h) with
            | Some s -> reply ("1 " ^ hex_of_b s)
            | None -> reply "0"))
  | ["VC"; eco; ha; hb] ->
      (match find eco with
       | None -> reply "noeco"
       | Some e ->
           (match e.M.e_v.M.v_cmp (b_of_hex ha) (b_of_hex hb) with
            | Some c -> reply (cmp_str c)
            | None -> reply "x"))
  (* range layer; mode O = version layer answered by the implementation, M = by the model *)
  | ["RS"; mode; eco; h] ->
      (match find eco with
       | None -> reply "noeco"
       | Some e ->
           let vok = if mode = "O" then oracle_vok eco else M.self_vok e in
           (match e.M.e_r.M.r_show vok (b_of_hex h) with
            | Some s -> reply ("1 " ^ hex_of_b s)
            | None -> reply "0"))
  | ["RC"; mode; eco; hr; hv] ->
      (match find eco with
       | None -> reply "noeco"
       | Some e ->
           let vok = if mode = "O" then oracle_vok eco else M.self_vok e in
           let vcmp = if mode = "O" then oracle_vcmp eco else M.self_vcmp e in
           (match e.M.e_r.M.r_contains vok vcmp (b_of_hex hr) (b_of_hex hv) with
            | Some true -> reply "t"
            | Some false -> reply "f"
            | None -> reply "x"))
  (* reference orders: SV <spec> <hex> -> 1|0 ; SP <spec> <hexa> <hexb> -> -1|0|1|x *)
  | ["SV"; name; h] ->
      (match M.find_spec (bytes_of_string name) M.specs with
       | None -> reply "nospec"
       | Some sp -> reply (if sp.M.sp_valid (b_of_hex h) then "1" else "0"))
  | ["SP"; name; ha; hb] ->
      (match M.find_spec (bytes_of_string name) M.specs with
       | None -> reply "nospec"
       | Some sp ->
           (match sp.M.sp_cmp (b_of_hex ha) (b_of_hex hb) with
            | Some c -> reply (cmp_str c)
            | None -> reply "x"))
  (* VERS: XC <mode> <hexrange> <hexversion> -> t|f|e *)
  | ["XC"; mode; hr; hv] ->
      let res =
        if mode = "O" then M.oracle_vers oracle_scheme_ops (b_of_hex hr) (b_of_hex hv)
        else M.model_vers (b_of_hex hr) (b_of_hex hv) in
      reply (match res with M.VTrue -> "t" | M.VFalse -> "f" | M.VErr -> "e")
  (* CLI: CL <mode> <hexarg>... -> ok <hexline> | fail <hexprefix> *)
  | "CL" :: mode :: hargs ->
      let args = List.map b_of_hex hargs in
      let res =
        if mode = "O" then M.oracle_cli oracle_lib_ops oracle_vers_fn args
        else M.model_cli args in
      (match res with
       | M.Ok line -> reply ("ok " ^ hex_of_b line)
       | M.Fail pre -> reply ("fail " ^ hex_of_b pre))
  | _ -> reply "badreq"

let () =
  try
    while true do
      let line = input_line stdin in
      (try handle line with
       | Stack_overflow -> reply "stackoverflow"
       | Failure m -> reply ("fail " ^ m))
    done
  with End_of_file -> ()
