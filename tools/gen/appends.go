package main

import (
	"fmt"
	"go/ast"
	"go/parser"
	"go/printer"
	"go/token"
	"os"
	"path/filepath"
	"sort"
	"strings"
)

// appendsToUnowned: append calls whose first argument is not a slice owned by the calling
// function.  append writes into the backing array of its first argument when there is spare
// capacity, so appending to a parameter, to a field, or to a slice obtained from a call that may
// return a view of a shared value can overwrite what another reference sees (C19: "no call
// modifies a version, range or ecosystem value that another call can observe").
//
// Owned: a local declared in the function without initialiser, or (re)assigned from a composite
// literal, make, nil, a conversion of an owned value, a standard-library call, append to an owned
// slice, a three-index slice expression with max == high, or a call to a function of the same
// package all of whose returned values are owned by it (least fixed point).  Parameters,
// receivers, fields, method results and everything else are not owned.  The analysis is
// flow-insensitive inside a function except for following the source order of assignments.
func appendsToUnowned(dirs []string) []string {
	var out []string
	for _, dir := range dirs {
		files, _ := filepath.Glob(filepath.Join(dir, "*.go"))
		sort.Strings(files)
		rel, _ := filepath.Rel(repo, dir)
		fset := token.NewFileSet()
		var parsed []*ast.File
		for _, fn := range files {
			if strings.HasSuffix(fn, "_test.go") {
				continue
			}
			if src, err := os.ReadFile(fn); err == nil && strings.Contains(string(src), "//go:build verif") {
				continue
			}
			if f, err := parser.ParseFile(fset, fn, nil, 0); err == nil {
				parsed = append(parsed, f)
			}
		}
		type fn struct {
			fd     *ast.FuncDecl
			stdlib map[string]bool
		}
		var funcs []fn
		for _, f := range parsed {
			stdlib := map[string]bool{}
			for _, im := range f.Imports {
				path := strings.Trim(im.Path.Value, "\"")
				if !strings.Contains(path, ".") {
					name := path[strings.LastIndex(path, "/")+1:]
					if im.Name != nil {
						name = im.Name.Name
					}
					stdlib[name] = true
				}
			}
			for _, d := range f.Decls {
				if fd, ok := d.(*ast.FuncDecl); ok && fd.Body != nil {
					funcs = append(funcs, fn{fd, stdlib})
				}
			}
		}
		freshFuncs := map[string]bool{} // plain functions (no receiver) returning only owned values
		analyse := func(x fn, report func(arg ast.Expr)) (returnsOwned bool) {
			owned := map[string]bool{}
			var fresh func(e ast.Expr) bool
			fresh = func(e ast.Expr) bool {
				switch v := e.(type) {
				case nil:
					return true
				case *ast.CompositeLit, *ast.BasicLit, *ast.FuncLit:
					return true
				case *ast.Ident:
					return v.Name == "nil" || v.Name == "true" || v.Name == "false" || owned[v.Name]
				case *ast.ParenExpr:
					return fresh(v.X)
				case *ast.UnaryExpr:
					if v.Op == token.AND {
						_, lit := v.X.(*ast.CompositeLit)
						return lit
					}
					return true
				case *ast.BinaryExpr:
					return true // scalars and strings
				case *ast.SliceExpr:
					if v.Slice3 && v.Max != nil && v.High != nil {
						var a, b strings.Builder
						printer.Fprint(&a, fset, v.Max)
						printer.Fprint(&b, fset, v.High)
						if a.String() == b.String() {
							return true
						}
					}
					return fresh(v.X)
				case *ast.CallExpr:
					switch fun := v.Fun.(type) {
					case *ast.Ident:
						switch fun.Name {
						case "make", "new", "len", "cap", "min", "max", "string", "int", "int64", "uint64", "byte", "rune":
							return true
						case "append":
							return len(v.Args) > 0 && fresh(v.Args[0])
						}
						return freshFuncs[fun.Name]
					case *ast.SelectorExpr:
						if id, ok := fun.X.(*ast.Ident); ok && x.stdlib[id.Name] && id.Obj == nil {
							return true
						}
						return false
					case *ast.ArrayType:
						return len(v.Args) == 1 && fresh(v.Args[0])
					}
				}
				return false
			}
			returnsOwned = x.fd.Recv == nil
			ast.Inspect(x.fd.Body, func(n ast.Node) bool {
				switch v := n.(type) {
				case *ast.FuncLit:
					return false
				case *ast.DeclStmt:
					if gd, ok := v.Decl.(*ast.GenDecl); ok && gd.Tok == token.VAR {
						for _, sp := range gd.Specs {
							vs := sp.(*ast.ValueSpec)
							for i, nm := range vs.Names {
								var init ast.Expr
								if i < len(vs.Values) {
									init = vs.Values[i]
								}
								owned[nm.Name] = fresh(init)
							}
						}
					}
				case *ast.AssignStmt:
					for i, l := range v.Lhs {
						id, ok := l.(*ast.Ident)
						if !ok || id.Name == "_" {
							continue
						}
						if len(v.Lhs) == len(v.Rhs) {
							owned[id.Name] = fresh(v.Rhs[i])
						} else {
							owned[id.Name] = len(v.Rhs) == 1 && fresh(v.Rhs[0])
						}
					}
				case *ast.RangeStmt:
					// elements of a collection: not owned (they may be views)
					for _, e := range []ast.Expr{v.Key, v.Value} {
						if id, ok := e.(*ast.Ident); ok && id.Name != "_" {
							owned[id.Name] = false
						}
					}
				case *ast.ReturnStmt:
					for _, r := range v.Results {
						if !fresh(r) {
							returnsOwned = false
						}
					}
				case *ast.CallExpr:
					if id, ok := v.Fun.(*ast.Ident); ok && id.Name == "append" && len(v.Args) > 0 && !fresh(v.Args[0]) && report != nil {
						report(v.Args[0])
					}
				}
				return true
			})
			return returnsOwned
		}
		for changed := true; changed; {
			changed = false
			for _, x := range funcs {
				if x.fd.Recv == nil && !freshFuncs[x.fd.Name.Name] && analyse(x, nil) {
					freshFuncs[x.fd.Name.Name] = true
					changed = true
				}
			}
		}
		for _, x := range funcs {
			x := x
			analyse(x, func(arg ast.Expr) {
				var sb strings.Builder
				printer.Fprint(&sb, fset, arg)
				out = append(out, fmt.Sprintf("(%s, %s, %s)", coqStr(rel), coqStr(x.fd.Name.Name), coqStr(sb.String())))
			})
		}
	}
	return out
}
