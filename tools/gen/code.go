// code.go — translation of the loop-free decision logic of a Go package into Gallina
// (coq/Gen/Code/<Pkg>.v).  The fragment, the output format and the fallback policy are
// described in CODE.md.
package main

import (
	"fmt"
	"go/ast"
	"go/build"
	"go/constant"
	"go/importer"
	"go/parser"
	"go/token"
	"go/types"
	"os"
	"path/filepath"
	"sort"
	"strings"
)

// ---------- packages to translate ----------

type codeTarget struct {
	dir string // relative to the repository root
	mod string // Coq module (file) name
	core bool  // core.go: the package gets the fourth pass (Gen/Parse/<mod>Core.v)
}

func codeTargets() []codeTarget {
	var out []codeTarget
	for _, e := range ecosystems() {
		out = append(out, codeTarget{"pkg/ecosystem/" + e, strings.ToUpper(e[:1]) + e[1:], false})
	}
	if _, err := os.Stat(filepath.Join(repo, "pkg/spec/vers")); err == nil {
		out = append(out, codeTarget{"pkg/spec/vers", "SpecVers", true})
	}
	if _, err := os.Stat(filepath.Join(repo, "cmd")); err == nil {
		out = append(out, codeTarget{"cmd", "Cmd", true})
	}
	return out
}

// ---------- type checking (offline: standard library from GOROOT source, module packages from
// the repository tree) ----------

type repoImporter struct {
	fset    *token.FileSet
	std     types.Importer
	modPath string
	cache   map[string]*types.Package
}

func newRepoImporter(fset *token.FileSet) *repoImporter {
	mod := ""
	if src, err := os.ReadFile(filepath.Join(repo, "go.mod")); err == nil {
		for _, l := range strings.Split(string(src), "\n") {
			if strings.HasPrefix(l, "module ") {
				mod = strings.TrimSpace(strings.TrimPrefix(l, "module "))
				break
			}
		}
	}
	return &repoImporter{fset: fset, std: importer.ForCompiler(fset, "source", nil), modPath: mod, cache: map[string]*types.Package{}}
}

func (ri *repoImporter) Import(path string) (*types.Package, error) {
	if ri.modPath != "" && (path == ri.modPath || strings.HasPrefix(path, ri.modPath+"/")) {
		if p, ok := ri.cache[path]; ok {
			return p, nil
		}
		rel := strings.TrimPrefix(strings.TrimPrefix(path, ri.modPath), "/")
		files, err := parseDir(ri.fset, filepath.Join(repo, rel))
		if err != nil {
			return nil, err
		}
		conf := types.Config{Importer: ri, IgnoreFuncBodies: true, Error: func(error) {}}
		p, _ := conf.Check(path, ri.fset, files, nil)
		ri.cache[path] = p
		return p, nil
	}
	return ri.std.Import(path)
}

// parseDir: the non-test files of a directory that the default build would compile, by name.
func parseDir(fset *token.FileSet, dir string) ([]*ast.File, error) {
	ents, err := os.ReadDir(dir)
	if err != nil {
		return nil, err
	}
	var names []string
	for _, e := range ents {
		n := e.Name()
		if e.IsDir() || !strings.HasSuffix(n, ".go") || strings.HasSuffix(n, "_test.go") {
			continue
		}
		if ok, err := build.Default.MatchFile(dir, n); err != nil || !ok {
			continue
		}
		names = append(names, n)
	}
	sort.Strings(names)
	var files []*ast.File
	for _, n := range names {
		f, err := parser.ParseFile(fset, filepath.Join(dir, n), nil, parser.ParseComments)
		if err != nil {
			return nil, err
		}
		files = append(files, f)
	}
	return files, nil
}

// ---------- per-package state ----------

type fieldInfo struct {
	goName string
	coq    string // mangled projection name
	typ    types.Type
	ctyp   string
}

type structInfo struct {
	obj     *types.TypeName
	name    string
	pos     string
	fields  []fieldInfo
	omitted []string // "name (reason)"
	ok      bool
	reason  string
	state   int // 0 unvisited, 1 in progress, 2 done
}

type skipErr struct {
	msg string
}

func (e *skipErr) Error() string { return e.msg }

type funcInfo struct {
	decl    *ast.FuncDecl
	obj     *types.Func
	name    string
	pos     string
	sigOK   bool
	sigWhy  string
	ptypes  []string // Coq parameter types (receiver first)
	rtype   string
	nres    int // number of results when there are several (loops.go), else 0
	binders string
	body    string
	skip    string // reason when not translated
	calls   []*funcInfo
	ascii   []string // ASCII-only library functions used
	// fallback
	fallback string // text of the snapshot item
	fbCalls  []string
	// for loops.go
	inCode   bool     // Gen/Code has a definition (fresh or fallback)
	errRes   bool     // parse.go: the last result is `error`; rtype is `option <values>`
	nvals    int      // parse.go: number of results before the error
	codeVars []string // Section variables of Gen/Code the definition depends on, in section order
	// core.go
	tparams []string       // names of the type parameters (generic function)
	dropped map[int]string // parameters that are abstract receivers (interface values): index -> prefix of their method variables
	writers []int          // parameters of type io.Writer (output accumulators), by index
}

type codePkg struct {
	goneInCode map[string]bool // functions absent from the source whose snapshot definition Gen/Code carries
	tgt     codeTarget
	fset    *token.FileSet
	files   []*ast.File
	info    *types.Info
	pkg     *types.Package
	structs []*structInfo
	structM map[*types.TypeName]*structInfo
	funcs   []*funcInfo
	funcM   map[*types.Func]*funcInfo
	globals map[string]bool
	wide    bool // loops.go: rune -> Z, byte -> ascii are inside the fragment
	errs    bool // parse.go: (T, error) results are inside the fragment (option T)
	core    bool // core.go: type parameters, local struct types, local maps, function values, io.Writer
	foreign map[string]string // core.go: abstract types of other packages met so far (Coq name -> Go type)
}

var coqReserved = map[string]bool{}

func init() {
	for _, w := range strings.Fields(`as at cofix else end exists exists2 fix for forall fun if IF in let match mod
		Prop return Set then Type using where with by SProp nil cons true false bool list bytes Z N nat
		length forallb existsb beq bytes_cmp negb andb orb wrap64 z_sign has_prefix has_suffix contains_sub
		trim_prefix trim_suffix to_lower to_upper trim_space dec_z app fst snd pair option Some None
		str_lt str_le mem chr code map filter rev ascii string unit tt eq le lt ge gt plus mult minus
		min max pred S O Code Variable Definition Section End Record Lemma Theorem Proof Qed`) {
		coqReserved[w] = true
	}
}

func mangleGlobal(s string) string {
	if coqReserved[s] {
		return s + "_"
	}
	if s == "_" {
		return "blank_"
	}
	return s
}

func (cp *codePkg) position(p token.Pos) string {
	q := cp.fset.Position(p)
	return fmt.Sprintf("%s:%d", filepath.Base(q.Filename), q.Line)
}

// ---------- types ----------

func (cp *codePkg) trType(t types.Type) (string, error) {
	if cp.core {
		if s, ok, err := cp.coreType(t); ok || err != nil {
			return s, err
		}
	}
	switch u := t.(type) {
	case *types.Basic:
		switch u.Kind() {
		case types.Int, types.Int64, types.UntypedInt:
			return "Z", nil
		case types.String, types.UntypedString:
			return "bytes", nil
		case types.Bool, types.UntypedBool:
			return "bool", nil
		case types.Int32, types.UntypedRune:
			if cp.wide {
				return "Z", nil
			}
		case types.Uint8:
			if cp.wide {
				return "ascii", nil
			}
		}
		return "", fmt.Errorf("type %s", u.String())
	case *types.Slice:
		e, err := cp.trType(u.Elem())
		if err != nil {
			return "", err
		}
		if strings.Contains(e, " ") {
			e = "(" + e + ")"
		}
		return "list " + e, nil
	case *types.Pointer:
		if n, ok := types.Unalias(u.Elem()).(*types.Named); ok && !isBuilderType(n) {
			if _, isS := n.Underlying().(*types.Struct); isS {
				return cp.trType(n)
			}
		}
		return "", fmt.Errorf("pointer type %s", types.TypeString(t, types.RelativeTo(cp.pkg)))
	case *types.Alias:
		return cp.trType(types.Unalias(u))
	case *types.Named:
		if cp.errs && isBuilderType(u) {
			return "bytes", nil // parse.go: a local strings.Builder is a bytes accumulator
		}
		if u.Obj().Pkg() != cp.pkg || u.TypeParams().Len() > 0 {
			return "", fmt.Errorf("type %s", types.TypeString(t, types.RelativeTo(cp.pkg)))
		}
		if _, isS := u.Underlying().(*types.Struct); isS {
			si := cp.structM[u.Obj()]
			if si == nil {
				return "", fmt.Errorf("local struct type %s", u.Obj().Name())
			}
			cp.resolveStruct(si)
			if !si.ok {
				return "", fmt.Errorf("type %s (%s)", si.name, si.reason)
			}
			return si.name, nil
		}
		if _, isB := u.Underlying().(*types.Basic); isB {
			return cp.trType(u.Underlying())
		}
		return "", fmt.Errorf("type %s", types.TypeString(t, types.RelativeTo(cp.pkg)))
	}
	return "", fmt.Errorf("type %s", types.TypeString(t, types.RelativeTo(cp.pkg)))
}

func (cp *codePkg) resolveStruct(si *structInfo) {
	if si.state == 2 {
		return
	}
	if si.state == 1 {
		si.ok = false
		si.reason = "recursive struct"
		return
	}
	si.state = 1
	si.ok = true
	st := si.obj.Type().Underlying().(*types.Struct)
	for i := 0; i < st.NumFields(); i++ {
		f := st.Field(i)
		if f.Embedded() {
			si.omitted = append(si.omitted, f.Name()+" (embedded)")
			continue
		}
		ct, err := cp.trType(f.Type())
		if !si.ok { // became recursive while resolving the field
			break
		}
		if err != nil {
			si.omitted = append(si.omitted, f.Name()+" ("+err.Error()+")")
			continue
		}
		si.fields = append(si.fields, fieldInfo{goName: f.Name(), coq: si.name + "_" + f.Name(), typ: f.Type(), ctyp: ct})
	}
	if !si.ok {
		si.fields = nil
	}
	si.state = 2
}

func (cp *codePkg) structOf(t types.Type) *structInfo {
	t = types.Unalias(t)
	if p, ok := t.(*types.Pointer); ok {
		t = types.Unalias(p.Elem())
	}
	if n, ok := t.(*types.Named); ok {
		if si := cp.structM[n.Obj()]; si != nil && si.ok {
			return si
		}
	}
	return nil
}

func (cp *codePkg) zero(t types.Type) (string, error) {
	if cp.core {
		if s, ok := cp.coreZero(t); ok {
			return s, nil
		}
	}
	switch u := types.Unalias(t).(type) {
	case *types.Basic:
		switch u.Kind() {
		case types.Int, types.Int64:
			return "0", nil
		case types.String:
			if cp.wide {
				return "([] : bytes)", nil
			}
			return "[]", nil
		case types.Bool:
			return "false", nil
		case types.Int32:
			if cp.wide {
				return "0", nil
			}
		case types.Uint8:
			if cp.wide {
				return "chr 0", nil
			}
		}
	case *types.Slice:
		if ct, err := cp.trType(u); err == nil {
			if cp.wide {
				return "([] : " + ct + ")", nil
			}
			return "[]", nil
		}
	case *types.Named:
		if cp.errs && isBuilderType(u) {
			return "([] : bytes)", nil
		}
		if si := cp.structOf(u); si != nil {
			parts := []string{"mk_" + si.name}
			for _, f := range si.fields {
				z, err := cp.zero(f.typ)
				if err != nil {
					return "", err
				}
				parts = append(parts, z)
			}
			if len(parts) == 1 {
				return parts[0], nil
			}
			return "(" + strings.Join(parts, " ") + ")", nil
		}
		if _, isB := u.Underlying().(*types.Basic); isB && u.Obj().Pkg() == cp.pkg {
			return cp.zero(u.Underlying())
		}
	case *types.Pointer:
		return "", fmt.Errorf("nil pointer value")
	}
	return "", fmt.Errorf("zero value of %s", types.TypeString(t, types.RelativeTo(cp.pkg)))
}

// ---------- literals ----------

func coqBytesLit(s string) string {
	plain := true
	for i := 0; i < len(s); i++ {
		if s[i] < 32 || s[i] > 126 {
			plain = false
		}
	}
	if s == "" {
		return "[]"
	}
	if plain {
		return "$\"" + strings.ReplaceAll(s, "\"", "\"\"") + "\""
	}
	var p []string
	for i := 0; i < len(s); i++ {
		p = append(p, fmt.Sprintf("chr %d", s[i]))
	}
	return "[" + strings.Join(p, "; ") + "]"
}

func coqZLit(v constant.Value) (string, error) {
	if v.Kind() != constant.Int {
		return "", fmt.Errorf("non-integer constant")
	}
	n, ok := constant.Int64Val(v)
	if !ok {
		return "", fmt.Errorf("constant out of int64 range")
	}
	if n < 0 {
		return fmt.Sprintf("(%d)", n), nil
	}
	return fmt.Sprintf("%d", n), nil
}

// ---------- function translation ----------

type fnTr struct {
	cp     *codePkg
	fi     *funcInfo
	names  map[types.Object]string
	used   map[string]bool
	calls  map[*funcInfo]bool
	size   int
	fresh  int
	asciis map[string]bool
	ext    func(e ast.Expr) (string, bool, error) // loops.go: further expression forms
}

func (t *fnTr) errAt(n ast.Node, format string, a ...any) error {
	return &skipErr{fmt.Sprintf(format, a...) + " at " + t.cp.position(n.Pos())}
}

func (t *fnTr) bind(o types.Object, goName string) string {
	if o != nil {
		if n, ok := t.names[o]; ok {
			return n
		}
	}
	base := goName
	if base == "_" || base == "" {
		base = "x"
	}
	for coqReserved[base] || t.cp.globals[base] || t.used[base] {
		base += "_"
	}
	t.used[base] = true
	if o != nil {
		t.names[o] = base
	}
	return base
}

func (t *fnTr) kind(e ast.Expr) types.BasicKind {
	ty := t.cp.info.TypeOf(e)
	if ty == nil {
		return types.Invalid
	}
	if b, ok := ty.Underlying().(*types.Basic); ok {
		switch b.Kind() {
		case types.Int, types.Int64, types.UntypedInt:
			return types.Int
		case types.String, types.UntypedString:
			return types.String
		case types.Bool, types.UntypedBool:
			return types.Bool
		case types.Int32, types.UntypedRune:
			if t.cp.wide {
				return types.Int32
			}
		case types.Uint8:
			if t.cp.wide {
				return types.Uint8
			}
		}
	}
	return types.Invalid
}

func paren(s string) string {
	if s == "" {
		return s
	}
	if !strings.ContainsAny(s, " \n") {
		return s
	}
	if s[0] == '(' && matchingParen(s) == len(s)-1 {
		return s
	}
	if s[0] == '[' && strings.HasSuffix(s, "]") && !strings.Contains(s[1:], "[") {
		return s
	}
	return "(" + s + ")"
}

func matchingParen(s string) int {
	d := 0
	inStr := false
	for i := 0; i < len(s); i++ {
		c := s[i]
		if c == '"' {
			inStr = !inStr
		}
		if inStr {
			continue
		}
		if c == '(' {
			d++
		} else if c == ')' {
			d--
			if d == 0 {
				return i
			}
		}
	}
	return -1
}

func app(f string, args ...string) string {
	p := []string{f}
	for _, a := range args {
		p = append(p, paren(a))
	}
	return strings.Join(p, " ")
}

func (t *fnTr) expr(e ast.Expr) (string, error) {
	info := t.cp.info
	// constants (literals, named constants, constant expressions) are folded by go/types
	if tv, ok := info.Types[e]; ok && tv.Value != nil {
		switch t.kind(e) {
		case types.Int, types.Int32:
			return coqZLit(tv.Value)
		case types.Uint8:
			if n, ok := constant.Int64Val(tv.Value); ok && n >= 0 && n < 256 {
				return fmt.Sprintf("chr %d", n), nil
			}
		case types.String:
			if tv.Value.Kind() == constant.String {
				return coqBytesLit(constant.StringVal(tv.Value)), nil
			}
		case types.Bool:
			if tv.Value.Kind() == constant.Bool {
				if constant.BoolVal(tv.Value) {
					return "true", nil
				}
				return "false", nil
			}
		}
		return "", t.errAt(e, "constant of type %s", types.TypeString(tv.Type, types.RelativeTo(t.cp.pkg)))
	}
	if t.ext != nil {
		if s, ok, err := t.ext(e); ok || err != nil {
			return s, err
		}
	}
	switch x := e.(type) {
	case *ast.ParenExpr:
		return t.expr(x.X)
	case *ast.Ident:
		o := info.ObjectOf(x)
		switch v := o.(type) {
		case *types.Var:
			if v.IsField() {
				return "", t.errAt(e, "bare field %s", x.Name)
			}
			if v.Parent() == t.cp.pkg.Scope() || v.Pkg() != t.cp.pkg {
				return "", t.errAt(e, "package variable %s", x.Name)
			}
			if n, ok := t.names[o]; ok {
				return n, nil
			}
			return "", t.errAt(e, "variable %s defined outside the fragment", x.Name)
		case *types.Nil:
			return "", t.errAt(e, "nil")
		}
		return "", t.errAt(e, "identifier %s", x.Name)
	case *ast.SelectorExpr:
		sel := info.Selections[x]
		if sel == nil {
			return "", t.errAt(e, "qualified identifier %s", exprText(x))
		}
		if sel.Kind() != types.FieldVal {
			return "", t.errAt(e, "method value %s", x.Sel.Name)
		}
		if len(sel.Index()) != 1 {
			return "", t.errAt(e, "promoted field %s", x.Sel.Name)
		}
		si := t.cp.structOf(sel.Recv())
		if si == nil {
			return "", t.errAt(e, "field %s of a type outside the fragment", x.Sel.Name)
		}
		for _, f := range si.fields {
			if f.goName == x.Sel.Name {
				r, err := t.expr(x.X)
				if err != nil {
					return "", err
				}
				return app(f.coq, r), nil
			}
		}
		return "", t.errAt(e, "field %s.%s has a type outside the fragment", si.name, x.Sel.Name)
	case *ast.StarExpr:
		if t.cp.structOf(info.TypeOf(x.X)) != nil {
			return t.expr(x.X)
		}
		return "", t.errAt(e, "pointer dereference")
	case *ast.UnaryExpr:
		switch x.Op {
		case token.NOT:
			a, err := t.expr(x.X)
			if err != nil {
				return "", err
			}
			return app("negb", a), nil
		case token.SUB:
			if t.kind(x.X) != types.Int {
				return "", t.errAt(e, "unary minus on non-int")
			}
			a, err := t.expr(x.X)
			if err != nil {
				return "", err
			}
			return "wrap64 (- " + paren(a) + ")", nil
		case token.ADD:
			if t.kind(x.X) == types.Int {
				return t.expr(x.X)
			}
		case token.AND:
			if cl, ok := x.X.(*ast.CompositeLit); ok && t.cp.structOf(info.TypeOf(cl)) != nil {
				return t.expr(cl)
			}
			return "", t.errAt(e, "address-of")
		}
		return "", t.errAt(e, "unary operator %s", x.Op)
	case *ast.BinaryExpr:
		return t.binary(x)
	case *ast.CallExpr:
		return t.call(x)
	case *ast.CompositeLit:
		return t.composite(x)
	case *ast.IndexExpr:
		return "", t.errAt(e, "index expression")
	case *ast.SliceExpr:
		return "", t.errAt(e, "slice expression")
	case *ast.FuncLit:
		return "", t.errAt(e, "closure")
	case *ast.TypeAssertExpr:
		return "", t.errAt(e, "type assertion")
	}
	return "", t.errAt(e, "expression %T", e)
}

func exprText(e ast.Expr) string {
	switch x := e.(type) {
	case *ast.Ident:
		return x.Name
	case *ast.SelectorExpr:
		return exprText(x.X) + "." + x.Sel.Name
	}
	return "?"
}

func (t *fnTr) binary(x *ast.BinaryExpr) (string, error) {
	k := t.kind(x.X)
	if k2 := t.kind(x.Y); k2 != k {
		// x == nil and the like
		return "", t.errAt(x, "operator %s on operands outside the fragment", x.Op)
	}
	if k == types.Invalid {
		return "", t.errAt(x, "operator %s on %s", x.Op, types.TypeString(t.cp.info.TypeOf(x.X), types.RelativeTo(t.cp.pkg)))
	}
	a, err := t.expr(x.X)
	if err != nil {
		return "", err
	}
	b, err := t.expr(x.Y)
	if err != nil {
		return "", err
	}
	bad := func() (string, error) {
		return "", t.errAt(x, "operator %s on %s", x.Op, types.TypeString(t.cp.info.TypeOf(x.X), types.RelativeTo(t.cp.pkg)))
	}
	switch x.Op {
	case token.LAND:
		return app("andb", a, b), nil
	case token.LOR:
		return app("orb", a, b), nil
	case token.EQL, token.NEQ:
		var r string
		switch k {
		case types.Int:
			r = app("Z.eqb", a, b)
		case types.String:
			r = app("beq", a, b)
		case types.Bool:
			r = app("Bool.eqb", a, b)
		case types.Int32:
			r = app("Z.eqb", a, b)
		case types.Uint8:
			r = app("ceqb", a, b)
		}
		if x.Op == token.NEQ {
			r = app("negb", r)
		}
		return r, nil
	case token.LSS, token.LEQ, token.GTR, token.GEQ:
		if x.Op == token.GTR || x.Op == token.GEQ { // a > b is b < a
			a, b = b, a
		}
		strict := x.Op == token.LSS || x.Op == token.GTR
		switch k {
		case types.Int, types.Int32:
			if strict {
				return app("Z.ltb", a, b), nil
			}
			return app("Z.leb", a, b), nil
		case types.Uint8:
			if strict {
				return app("N.ltb", app("code", a), app("code", b)), nil
			}
			return app("N.leb", app("code", a), app("code", b)), nil
		case types.String:
			if strict {
				return app("str_lt", a, b), nil
			}
			return app("str_le", a, b), nil
		}
		return bad()
	case token.ADD:
		switch k {
		case types.Int:
			return "wrap64 (" + paren(a) + " + " + paren(b) + ")", nil
		case types.String:
			return paren(a) + " ++ " + paren(b), nil
		}
		return bad()
	case token.SUB:
		if k == types.Int {
			return "wrap64 (" + paren(a) + " - " + paren(b) + ")", nil
		}
		return bad()
	case token.MUL:
		if k == types.Int {
			return "wrap64 (" + paren(a) + " * " + paren(b) + ")", nil
		}
		return bad()
	}
	return bad()
}

// library functions with an exact counterpart in Base/Bytes.v / Base/GoNum.v.  swap: the Go
// argument order (s, x) is (x, s) in the Coq function.
var libFuncs = map[string]struct {
	coq   string
	nargs int
	swap  bool
	ascii bool
}{
	"strings.HasPrefix":  {"has_prefix", 2, true, false},
	"strings.HasSuffix":  {"has_suffix", 2, true, false},
	"strings.Contains":   {"contains_sub", 2, true, false},
	"strings.TrimPrefix": {"trim_prefix", 2, true, false},
	"strings.TrimSuffix": {"trim_suffix", 2, true, false},
	"strings.ToLower":    {"to_lower", 1, false, true},
	"strings.ToUpper":    {"to_upper", 1, false, true},
	"strings.TrimSpace":  {"trim_space", 1, false, true},
	"strconv.Itoa":       {"dec_z", 1, false, false},
}

func (t *fnTr) args(es []ast.Expr) ([]string, error) {
	var out []string
	for _, a := range es {
		s, err := t.expr(a)
		if err != nil {
			return nil, err
		}
		out = append(out, s)
	}
	return out, nil
}

func (t *fnTr) call(x *ast.CallExpr) (string, error) {
	info := t.cp.info
	if x.Ellipsis != token.NoPos {
		return "", t.errAt(x, "variadic call")
	}
	// conversions
	if tv, ok := info.Types[x.Fun]; ok && tv.IsType() {
		if len(x.Args) == 1 {
			from, to := t.kind(x.Args[0]), types.Invalid
			if b, ok := tv.Type.Underlying().(*types.Basic); ok {
				switch b.Kind() {
				case types.Int, types.Int64:
					to = types.Int
				case types.String:
					to = types.String
				case types.Bool:
					to = types.Bool
				}
			}
			if from != types.Invalid && from == to {
				return t.expr(x.Args[0])
			}
		}
		return "", t.errAt(x, "conversion to %s", types.TypeString(tv.Type, types.RelativeTo(t.cp.pkg)))
	}
	fun := x.Fun
	if p, ok := fun.(*ast.ParenExpr); ok {
		fun = p.X
	}
	switch f := fun.(type) {
	case *ast.Ident:
		switch o := info.ObjectOf(f).(type) {
		case *types.Builtin:
			switch o.Name() {
			case "len":
				ty := info.TypeOf(x.Args[0])
				_, isSlice := ty.Underlying().(*types.Slice)
				if t.kind(x.Args[0]) != types.String && !isSlice {
					return "", t.errAt(x, "len of %s", types.TypeString(ty, types.RelativeTo(t.cp.pkg)))
				}
				a, err := t.expr(x.Args[0])
				if err != nil {
					return "", err
				}
				return "Z.of_nat (length " + paren(a) + ")", nil
			case "min", "max":
				for _, a := range x.Args {
					if t.kind(a) != types.Int {
						return "", t.errAt(x, "%s on non-int", o.Name())
					}
				}
				as, err := t.args(x.Args)
				if err != nil {
					return "", err
				}
				r := as[0]
				for _, a := range as[1:] {
					r = app("Z."+o.Name(), r, a)
				}
				return r, nil
			}
			return "", t.errAt(x, "builtin %s", o.Name())
		case *types.Func:
			return t.localCall(x, o, nil)
		}
		return "", t.errAt(x, "call of %s", f.Name)
	case *ast.SelectorExpr:
		if sel := info.Selections[f]; sel != nil {
			if sel.Kind() != types.MethodVal {
				return "", t.errAt(x, "call of a function value")
			}
			fn, _ := sel.Obj().(*types.Func)
			if fn == nil || len(sel.Index()) != 1 {
				return "", t.errAt(x, "call of promoted method %s", f.Sel.Name)
			}
			return t.localCall(x, fn, f.X)
		}
		// package-qualified
		fn, _ := info.ObjectOf(f.Sel).(*types.Func)
		if fn == nil || fn.Pkg() == nil {
			return "", t.errAt(x, "call of %s", exprText(f))
		}
		q := fn.Pkg().Path() + "." + fn.Name()
		switch q {
		case "strings.Compare", "cmp.Compare":
			if len(x.Args) != 2 {
				break
			}
			as, err := t.args(x.Args)
			if err != nil {
				return "", err
			}
			switch t.kind(x.Args[0]) {
			case types.Int:
				return "z_sign (Z.compare " + paren(as[0]) + " " + paren(as[1]) + ")", nil
			case types.String:
				return "z_sign (bytes_cmp " + paren(as[0]) + " " + paren(as[1]) + ")", nil
			}
			return "", t.errAt(x, "%s on operands outside the fragment", q)
		}
		if lf, ok := libFuncs[q]; ok && len(x.Args) == lf.nargs {
			for _, a := range x.Args {
				if t.kind(a) == types.Invalid {
					return "", t.errAt(x, "%s on operands outside the fragment", q)
				}
			}
			as, err := t.args(x.Args)
			if err != nil {
				return "", err
			}
			if lf.swap {
				as[0], as[1] = as[1], as[0]
			}
			if lf.ascii {
				t.asciis[q] = true
			}
			return app(lf.coq, as...), nil
		}
		return "", t.errAt(x, "call of %s", q)
	}
	return "", t.errAt(x, "call of a computed function")
}

func (t *fnTr) localCall(x *ast.CallExpr, fn *types.Func, recv ast.Expr) (string, error) {
	callee := t.cp.funcM[fn.Origin()]
	if callee == nil {
		return "", t.errAt(x, "call of %s (not a function of this package)", fn.Name())
	}
	if !callee.sigOK {
		return "", t.errAt(x, "call of %s (signature outside the fragment: %s)", callee.name, callee.sigWhy)
	}
	var as []string
	if recv != nil {
		r, err := t.expr(recv)
		if err != nil {
			return "", err
		}
		as = append(as, r)
	}
	rest, err := t.args(x.Args)
	if err != nil {
		return "", err
	}
	as = append(as, rest...)
	if len(as) != len(callee.ptypes) {
		return "", t.errAt(x, "call of %s with %d arguments", callee.name, len(as))
	}
	if !t.calls[callee] {
		t.calls[callee] = true
		t.fi.calls = append(t.fi.calls, callee)
	}
	if len(as) == 0 {
		return callee.name, nil
	}
	return app(callee.name, as...), nil
}

func (t *fnTr) composite(x *ast.CompositeLit) (string, error) {
	ty := t.cp.info.TypeOf(x)
	if sl, ok := ty.Underlying().(*types.Slice); ok {
		if _, err := t.cp.trType(sl); err != nil {
			return "", t.errAt(x, "slice literal of %s", err.Error())
		}
		var parts []string
		for _, el := range x.Elts {
			if _, isKV := el.(*ast.KeyValueExpr); isKV {
				return "", t.errAt(x, "keyed slice literal")
			}
			s, err := t.expr(el)
			if err != nil {
				return "", err
			}
			parts = append(parts, s)
		}
		return "[" + strings.Join(parts, "; ") + "]", nil
	}
	si := t.cp.structOf(ty)
	if si == nil {
		return "", t.errAt(x, "composite literal of %s", types.TypeString(ty, types.RelativeTo(t.cp.pkg)))
	}
	if len(si.omitted) > 0 {
		// a field outside the fragment may still be set by the literal: check the keys
	}
	vals := map[string]string{}
	st := si.obj.Type().Underlying().(*types.Struct)
	for i, el := range x.Elts {
		var name string
		var ve ast.Expr
		if kv, ok := el.(*ast.KeyValueExpr); ok {
			name = kv.Key.(*ast.Ident).Name
			ve = kv.Value
		} else {
			name = st.Field(i).Name()
			ve = el
		}
		found := false
		for _, f := range si.fields {
			if f.goName == name {
				found = true
			}
		}
		if !found {
			return "", t.errAt(el, "field %s.%s has a type outside the fragment", si.name, name)
		}
		s, err := t.expr(ve)
		if err != nil {
			return "", err
		}
		vals[name] = s
	}
	parts := []string{}
	for _, f := range si.fields {
		v, ok := vals[f.goName]
		if !ok {
			z, err := t.cp.zero(f.typ)
			if err != nil {
				return "", t.errAt(x, "field %s left nil", f.goName)
			}
			v = z
		}
		parts = append(parts, v)
	}
	return app("mk_"+si.name, parts...), nil
}

// ---------- statements ----------

// mayReturn: does the statement list contain a return statement?
func mayReturn(ss []ast.Stmt) bool {
	found := false
	for _, s := range ss {
		ast.Inspect(s, func(n ast.Node) bool {
			if _, ok := n.(*ast.ReturnStmt); ok {
				found = true
			}
			if _, ok := n.(*ast.FuncLit); ok {
				return false
			}
			return !found
		})
	}
	return found
}

// assignedOuter: objects assigned inside ss that are declared outside [lo, hi], by first occurrence.
func (t *fnTr) assignedOuter(ss [][]ast.Stmt, lo, hi token.Pos) []types.Object {
	var out []types.Object
	seen := map[types.Object]bool{}
	add := func(e ast.Expr) {
		id, ok := e.(*ast.Ident)
		if !ok && t.cp.core {
			id, ok = coreAssignRoot(t.cp.info, e)
		}
		if !ok || id.Name == "_" {
			return
		}
		o := t.cp.info.ObjectOf(id)
		if o == nil || seen[o] {
			return
		}
		if o.Pos() >= lo && o.Pos() <= hi {
			return
		}
		seen[o] = true
		out = append(out, o)
	}
	for _, l := range ss {
		for _, s := range l {
			ast.Inspect(s, func(n ast.Node) bool {
				switch a := n.(type) {
				case *ast.AssignStmt:
					for _, l := range a.Lhs {
						add(l)
					}
				case *ast.IncDecStmt:
					add(a.X)
				case *ast.ExprStmt:
					if t.cp.errs { // parse.go: b.WriteString(..) assigns the accumulator b
						if id, _, _ := builderWrite(t.cp.info, a); id != nil {
							add(id)
						}
					}
					if t.cp.core { // core.go: slices.SortFunc(xs, ..) assigns xs, fmt.Fprintf(w, ..) the accumulator w
						if id := coreStmtTarget(t.cp.info, a); id != nil {
							add(id)
						}
					}
				}
				return true
			})
		}
	}
	return out
}

type branch struct {
	cond string
	body []ast.Stmt
}

func blockOf(s ast.Stmt) []ast.Stmt {
	switch b := s.(type) {
	case nil:
		return nil
	case *ast.BlockStmt:
		if b == nil {
			return nil
		}
		return b.List
	}
	return []ast.Stmt{s}
}

func indent(s string) string {
	return "  " + strings.ReplaceAll(s, "\n", "\n  ")
}

func (t *fnTr) grow(n ast.Node, s string) error {
	t.size += len(s)
	if t.size > 400000 {
		return t.errAt(n, "translation too large (branch duplication)")
	}
	return nil
}

// stmts translates a statement list.  tail: the expression that ends a list that runs to
// its end without returning ("" = that is not allowed: the function must return).
func (t *fnTr) stmts(ss []ast.Stmt, tail string) (string, error) {
	if len(ss) == 0 {
		if tail == "" {
			return "", &skipErr{"control reaches the end of the function without return"}
		}
		return tail, nil
	}
	s, rest := ss[0], ss[1:]
	info := t.cp.info
	switch x := s.(type) {
	case *ast.EmptyStmt:
		return t.stmts(rest, tail)
	case *ast.BlockStmt:
		// scoping is by object identity, so a nested block can be flattened
		return t.stmts(append(append([]ast.Stmt{}, x.List...), rest...), tail)
	case *ast.ReturnStmt:
		if len(x.Results) != 1 {
			return "", t.errAt(x, "return of %d values", len(x.Results))
		}
		return t.expr(x.Results[0])
	case *ast.DeclStmt:
		gd, ok := x.Decl.(*ast.GenDecl)
		if !ok || gd.Tok == token.TYPE {
			return "", t.errAt(x, "local declaration")
		}
		if gd.Tok == token.CONST {
			return t.stmts(rest, tail)
		}
		var lets []string
		for _, sp := range gd.Specs {
			vs := sp.(*ast.ValueSpec)
			if len(vs.Values) != 0 && len(vs.Values) != len(vs.Names) {
				return "", t.errAt(x, "multi-value declaration")
			}
			var rhs []string
			for i, id := range vs.Names {
				var v string
				var err error
				if len(vs.Values) == 0 {
					o := info.ObjectOf(id)
					v, err = t.cp.zero(o.Type())
					if err != nil {
						return "", t.errAt(x, "%s", err.Error())
					}
				} else {
					v, err = t.expr(vs.Values[i])
					if err != nil {
						return "", err
					}
				}
				rhs = append(rhs, v)
			}
			for i, id := range vs.Names {
				if id.Name == "_" {
					continue
				}
				o := info.ObjectOf(id)
				if _, err := t.cp.trType(o.Type()); err != nil {
					return "", t.errAt(x, "variable %s of %s", id.Name, err.Error())
				}
				lets = append(lets, fmt.Sprintf("let %s := %s in", t.bind(o, id.Name), rhs[i]))
			}
		}
		r, err := t.stmts(rest, tail)
		if err != nil {
			return "", err
		}
		return strings.Join(append(lets, r), "\n"), nil
	case *ast.AssignStmt:
		return t.assign(x, rest, tail)
	case *ast.IncDecStmt:
		id, ok := x.X.(*ast.Ident)
		if !ok || t.kind(x.X) != types.Int {
			return "", t.errAt(x, "increment of a non-local")
		}
		cur, err := t.expr(id)
		if err != nil {
			return "", err
		}
		op := "+"
		if x.Tok == token.DEC {
			op = "-"
		}
		r, err := t.stmts(rest, tail)
		if err != nil {
			return "", err
		}
		return fmt.Sprintf("let %s := wrap64 (%s %s 1) in\n%s", cur, cur, op, r), nil
	case *ast.IfStmt:
		if x.Init != nil {
			cp := *x
			cp.Init = nil
			return t.stmts(append([]ast.Stmt{x.Init, &cp}, rest...), tail)
		}
		// flatten the else-if chain
		var brs []branch
		var els []ast.Stmt
		cur := x
		for {
			if cur.Init != nil {
				// "else if x := e; c": keep as a nested statement of the else branch
				els = []ast.Stmt{cur}
				break
			}
			c, err := t.expr(cur.Cond)
			if err != nil {
				return "", err
			}
			brs = append(brs, branch{c, cur.Body.List})
			if nx, ok := cur.Else.(*ast.IfStmt); ok {
				cur = nx
				continue
			}
			els = blockOf(cur.Else)
			break
		}
		return t.branches(x, brs, els, rest, tail)
	case *ast.SwitchStmt:
		pre := ""
		if x.Init != nil {
			// translate "init; switch" by pushing the init in front
			cp := *x
			cp.Init = nil
			return t.stmts(append([]ast.Stmt{x.Init, &cp}, rest...), tail)
		}
		tag := ""
		tagKind := types.Invalid
		if x.Tag != nil {
			tagKind = t.kind(x.Tag)
			if tagKind == types.Invalid {
				return "", t.errAt(x, "switch on a value outside the fragment")
			}
			e, err := t.expr(x.Tag)
			if err != nil {
				return "", err
			}
			if _, isId := x.Tag.(*ast.Ident); isId || !strings.ContainsAny(e, " ") {
				tag = e
			} else if sel, isSel := x.Tag.(*ast.SelectorExpr); isSel && isPureSel(sel) {
				tag = e
			} else {
				t.fresh++
				tag = t.bind(nil, fmt.Sprintf("tag%d", t.fresh))
				pre = fmt.Sprintf("let %s := %s in\n", tag, e)
			}
		}
		var brs []branch
		var els []ast.Stmt
		for _, c := range x.Body.List {
			cc := c.(*ast.CaseClause)
			for _, b := range cc.Body {
				bad := ""
				ast.Inspect(b, func(n ast.Node) bool {
					if br, ok := n.(*ast.BranchStmt); ok {
						bad = br.Tok.String()
					}
					switch n.(type) {
					case *ast.ForStmt, *ast.RangeStmt, *ast.SwitchStmt, *ast.TypeSwitchStmt, *ast.SelectStmt, *ast.FuncLit:
						return false // a break there belongs to the inner statement (rejected or handled there)
					}
					return true
				})
				if bad != "" {
					return "", t.errAt(b, "%s in switch", bad)
				}
			}
			if cc.List == nil {
				els = cc.Body
				continue
			}
			var conds []string
			for _, ce := range cc.List {
				v, err := t.expr(ce)
				if err != nil {
					return "", err
				}
				if x.Tag == nil {
					conds = append(conds, v)
					continue
				}
				if t.kind(ce) != tagKind {
					return "", t.errAt(ce, "case of another type than the tag")
				}
				switch tagKind {
				case types.Int:
					conds = append(conds, app("Z.eqb", tag, v))
				case types.String:
					conds = append(conds, app("beq", tag, v))
				case types.Bool:
					conds = append(conds, app("Bool.eqb", tag, v))
				}
			}
			c := conds[0]
			for _, d := range conds[1:] {
				c = app("orb", c, d)
			}
			brs = append(brs, branch{c, cc.Body})
		}
		r, err := t.branches(x, brs, els, rest, tail)
		if err != nil {
			return "", err
		}
		return pre + r, nil
	case *ast.RangeStmt:
		return t.rangeLoop(x, rest, tail)
	case *ast.ForStmt:
		return "", t.errAt(x, "for-loop")
	case *ast.ExprStmt:
		return "", t.errAt(x, "expression statement (effect)")
	case *ast.GoStmt:
		return "", t.errAt(x, "goroutine")
	case *ast.DeferStmt:
		return "", t.errAt(x, "defer")
	case *ast.TypeSwitchStmt:
		return "", t.errAt(x, "type switch")
	case *ast.BranchStmt:
		return "", t.errAt(x, "%s", x.Tok.String())
	case *ast.LabeledStmt:
		return "", t.errAt(x, "label")
	case *ast.SelectStmt:
		return "", t.errAt(x, "select")
	case *ast.SendStmt:
		return "", t.errAt(x, "channel send")
	}
	return "", t.errAt(s, "statement %T", s)
}

func isPureSel(s *ast.SelectorExpr) bool {
	switch x := s.X.(type) {
	case *ast.Ident:
		return true
	case *ast.SelectorExpr:
		return isPureSel(x)
	}
	return false
}

func (t *fnTr) assign(x *ast.AssignStmt, rest []ast.Stmt, tail string) (string, error) {
	info := t.cp.info
	var names []string
	var rhs []string
	if x.Tok != token.DEFINE && x.Tok != token.ASSIGN {
		// op-assign on a local
		id, ok := x.Lhs[0].(*ast.Ident)
		if !ok || len(x.Lhs) != 1 {
			return "", t.errAt(x, "assignment to a non-local")
		}
		var op token.Token
		switch x.Tok {
		case token.ADD_ASSIGN:
			op = token.ADD
		case token.SUB_ASSIGN:
			op = token.SUB
		case token.MUL_ASSIGN:
			op = token.MUL
		default:
			return "", t.errAt(x, "assignment operator %s", x.Tok)
		}
		if _, err := t.expr(id); err != nil {
			return "", err
		}
		v, err := t.binary(&ast.BinaryExpr{X: id, OpPos: x.TokPos, Op: op, Y: x.Rhs[0]})
		if err != nil {
			return "", err
		}
		r, err := t.stmts(rest, tail)
		if err != nil {
			return "", err
		}
		return fmt.Sprintf("let %s := %s in\n%s", t.names[info.ObjectOf(id)], v, r), nil
	}
	if len(x.Lhs) != len(x.Rhs) {
		return "", t.errAt(x, "multi-value assignment (a call with several results)")
	}
	for _, r := range x.Rhs {
		v, err := t.expr(r)
		if err != nil {
			return "", err
		}
		rhs = append(rhs, v)
	}
	for _, l := range x.Lhs {
		id, ok := l.(*ast.Ident)
		if !ok {
			return "", t.errAt(x, "assignment to a non-local (field, element or pointer target)")
		}
		if id.Name == "_" {
			names = append(names, "_")
			continue
		}
		o := info.ObjectOf(id)
		v, isVar := o.(*types.Var)
		if !isVar || v.Parent() == t.cp.pkg.Scope() {
			return "", t.errAt(x, "assignment to package variable %s", id.Name)
		}
		if _, err := t.cp.trType(o.Type()); err != nil {
			return "", t.errAt(x, "variable %s of %s", id.Name, err.Error())
		}
		if _, known := t.names[o]; !known && info.Defs[id] == nil {
			return "", t.errAt(x, "variable %s defined outside the fragment", id.Name)
		}
		names = append(names, t.bind(o, id.Name))
	}
	r, err := t.stmts(rest, tail)
	if err != nil {
		return "", err
	}
	if len(names) == 1 {
		return fmt.Sprintf("let %s := %s in\n%s", names[0], rhs[0], r), nil
	}
	return fmt.Sprintf("let '(%s) := (%s) in\n%s", strings.Join(names, ", "), strings.Join(rhs, ", "), r), nil
}

func ifChain(brs []branch, bodies []string, els string) string {
	var b strings.Builder
	for i, br := range brs {
		if i > 0 {
			b.WriteString("else ")
		}
		b.WriteString("if " + br.cond + " then\n" + indent(bodies[i]) + "\n")
	}
	if strings.HasPrefix(els, "if ") {
		b.WriteString("else " + els)
	} else {
		b.WriteString("else\n" + indent(els))
	}
	return b.String()
}

// branches: "if c1 {b1} else if c2 {b2} ... else {els}; rest".
func (t *fnTr) branches(at ast.Node, brs []branch, els []ast.Stmt, rest []ast.Stmt, tail string) (string, error) {
	all := [][]ast.Stmt{els}
	ret := mayReturn(els)
	for _, b := range brs {
		all = append(all, b.body)
		ret = ret || mayReturn(b.body)
	}
	if len(brs) == 0 {
		return t.stmts(append(append([]ast.Stmt{}, els...), rest...), tail)
	}
	if ret {
		// some branch returns: every branch continues with the rest of the block (a branch that
		// always returns never reaches it)
		var bodies []string
		for _, b := range brs {
			s, err := t.stmts(append(append([]ast.Stmt{}, b.body...), rest...), tail)
			if err != nil {
				return "", err
			}
			if err := t.grow(at, s); err != nil {
				return "", err
			}
			bodies = append(bodies, s)
		}
		e, err := t.stmts(append(append([]ast.Stmt{}, els...), rest...), tail)
		if err != nil {
			return "", err
		}
		if err := t.grow(at, e); err != nil {
			return "", err
		}
		return ifChain(brs, bodies, e), nil
	}
	// no branch returns: the statement only assigns; it becomes a let of the assigned variables
	w := t.assignedOuter(all, at.Pos(), at.End())
	var wn []string
	for _, o := range w {
		n, ok := t.names[o]
		if !ok {
			return "", t.errAt(at, "assignment to %s, which is defined outside the fragment", o.Name())
		}
		wn = append(wn, n)
	}
	tup := "tt"
	pat := "_"
	if len(wn) == 1 {
		tup, pat = wn[0], wn[0]
	} else if len(wn) > 1 {
		tup = "(" + strings.Join(wn, ", ") + ")"
		pat = "'" + tup
	}
	var bodies []string
	for _, b := range brs {
		s, err := t.stmts(b.body, tup)
		if err != nil {
			return "", err
		}
		bodies = append(bodies, s)
	}
	e, err := t.stmts(els, tup)
	if err != nil {
		return "", err
	}
	r, err := t.stmts(rest, tail)
	if err != nil {
		return "", err
	}
	if len(wn) == 0 {
		return r, nil // the statement has no effect inside the fragment
	}
	return fmt.Sprintf("let %s :=\n%s in\n%s", pat, indent(ifChain(brs, bodies, e)), r), nil
}

// rangeLoop: for _, x := range xs { if c { return R } }; rest   (R does not mention x)
func (t *fnTr) rangeLoop(x *ast.RangeStmt, rest []ast.Stmt, tail string) (string, error) {
	info := t.cp.info
	bad := func(why string) (string, error) { return "", t.errAt(x, "for-loop (%s)", why) }
	if x.Key != nil {
		if id, ok := x.Key.(*ast.Ident); !ok || id.Name != "_" {
			return bad("range with index")
		}
	}
	vid, ok := x.Value.(*ast.Ident)
	if !ok || x.Tok != token.DEFINE {
		return bad("range without a fresh element variable")
	}
	sl, ok := info.TypeOf(x.X).Underlying().(*types.Slice)
	if !ok {
		return bad("range over a non-slice")
	}
	et, err := t.cp.trType(sl.Elem())
	if err != nil {
		return bad("range over a slice of " + err.Error())
	}
	if len(x.Body.List) != 1 {
		return bad("body is not a single if-return")
	}
	ifs, ok := x.Body.List[0].(*ast.IfStmt)
	if !ok || ifs.Init != nil || ifs.Else != nil || len(ifs.Body.List) != 1 {
		return bad("body is not a single if-return")
	}
	rs, ok := ifs.Body.List[0].(*ast.ReturnStmt)
	if !ok || len(rs.Results) != 1 {
		return bad("body is not a single if-return")
	}
	vobj := info.ObjectOf(vid)
	mentions := false
	ast.Inspect(rs.Results[0], func(n ast.Node) bool {
		if id, ok := n.(*ast.Ident); ok && info.ObjectOf(id) == vobj {
			mentions = true
		}
		return true
	})
	if mentions {
		return bad("returned value depends on the element")
	}
	xs, err := t.expr(x.X)
	if err != nil {
		return "", err
	}
	vn := vid.Name
	if vn != "_" {
		vn = t.bind(vobj, vid.Name)
	} else {
		vn = t.bind(nil, "x")
	}
	cond := ifs.Cond
	neg := false
	if u, ok := cond.(*ast.UnaryExpr); ok && u.Op == token.NOT {
		neg = true
		cond = u.X
	}
	c, err := t.expr(cond)
	if err != nil {
		return "", err
	}
	r, err := t.expr(rs.Results[0])
	if err != nil {
		return "", err
	}
	lam := func(body string) string { return fmt.Sprintf("(fun %s : %s => %s)", vn, et, body) }
	pos := c // the condition under which the loop returns
	if neg {
		pos = app("negb", c)
	}
	if len(rest) == 1 {
		if rr, ok := rest[0].(*ast.ReturnStmt); ok && len(rr.Results) == 1 {
			after, err := t.expr(rr.Results[0])
			if err != nil {
				return "", err
			}
			if r == "false" && after == "true" {
				body := app("negb", c)
				if neg {
					body = c
				}
				return "forallb " + lam(body) + " " + paren(xs), nil
			}
			if r == "true" && after == "false" {
				return "existsb " + lam(pos) + " " + paren(xs), nil
			}
		}
	}
	k, err := t.stmts(rest, tail)
	if err != nil {
		return "", err
	}
	return fmt.Sprintf("if existsb %s %s then\n%s\nelse\n%s", lam(pos), paren(xs), indent(r), indent(k)), nil
}

// ---------- package driver ----------

func loadCodePkg(tgt codeTarget, fset *token.FileSet, imp *repoImporter) (*codePkg, error) {
	files, err := parseDir(fset, filepath.Join(repo, tgt.dir))
	if err != nil {
		return nil, err
	}
	if len(files) == 0 {
		return nil, fmt.Errorf("no Go files")
	}
	cp := &codePkg{tgt: tgt, fset: fset, files: files,
		structM: map[*types.TypeName]*structInfo{}, funcM: map[*types.Func]*funcInfo{}, globals: map[string]bool{}}
	cp.info = &types.Info{
		Types:      map[ast.Expr]types.TypeAndValue{},
		Defs:       map[*ast.Ident]types.Object{},
		Uses:       map[*ast.Ident]types.Object{},
		Selections: map[*ast.SelectorExpr]*types.Selection{},
		Instances:  map[*ast.Ident]types.Instance{},
	}
	var firstErr error
	conf := types.Config{Importer: imp, Error: func(e error) {
		if firstErr == nil {
			firstErr = e
		}
	}}
	path := imp.modPath + "/" + tgt.dir
	cp.pkg, _ = conf.Check(path, fset, files, cp.info)
	if firstErr != nil {
		return nil, firstErr
	}
	return cp, nil
}

func (cp *codePkg) collect() {
	// struct types in source order
	for _, f := range cp.files {
		for _, d := range f.Decls {
			gd, ok := d.(*ast.GenDecl)
			if !ok || gd.Tok != token.TYPE {
				continue
			}
			for _, sp := range gd.Specs {
				ts := sp.(*ast.TypeSpec)
				tn, _ := cp.info.Defs[ts.Name].(*types.TypeName)
				if tn == nil {
					continue
				}
				if _, isS := tn.Type().Underlying().(*types.Struct); !isS {
					continue
				}
				if n, ok := tn.Type().(*types.Named); ok && n.TypeParams().Len() > 0 {
					continue
				}
				si := &structInfo{obj: tn, name: mangleGlobal(tn.Name()), pos: cp.position(ts.Pos())}
				cp.structs = append(cp.structs, si)
				cp.structM[tn] = si
				cp.globals[si.name] = true
				cp.globals["mk_"+si.name] = true
			}
		}
	}
	for _, si := range cp.structs {
		cp.resolveStruct(si)
		for _, f := range si.fields {
			cp.globals[f.coq] = true
		}
	}
	// functions in source order
	for _, f := range cp.files {
		for _, d := range f.Decls {
			fd, ok := d.(*ast.FuncDecl)
			if !ok {
				continue
			}
			fn, _ := cp.info.Defs[fd.Name].(*types.Func)
			if fn == nil {
				continue
			}
			fi := &funcInfo{decl: fd, obj: fn, pos: cp.position(fd.Pos())}
			sig := fn.Type().(*types.Signature)
			fi.name = fd.Name.Name
			if sig.Recv() != nil {
				rt := types.Unalias(sig.Recv().Type())
				if p, ok := rt.(*types.Pointer); ok {
					rt = types.Unalias(p.Elem())
				}
				if n, ok := rt.(*types.Named); ok {
					fi.name = n.Obj().Name() + "_" + fd.Name.Name
				}
			}
			fi.name = mangleGlobal(fi.name)
			for cp.globals[fi.name] {
				fi.name += "_"
			}
			cp.globals[fi.name] = true
			cp.funcs = append(cp.funcs, fi)
			cp.funcM[fn] = fi
		}
	}
	for _, fi := range cp.funcs {
		cp.signature(fi)
	}
}

func (cp *codePkg) signature(fi *funcInfo) {
	sig := fi.obj.Type().(*types.Signature)
	why := func(s string) { fi.sigOK = false; fi.sigWhy = s }
	if sig.TypeParams().Len() > 0 || sig.RecvTypeParams().Len() > 0 {
		if !cp.core || sig.RecvTypeParams().Len() > 0 {
			why("generic function")
			return
		}
		for i := 0; i < sig.TypeParams().Len(); i++ {
			fi.tparams = append(fi.tparams, mangleGlobal(sig.TypeParams().At(i).Obj().Name()))
		}
	}
	if sig.Variadic() {
		why("variadic function")
		return
	}
	if fi.decl.Body == nil {
		why("no body")
		return
	}
	var vars []*types.Var
	if sig.Recv() != nil {
		vars = append(vars, sig.Recv())
	}
	for i := 0; i < sig.Params().Len(); i++ {
		vars = append(vars, sig.Params().At(i))
	}
	for i, v := range vars {
		if cp.core {
			if pre, ok := cp.abstractParam(fi, v); ok {
				if fi.dropped == nil {
					fi.dropped = map[int]string{}
				}
				fi.dropped[i] = pre
				fi.ptypes = append(fi.ptypes, "")
				continue
			}
			if isWriterType(v.Type()) {
				fi.writers = append(fi.writers, i)
			}
		}
		ct, err := cp.trType(v.Type())
		if err != nil {
			why("parameter of " + err.Error())
			return
		}
		fi.ptypes = append(fi.ptypes, ct)
	}
	if sig.Results().Len() == 0 {
		why("no result")
		return
	}
	if len(fi.writers) > 0 {
		defer func() {
			if fi.sigOK {
				if fi.errRes {
					fi.sigOK, fi.sigWhy = false, "io.Writer parameter together with an error result"
					return
				}
				fi.rtype = "(" + strings.Repeat("bytes * ", len(fi.writers)) + strings.TrimSuffix(strings.TrimPrefix(fi.rtype, "("), ")") + ")"
			}
		}()
	}
	if cp.errs && isErrorType(sig.Results().At(sig.Results().Len()-1).Type()) {
		// parse.go: (T1, .., Tn, error) is option (T1 * .. * Tn); n = 0: option unit
		var cts []string
		for i := 0; i < sig.Results().Len(); i++ {
			if sig.Results().At(i).Name() != "" {
				why("named result")
				return
			}
			if i == sig.Results().Len()-1 {
				break
			}
			ct, err := cp.trType(sig.Results().At(i).Type())
			if err != nil {
				why("result of " + err.Error())
				return
			}
			cts = append(cts, ct)
		}
		switch len(cts) {
		case 0:
			fi.rtype = "option unit"
		case 1:
			fi.rtype = "option " + paren(cts[0])
		default:
			fi.rtype = "option (" + strings.Join(cts, " * ") + ")"
		}
		fi.errRes, fi.nvals, fi.sigOK = true, len(cts), true
		return
	}
	if sig.Results().Len() > 1 {
		var ts, cts []string
		ok := cp.wide
		for i := 0; i < sig.Results().Len(); i++ {
			ts = append(ts, types.TypeString(sig.Results().At(i).Type(), types.RelativeTo(cp.pkg)))
			ct, err := cp.trType(sig.Results().At(i).Type())
			if err != nil || sig.Results().At(i).Name() != "" {
				ok = false
			}
			cts = append(cts, ct)
		}
		if !ok {
			why("results (" + strings.Join(ts, ", ") + ")")
			return
		}
		// loops.go: several results of the fragment are a tuple
		fi.rtype = "(" + strings.Join(cts, " * ") + ")"
		fi.nres = len(cts)
		fi.sigOK = true
		return
	}
	if sig.Results().At(0).Name() != "" {
		why("named result")
		return
	}
	rt, err := cp.trType(sig.Results().At(0).Type())
	if err != nil {
		why("result of " + err.Error())
		return
	}
	fi.rtype = rt
	fi.sigOK = true
}

func (fi *funcInfo) coqType() string {
	var p []string
	for _, t := range fi.ptypes {
		if t == "" { // core.go: an abstract receiver, not a parameter of the translation
			continue
		}
		p = append(p, t)
	}
	p = append(p, fi.rtype)
	return strings.Join(p, " -> ")
}

func (cp *codePkg) translate(fi *funcInfo) {
	if !fi.sigOK {
		fi.skip = "signature: " + fi.sigWhy
		return
	}
	t := &fnTr{cp: cp, fi: fi, names: map[types.Object]string{}, used: map[string]bool{}, calls: map[*funcInfo]bool{}, asciis: map[string]bool{}}
	sig := fi.obj.Type().(*types.Signature)
	var vars []*types.Var
	if sig.Recv() != nil {
		vars = append(vars, sig.Recv())
	}
	for i := 0; i < sig.Params().Len(); i++ {
		vars = append(vars, sig.Params().At(i))
	}
	var bs []string
	for i, v := range vars {
		var o types.Object = v
		if v.Name() == "" || v.Name() == "_" {
			o = nil
		}
		bs = append(bs, fmt.Sprintf("(%s : %s)", t.bind(o, v.Name()), fi.ptypes[i]))
	}
	fi.binders = strings.Join(bs, " ")
	body, err := t.stmts(fi.decl.Body.List, "")
	if err != nil {
		fi.skip = err.Error()
		fi.calls = nil
		return
	}
	fi.body = body
	for q := range t.asciis {
		fi.ascii = append(fi.ascii, q)
	}
	sort.Strings(fi.ascii)
}

// ---------- snapshot items ----------

type snapItem struct {
	kind  string // type, var, func
	name  string
	calls []string
	text  string // the whole item, header included
	line  int    // position in the snapshot file (core.go: fallback variables keep their order)
}

// items of a generated file: an item starts at a line "(*@ kind name ..." and ends before the
// next blank line.
func parseSnapItems(src string) map[string]*snapItem {
	out := map[string]*snapItem{}
	lines := strings.Split(src, "\n")
	for i := 0; i < len(lines); i++ {
		if !strings.HasPrefix(lines[i], "(*@ ") {
			continue
		}
		f := strings.Fields(lines[i])
		if len(f) < 3 {
			continue
		}
		it := &snapItem{kind: f[1], name: f[2], line: i}
		if k := strings.Index(lines[i], "calls:"); k >= 0 {
			rest := strings.TrimSuffix(strings.TrimSpace(lines[i][k+6:]), "*)")
			it.calls = strings.Fields(rest)
		}
		j := i
		for j < len(lines) && strings.TrimSpace(lines[j]) != "" {
			j++
		}
		it.text = strings.Join(lines[i:j], "\n")
		out[it.kind+" "+it.name] = it
		i = j
	}
	return out
}

// ---------- rendering ----------

func (cp *codePkg) render(snap map[string]*snapItem) (string, int, int) {
	var b strings.Builder
	fmt.Fprintf(&b, "(* Generated by tools/gen (code.go) from %s on every run -- do not edit.\n", cp.tgt.dir)
	b.WriteString("   Gallina translation of the functions that lie in the loop-free fragment described in\n   tools/gen/CODE.md; one item per Go declaration, each with its source position. *)\n")
	b.WriteString("From Coq Require Import ZArith List Ascii String Bool.\n")
	b.WriteString("From Verif.Base Require Import Bytes GoNum GoOps.\nImport ListNotations.\nLocal Open Scope Z_scope.\n\n")

	// records, dependencies first
	emitted := map[*structInfo]bool{}
	var emitStruct func(si *structInfo)
	emitStruct = func(si *structInfo) {
		if emitted[si] {
			return
		}
		emitted[si] = true
		if !si.ok {
			fmt.Fprintf(&b, "(* skipped type %s: %s at %s *)\n\n", si.name, cmt(si.reason), si.pos)
			return
		}
		for _, f := range si.fields {
			if d := cp.structOf(elemType(f.typ)); d != nil {
				emitStruct(d)
			}
		}
		fmt.Fprintf(&b, "(*@ type %s %s *)\n", si.name, si.pos)
		for _, o := range si.omitted {
			fmt.Fprintf(&b, "(* field outside the fragment, omitted: %s *)\n", cmt(o))
		}
		fmt.Fprintf(&b, "Record %s := mk_%s {", si.name, si.name)
		for i, f := range si.fields {
			sep := ";"
			if i == len(si.fields)-1 {
				sep = ""
			}
			fmt.Fprintf(&b, "\n  %s : %s%s", f.coq, f.ctyp, sep)
		}
		if len(si.fields) > 0 {
			b.WriteString("\n")
		}
		b.WriteString("}.\n\n")
	}
	for _, si := range cp.structs {
		emitStruct(si)
	}
	// record types of the snapshot that are gone
	if snap != nil {
		var gone []string
		for k, it := range snap {
			if it.kind == "type" && !cp.globals[it.name] {
				gone = append(gone, k)
			}
		}
		sort.Strings(gone)
		for _, k := range gone {
			it := snap[k]
			fmt.Fprintf(&b, "(* FALLBACK type %s: not located in the source as it is now; definition of the snapshot *)\n%s\n\n", it.name, it.text)
			fallbacks = append(fallbacks, fmt.Sprintf("code:%s.%s (type not located)", cp.tgt.pkgName(), it.name))
		}
	}

	// functions: fresh translations, snapshot fallbacks, variables
	type node struct {
		name  string
		fi    *funcInfo // nil for a function that is gone
		text  string
		calls []string
		isVar bool
	}
	nodes := map[string]*node{}
	var order []string
	byName := map[string]*funcInfo{}
	for _, fi := range cp.funcs {
		byName[fi.name] = fi
	}
	for _, fi := range cp.funcs {
		n := &node{name: fi.name, fi: fi}
		if fi.skip == "" {
			var cs []string
			for _, c := range fi.calls {
				cs = append(cs, c.name)
			}
			n.calls = cs
			hdr := fmt.Sprintf("(*@ func %s %s calls: %s *)\n", fi.name, fi.pos, strings.Join(cs, " "))
			if len(fi.ascii) > 0 {
				hdr += fmt.Sprintf("(* ASCII-only: %s (exact on bytes < 0x80 only) *)\n", strings.Join(fi.ascii, ", "))
			}
			n.text = hdr + fmt.Sprintf("Definition %s %s : %s :=\n%s.", fi.name, fi.binders, fi.rtype, indent(fi.body))
			if fi.binders == "" {
				n.text = hdr + fmt.Sprintf("Definition %s : %s :=\n%s.", fi.name, fi.rtype, indent(fi.body))
			}
		} else if it := snap["func "+fi.name]; it != nil {
			n.calls = it.calls
			n.text = fmt.Sprintf("(* FALLBACK %s: %s; definition of the snapshot *)\n%s", fi.name, cmt(fi.skip), it.text)
			fallbacks = append(fallbacks, fmt.Sprintf("code:%s.%s (%s)", cp.tgt.pkgName(), fi.name, fi.skip))
			fi.fallback = it.text
		}
		nodes[fi.name] = n
		order = append(order, fi.name)
	}
	if snap != nil {
		var gone []string
		for _, it := range snap {
			if it.kind == "func" && nodes[it.name] == nil {
				gone = append(gone, it.name)
			}
		}
		sort.Strings(gone)
		for _, g := range gone {
			it := snap["func "+g]
			nodes[g] = &node{name: g, calls: it.calls,
				text: fmt.Sprintf("(* FALLBACK %s: not located in the source as it is now; definition of the snapshot *)\n%s", g, it.text)}
			order = append(order, g)
			fallbacks = append(fallbacks, fmt.Sprintf("code:%s.%s (not located)", cp.tgt.pkgName(), g))
		}
	}
	// variables: callees without a definition
	needVar := map[string]bool{}
	for _, name := range order {
		n := nodes[name]
		if n.text == "" {
			continue
		}
		for _, c := range n.calls {
			if m := nodes[c]; m == nil || m.text == "" {
				needVar[c] = true
			}
		}
	}
	b.WriteString("Section Code.\n\n")
	nvars := 0
	var varNames []string
	for v := range needVar {
		varNames = append(varNames, v)
	}
	// variables in source order of the callee, then the ones known from the snapshot only
	sort.Slice(varNames, func(i, j int) bool {
		a, c := byName[varNames[i]], byName[varNames[j]]
		if a != nil && c != nil {
			return indexOf(cp.funcs, a) < indexOf(cp.funcs, c)
		}
		if (a != nil) != (c != nil) {
			return a != nil
		}
		return varNames[i] < varNames[j]
	})
	for _, v := range varNames {
		if fi := byName[v]; fi != nil && fi.sigOK {
			fmt.Fprintf(&b, "(*@ var %s %s outside the fragment: %s *)\nVariable %s : %s.\n\n", fi.name, fi.pos, cmt(fi.skip), fi.name, fi.coqType())
			nvars++
		} else if it := snap["var "+v]; it != nil {
			fmt.Fprintf(&b, "(* FALLBACK variable %s: declaration of the snapshot *)\n%s\n\n", v, it.text)
			nvars++
		} else {
			problems = append(problems, fmt.Sprintf("error code:%s: fallback definition needs %s, which is neither in the source nor in the snapshot", cp.tgt.mod, v))
		}
	}
	// definitions, callees first (post-order over the source order)
	done := map[string]bool{}
	var emit func(name string)
	emit = func(name string) {
		if done[name] {
			return
		}
		done[name] = true
		n := nodes[name]
		if n == nil || n.text == "" {
			return
		}
		for _, c := range n.calls {
			emit(c)
		}
		b.WriteString(n.text + "\n\n")
	}
	for _, name := range order {
		emit(name)
	}
	b.WriteString("End Code.\n\n")
	// for loops.go: which functions Gen/Code defines, and the Section variables each one is
	// generalised over (transitively, in section order)
	varIdx := map[string]int{}
	for i, v := range varNames {
		varIdx[v] = i
	}
	// definitions emitted from the snapshot for functions that are no longer in the source: a
	// fallback definition of a later pass may still call them
	cp.goneInCode = map[string]bool{}
	inSource := map[string]bool{}
	for _, fi := range cp.funcs {
		inSource[fi.name] = true
	}
	for name, n := range nodes {
		if n != nil && n.text != "" && !inSource[name] {
			cp.goneInCode[name] = true
		}
	}
	for _, fi := range cp.funcs {
		n := nodes[fi.name]
		if n == nil || n.text == "" {
			continue
		}
		fi.inCode = true
		seen := map[string]bool{}
		var vs []string
		var walk func(name string)
		walk = func(name string) {
			if seen[name] {
				return
			}
			seen[name] = true
			m := nodes[name]
			if m == nil || m.text == "" {
				vs = append(vs, name)
				return
			}
			for _, c := range m.calls {
				walk(c)
			}
		}
		walk(fi.name)
		sort.Slice(vs, func(i, j int) bool { return varIdx[vs[i]] < varIdx[vs[j]] })
		fi.codeVars = vs
	}
	translated, skipped := 0, 0
	for _, fi := range cp.funcs {
		if fi.skip == "" {
			translated++
		} else {
			skipped++
			fmt.Fprintf(&b, "(* skipped %s: %s [%s] *)\n", fi.name, cmt(fi.skip), fi.pos)
		}
	}
	return b.String(), translated, skipped
}

// cmt makes a text safe inside a Coq comment (no nested comment brackets, no string quotes)
func cmt(s string) string {
	s = strings.ReplaceAll(s, "(*", "( *")
	s = strings.ReplaceAll(s, "*)", "* )")
	return strings.ReplaceAll(s, "\"", "'")
}

func indexOf(l []*funcInfo, x *funcInfo) int {
	for i, y := range l {
		if x == y {
			return i
		}
	}
	return -1
}

func elemType(t types.Type) types.Type {
	for {
		if s, ok := t.Underlying().(*types.Slice); ok {
			t = s.Elem()
			continue
		}
		return t
	}
}

// recursion: a function on a call cycle is outside the fragment (its callers get a Variable)
func (cp *codePkg) cutCycles() {
	for changed := true; changed; {
		changed = false
		state := map[*funcInfo]int{}
		var visit func(f *funcInfo) bool
		var stack []*funcInfo
		visit = func(f *funcInfo) bool {
			if f.skip != "" {
				return false
			}
			switch state[f] {
			case 1:
				return true
			case 2:
				return false
			}
			state[f] = 1
			stack = append(stack, f)
			for _, c := range f.calls {
				if visit(c) {
					return true
				}
			}
			stack = stack[:len(stack)-1]
			state[f] = 2
			return false
		}
		for _, f := range cp.funcs {
			stack = nil
			if visit(f) {
				// the function on top of the stack closes a cycle: cut it at the earliest function in source order
				top := stack[len(stack)-1]
				var target *funcInfo
				for _, c := range top.calls {
					if state[c] == 1 {
						target = c
						break
					}
				}
				cyc := stack[indexOf(stack, target):]
				first := cyc[0]
				for _, g := range cyc {
					if indexOf(cp.funcs, g) < indexOf(cp.funcs, first) {
						first = g
					}
				}
				first.skip = "recursive function"
				first.calls = nil
				first.body = ""
				changed = true
				break
			}
		}
	}
}

// the packages of this run, for loops.go
var loadedPkgs []*codePkg

func genCode() {
	fset := token.NewFileSet()
	imp := newRepoImporter(fset)
	os.MkdirAll(filepath.Join(outDir, "Code"), 0o755)
	want := map[string]bool{}
	for _, tgt := range codeTargets() {
		file := "Code/" + tgt.mod + ".v"
		want[tgt.mod+".v"] = true
		var snap map[string]*snapItem
		snapSrc, haveSnap := snapFile(file)
		if haveSnap {
			snap = parseSnapItems(snapSrc)
		}
		cp, err := loadCodePkg(tgt, fset, imp)
		if err != nil {
			if haveSnap {
				write(file, "(* FALLBACK: package "+tgt.dir+" could not be loaded ("+cmt(err.Error())+"); file of the snapshot *)\n"+snapSrc)
				fallbacks = append(fallbacks, fmt.Sprintf("code:%s (package not loaded: %v)", tgt.mod, err))
			} else {
				problems = append(problems, fmt.Sprintf("error code:%s: %v", tgt.mod, err))
			}
			continue
		}
		cp.collect()
		for _, fi := range cp.funcs {
			cp.translate(fi)
		}
		cp.cutCycles()
		out, tr, sk := cp.render(snap)
		write(file, out)
		loadedPkgs = append(loadedPkgs, cp)
		fmt.Printf("code: %s translated=%d skipped=%d\n", tgt.dir, tr, sk)
	}
	// packages of the snapshot that are gone, and files of packages that no longer exist
	if snapDir != "" {
		if ents, err := os.ReadDir(filepath.Join(snapDir, "Code")); err == nil {
			for _, e := range ents {
				if strings.HasSuffix(e.Name(), ".v") && !want[e.Name()] {
					src, _ := snapFile("Code/" + e.Name())
					write("Code/"+e.Name(), "(* FALLBACK: package not located; file of the snapshot *)\n"+src)
					fallbacks = append(fallbacks, "code:"+strings.TrimSuffix(e.Name(), ".v")+" (package not located)")
					want[e.Name()] = true
				}
			}
		}
	}
	if ents, err := os.ReadDir(filepath.Join(outDir, "Code")); err == nil {
		for _, e := range ents {
			if strings.HasSuffix(e.Name(), ".v") && !want[e.Name()] {
				os.Remove(filepath.Join(outDir, "Code", e.Name()))
				fmt.Println("removed Code/" + e.Name())
			}
		}
	}
}

func (t codeTarget) pkgName() string { return filepath.Base(t.dir) }
