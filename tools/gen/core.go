// core.go — fourth translation pass: the CORE of the VERS layer and of the CLI
// (coq/Gen/Parse/<Pkg>Core.v).  It runs the machinery of loops.go / parse.go once more, on the
// functions that none of Gen/Code, Gen/Loops, Gen/Parse defines, with further forms switched on
// (lp.core / cp.core): generic functions (type parameters and interface methods as Section
// variables), function literals, slices.SortFunc as the oracle sort_by, nil-able pointers as
// options with a checked dereference, field updates of local struct values, local maps, function
// values (dispatch tables), io.Writer as an output accumulator, and the instantiation of generic
// functions at the ecosystems of other packages (Section Instances).  Every hook in code.go /
// loops.go / parse.go is guarded by these flags, so the three earlier directories are byte-for-byte
// what they were.  See LOOPS.md, section "Core".
package main

import (
	"fmt"
	"go/ast"
	"go/constant"
	"go/token"
	"go/types"
	"regexp"
	"sort"
	"strings"
)

var identRe = regexp.MustCompile(`[A-Za-z_][A-Za-z0-9_']*`)

func unparen(e ast.Expr) ast.Expr {
	for {
		p, ok := e.(*ast.ParenExpr)
		if !ok {
			return e
		}
		e = p.X
	}
}

func isWriterType(t types.Type) bool {
	n, ok := types.Unalias(t).(*types.Named)
	return ok && n.Obj().Pkg() != nil && n.Obj().Pkg().Path() == "io" && n.Obj().Name() == "Writer"
}

// ---------- types ----------

func (cp *codePkg) coreType(t types.Type) (string, bool, error) {
	switch u := t.(type) {
	case *types.TypeParam:
		return mangleGlobal(u.Obj().Name()), true, nil
	case *types.Map:
		if b, ok := u.Key().Underlying().(*types.Basic); !ok || b.Kind() != types.String {
			return "", false, fmt.Errorf("type %s (key type)", types.TypeString(t, types.RelativeTo(cp.pkg)))
		}
		e, err := cp.trType(u.Elem())
		if err != nil {
			return "", false, err
		}
		return "list (bytes * " + paren(e) + ")", true, nil
	case *types.Signature:
		s, err := cp.funcValType(u)
		return s, err == nil, err
	case *types.Named:
		if isWriterType(u) {
			return "bytes", true, nil
		}
	}
	if n := cp.foreignName(t); n != "" {
		return n, true, nil
	}
	return "", false, nil
}

// foreignName: a named non-interface type of another package of the module (or a pointer to one)
// is an abstract type <pkg>_<Name> (a Section variable); its methods are the Section variables
// <pkg>_<Name>_<Method>
func (cp *codePkg) foreignName(t types.Type) string {
	t = types.Unalias(t)
	if p, ok := t.(*types.Pointer); ok {
		t = types.Unalias(p.Elem())
	}
	n, ok := t.(*types.Named)
	if !ok || n.Obj().Pkg() == nil || n.Obj().Pkg() == cp.pkg || n.TypeArgs().Len() > 0 {
		return ""
	}
	if !strings.Contains(strings.SplitN(n.Obj().Pkg().Path(), "/", 2)[0], ".") {
		return "" // standard library
	}
	if _, isI := n.Underlying().(*types.Interface); isI {
		return ""
	}
	name := mangleGlobal(n.Obj().Pkg().Name() + "_" + n.Obj().Name())
	if cp.foreign == nil {
		cp.foreign = map[string]string{}
	}
	cp.foreign[name] = n.Obj().Pkg().Path() + "." + n.Obj().Name()
	return name
}

// resultType: the Coq type of the results of a signature ((T, error) is option T, several values a tuple)
func (cp *codePkg) resultType(sig *types.Signature) (string, error) {
	n := sig.Results().Len()
	opt := false
	if n >= 1 && isErrorType(sig.Results().At(n-1).Type()) {
		n--
		opt = true
	}
	var rs []string
	for i := 0; i < n; i++ {
		ct, err := cp.trType(sig.Results().At(i).Type())
		if err != nil {
			return "", err
		}
		rs = append(rs, ct)
	}
	r := "unit"
	switch len(rs) {
	case 0:
		if !opt {
			return "", fmt.Errorf("function type without result")
		}
	case 1:
		r = rs[0]
	default:
		r = "(" + strings.Join(rs, " * ") + ")"
	}
	if opt {
		r = "option " + paren(r)
	}
	return r, nil
}

// funcValType: a first-class function value (entry of a dispatch table, closure in a map):
// fuel first, result in res
func (cp *codePkg) funcValType(sig *types.Signature) (string, error) {
	if sig.Variadic() || sig.TypeParams().Len() > 0 {
		return "", fmt.Errorf("type %s", types.TypeString(sig, types.RelativeTo(cp.pkg)))
	}
	ts := []string{"nat"}
	for i := 0; i < sig.Params().Len(); i++ {
		ct, err := cp.trType(sig.Params().At(i).Type())
		if err != nil {
			return "", err
		}
		ts = append(ts, paren(ct))
	}
	r, err := cp.resultType(sig)
	if err != nil {
		return "", err
	}
	return strings.Join(append(ts, "res "+paren(r)), " -> "), nil
}

// pureFuncType: a function argument of a library oracle (strings.Map, slices.SortFunc)
func (cp *codePkg) pureFuncType(sig *types.Signature) (string, error) {
	if sig.Variadic() || sig.TypeParams().Len() > 0 {
		return "", fmt.Errorf("type %s", types.TypeString(sig, types.RelativeTo(cp.pkg)))
	}
	var ts []string
	for i := 0; i < sig.Params().Len(); i++ {
		ct, err := cp.trType(sig.Params().At(i).Type())
		if err != nil {
			return "", err
		}
		ts = append(ts, paren(ct))
	}
	r, err := cp.resultType(sig)
	if err != nil {
		return "", err
	}
	return strings.Join(append(ts, r), " -> "), nil
}

func (cp *codePkg) coreZero(t types.Type) (string, bool) {
	switch u := types.Unalias(t).(type) {
	case *types.TypeParam:
		return mangleGlobal(u.Obj().Name()) + "_zero", true
	case *types.Signature:
		if n := u.Params().Len(); n >= 1 && n <= 3 {
			return fmt.Sprintf("nil_func%d", n), true
		}
	}
	return "", false
}

// abstractParam: a parameter of a generic function whose type is an interface with methods (the
// ecosystem value e): it is not a parameter of the translation; its methods are Section variables
// <Prefix>_<Method>
func (cp *codePkg) abstractParam(fi *funcInfo, v *types.Var) (string, bool) {
	if len(fi.tparams) == 0 || v.Name() == "" || v.Name() == "_" {
		return "", false
	}
	it, ok := v.Type().Underlying().(*types.Interface)
	if !ok || it.NumMethods() == 0 || isErrorType(v.Type()) || isWriterType(v.Type()) {
		return "", false
	}
	if _, isTP := types.Unalias(v.Type()).(*types.TypeParam); isTP {
		return "", false
	}
	n := v.Name()
	return strings.ToUpper(n[:1]) + n[1:], true
}

// coreAssignRoot: the local variable that `v.f = e` (field update of a struct value) or
// `m[k] = e` (insertion into a local map) assigns
func coreAssignRoot(info *types.Info, e ast.Expr) (*ast.Ident, bool) {
	switch x := e.(type) {
	case *ast.SelectorExpr:
		if id, ok := x.X.(*ast.Ident); ok {
			if s := info.Selections[x]; s != nil && s.Kind() == types.FieldVal {
				if _, isPtr := types.Unalias(info.TypeOf(id)).(*types.Pointer); !isPtr {
					return id, true
				}
			}
		}
	case *ast.IndexExpr:
		if id, ok := x.X.(*ast.Ident); ok {
			if _, isMap := info.TypeOf(id).Underlying().(*types.Map); isMap {
				return id, true
			}
		}
	}
	return nil, false
}

func libCall(info *types.Info, x *ast.CallExpr) string {
	sel, ok := unparen(x.Fun).(*ast.SelectorExpr)
	if !ok || info.Selections[sel] != nil {
		return ""
	}
	fn, _ := info.ObjectOf(sel.Sel).(*types.Func)
	if fn == nil || fn.Pkg() == nil {
		return ""
	}
	return fn.Pkg().Path() + "." + fn.Name()
}

// coreStmtTarget: slices.SortFunc(xs, f) assigns xs; fmt.Fprintf(w, ..) / Fprintln(w, ..) the accumulator w
func coreStmtTarget(info *types.Info, s *ast.ExprStmt) *ast.Ident {
	call, ok := s.X.(*ast.CallExpr)
	if !ok || len(call.Args) == 0 {
		return nil
	}
	switch libCall(info, call) {
	case "slices.SortFunc", "fmt.Fprintf", "fmt.Fprintln", "fmt.Fprint":
		if id, ok := unparen(call.Args[0]).(*ast.Ident); ok {
			return id
		}
	}
	return nil
}

// ---------- per-function state ----------

func (t *loopTr) coreInit() {
	t.optPtr = map[types.Object]bool{}
	t.abstract = map[types.Object]string{}
	info := t.cp.info
	fi := t.fn.fi
	for _, w := range fi.tparams {
		t.used[w] = true
		t.used[w+"_zero"] = true
	}
	for _, w := range []string{"deref", "is_some", "is_none", "map_set", "sort_by", "fmt_bool", "fmt_quote", "nil_func1", "nil_func2", "nil_func3"} {
		t.used[w] = true
	}
	if fi.decl == nil || fi.decl.Body == nil {
		return
	}
	ptrVar := func(e ast.Expr) types.Object {
		id, ok := unparen(e).(*ast.Ident)
		if !ok {
			return nil
		}
		v, ok := info.ObjectOf(id).(*types.Var)
		if !ok || v.IsField() || v.Parent() == t.cp.pkg.Scope() {
			return nil
		}
		if _, isPtr := types.Unalias(v.Type()).(*types.Pointer); !isPtr || t.cp.structOf(v.Type()) == nil {
			return nil
		}
		return v
	}
	// the type of a nil that is returned (go/types leaves it untyped)
	t.nilTypes = map[*ast.Ident]types.Type{}
	var walkRet func(n ast.Node, sig *types.Signature)
	walkRet = func(n ast.Node, sig *types.Signature) {
		ast.Inspect(n, func(m ast.Node) bool {
			switch x := m.(type) {
			case *ast.FuncLit:
				if s, ok := info.TypeOf(x).(*types.Signature); ok {
					walkRet(x.Body, s)
				}
				return false
			case *ast.ReturnStmt:
				if len(x.Results) == sig.Results().Len() {
					for i, r := range x.Results {
						if id, ok := unparen(r).(*ast.Ident); ok && t.isNil(id) {
							t.nilTypes[id] = sig.Results().At(i).Type()
						}
					}
				}
			}
			return true
		})
	}
	walkRet(fi.decl.Body, fi.obj.Type().(*types.Signature))
	ast.Inspect(fi.decl.Body, func(n ast.Node) bool {
		switch x := n.(type) {
		case *ast.ValueSpec:
			if len(x.Values) == 0 {
				for _, id := range x.Names {
					if o := ptrVar(id); o != nil {
						t.optPtr[o] = true
					}
				}
			}
		case *ast.AssignStmt:
			if len(x.Lhs) == len(x.Rhs) {
				for i, r := range x.Rhs {
					if t.isNil(r) {
						if o := ptrVar(x.Lhs[i]); o != nil {
							t.optPtr[o] = true
						}
					}
				}
			}
		case *ast.BinaryExpr:
			if x.Op == token.EQL || x.Op == token.NEQ {
				if t.isNil(x.Y) {
					if o := ptrVar(x.X); o != nil {
						t.optPtr[o] = true
					}
				}
				if t.isNil(x.X) {
					if o := ptrVar(x.Y); o != nil {
						t.optPtr[o] = true
					}
				}
			}
		}
		return true
	})
}

func (t *loopTr) optNone(o types.Object) string {
	ct, _ := t.cp.trType(o.Type())
	return "(None : option " + paren(ct) + ")"
}

// bundleVar: a Section variable of the method bundle of the generic functions
func (t *loopTr) bundleVar(name, typ, hdr string, ord int, owner, suffix string) error {
	ex := t.lp.externs[name]
	if ex != nil && ex.typ != typ {
		return &skipErr{fmt.Sprintf("conflicting declarations of %s: %s and %s", name, ex.typ, typ)}
	}
	if t.lp.inPost {
		return &skipErr{"method of an abstract value outside a generic function: " + name}
	}
	t.lp.extern(name, typ, hdr, ord)
	ex = t.lp.externs[name]
	ex.bundle, ex.owner, ex.suffix = true, owner, suffix
	t.use(name)
	return nil
}

// coreFinish: the type parameters and zero values the text of the definition names
func (t *loopTr) coreFinish(body, binders string) {
	fi := t.fn.fi
	toks := map[string]bool{}
	for _, w := range identRe.FindAllString(binders+" "+fi.rtype+" "+body+" "+strings.Join(t.fn.records, " "), -1) {
		toks[w] = true
	}
	// the types of the variables the definition uses
	for u := range t.uses {
		if ex := t.lp.externs[u]; ex != nil {
			for _, w := range identRe.FindAllString(ex.typ, -1) {
				toks[w] = true
			}
		}
	}
	// abstract types of other packages
	var fs []string
	for w := range toks {
		if t.cp.foreign[w] != "" {
			fs = append(fs, w)
		}
	}
	sort.Strings(fs)
	for _, w := range fs {
		t.lp.extern(w, "Type", fmt.Sprintf("(*@ var %s - the type %s of another package: an abstract type *)", w, t.cp.foreign[w]), -4800000)
		t.use(w)
	}
	sig := fi.obj.Type().(*types.Signature)
	for i, w := range fi.tparams {
		if toks[w+"_zero"] {
			toks[w] = true
			t.bundleVar(w+"_zero", w, fmt.Sprintf("(*@ var %s_zero - the zero value of the type parameter %s (Go's `var x %s`) *)", w, w, w), -4500000+i, w, "zero")
		}
		if toks[w] {
			con := types.TypeString(sig.TypeParams().At(i).Constraint(), types.RelativeTo(t.cp.pkg))
			t.bundleVar(w, "Type", fmt.Sprintf("(*@ var %s - type parameter (constraint %s) *)", w, cmt(con)), -5000000+i, w, "")
		}
	}
}

func (t *loopTr) withWriters(v string) string {
	fi := t.fn.fi
	if len(fi.writers) == 0 {
		return v
	}
	sig := fi.obj.Type().(*types.Signature)
	var ws []string
	for _, i := range fi.writers {
		k := i
		if sig.Recv() != nil {
			k--
		}
		ws = append(ws, t.names[sig.Params().At(k)])
	}
	return "(" + strings.Join(ws, ", ") + ", " + strings.TrimSuffix(strings.TrimPrefix(v, "("), ")") + ")"
}

// ---------- local struct types ----------

func (t *loopTr) localTypes(gd *ast.GenDecl) error {
	for _, sp := range gd.Specs {
		ts := sp.(*ast.TypeSpec)
		tn, _ := t.cp.info.Defs[ts.Name].(*types.TypeName)
		if tn == nil {
			return t.errAt(ts, "local declaration")
		}
		if _, isS := tn.Type().Underlying().(*types.Struct); !isS || ts.Assign != token.NoPos {
			return t.errAt(ts, "local declaration of a type that is not a struct")
		}
		si := t.cp.structM[tn]
		if si == nil {
			name := mangleGlobal(tn.Name())
			for t.cp.globals[name] || t.cp.globals["mk_"+name] {
				name += "_"
			}
			si = &structInfo{obj: tn, name: name, pos: t.cp.position(ts.Pos())}
			t.cp.structM[tn] = si
			t.cp.globals[name] = true
			t.cp.globals["mk_"+name] = true
			t.cp.resolveStruct(si)
			for _, f := range si.fields {
				t.cp.globals[f.coq] = true
			}
		}
		if !si.ok || len(si.omitted) > 0 {
			return t.errAt(ts, "local struct type %s with a field outside the fragment", si.name)
		}
		var b strings.Builder
		fmt.Fprintf(&b, "(* local type %s %s *)\nRecord %s := mk_%s {", si.name, si.pos, si.name, si.name)
		for i, f := range si.fields {
			sep := ";"
			if i == len(si.fields)-1 {
				sep = ""
			}
			fmt.Fprintf(&b, "\n  %s : %s%s", f.coq, f.ctyp, sep)
		}
		b.WriteString("\n}.")
		t.fn.records = append(t.fn.records, b.String())
	}
	return nil
}

// ---------- abstract receivers ----------

// absMethod: x calls a method of a value of type-parameter type (V_Compare v w) or of an abstract
// receiver (E_NewVersion s): the Section variable, and the receiver when it is an argument
func (t *loopTr) absMethod(x *ast.CallExpr) (name string, recv ast.Expr, sig *types.Signature, ok bool) {
	name, recv, sig, _, _, ok = t.absMethod2(x)
	return
}

func (t *loopTr) absMethod2(x *ast.CallExpr) (name string, recv ast.Expr, sig *types.Signature, owner, suffix string, ok bool) {
	info := t.cp.info
	sel, isSel := unparen(x.Fun).(*ast.SelectorExpr)
	if !isSel {
		return
	}
	s := info.Selections[sel]
	if s == nil || s.Kind() != types.MethodVal {
		return
	}
	sig, _ = s.Type().(*types.Signature)
	if sig == nil {
		return
	}
	if tp, isTP := types.Unalias(info.TypeOf(sel.X)).(*types.TypeParam); isTP {
		o := mangleGlobal(tp.Obj().Name())
		return o + "_" + sel.Sel.Name, sel.X, sig, o, sel.Sel.Name, true
	}
	if id, isId := unparen(sel.X).(*ast.Ident); isId {
		if pre := t.abstract[info.ObjectOf(id)]; pre != "" {
			return pre + "_" + sel.Sel.Name, nil, sig, pre, sel.Sel.Name, true
		}
	}
	if fo := t.cp.foreignName(info.TypeOf(sel.X)); fo != "" {
		return fo + "_" + sel.Sel.Name, sel.X, sig, "", "", true
	}
	return "", nil, nil, "", "", false
}

func (t *loopTr) absMethodVar(at ast.Node, name string, recv ast.Expr, sig *types.Signature) error {
	owner, suffix := "", ""
	if call, ok := at.(*ast.CallExpr); ok {
		_, _, _, owner, suffix, _ = t.absMethod2(call)
	}
	var ts []string
	if recv != nil {
		ct, err := t.cp.trType(t.cp.info.TypeOf(recv))
		if err != nil {
			return t.errAt(at, "method %s (receiver of %s)", name, err.Error())
		}
		ts = append(ts, paren(ct))
	}
	pt, err := t.cp.pureFuncType(sig)
	if err != nil {
		return t.errAt(at, "method %s (%s)", name, err.Error())
	}
	ts = append(ts, pt)
	what := "method of the abstract value (it is not a parameter of the translation; the method is assumed to be a function of its arguments)"
	if recv != nil {
		what = "method of the type parameter, receiver first"
	}
	if len(t.fn.fi.tparams) == 0 || owner == "" {
		// a method of a value of another package, outside the generic functions
		what = "method of a type of another package, receiver first"
		if recv == nil {
			what = "method of a value of another package (an empty struct literal: the method is a function of its arguments)"
		}
		t.lp.extern(name, strings.Join(ts, " -> "), fmt.Sprintf("(*@ var %s - %s *)", name, what), -3900000)
		t.use(name)
		return nil
	}
	if err := t.bundleVar(name, strings.Join(ts, " -> "), fmt.Sprintf("(*@ var %s - %s *)", name, what), -4000000, owner, suffix); err != nil {
		return t.errAt(at, "%s", err.Error())
	}
	return nil
}

// ---------- which functions instantiate a generic function ----------

func (lp *loopPkg) isPost(fn *loopFn) bool {
	if v, ok := lp.postMemo[fn]; ok {
		return v == 2
	}
	lp.postMemo[fn] = 1
	res := false
	if fn.fi.decl != nil && fn.fi.decl.Body != nil && !fn.prev && !fn.code.inCode && len(fn.fi.tparams) == 0 {
		ast.Inspect(fn.fi.decl.Body, func(n ast.Node) bool {
			id, ok := n.(*ast.Ident)
			if !ok || res {
				return !res
			}
			// a call of, or a reference to (dispatch table), a function of the package
			if f, ok := lp.cp.info.Uses[id].(*types.Func); ok && f.Pkg() == lp.cp.pkg {
				if callee := lp.byObj[f.Origin()]; callee != nil {
					if len(callee.fi.tparams) > 0 || f.Type().(*types.Signature).TypeParams().Len() > 0 {
						res = true
					} else if callee != fn && lp.isPost(callee) {
						res = true
					}
				}
			}
			return !res
		})
	}
	if res {
		lp.postMemo[fn] = 2
	} else {
		lp.postMemo[fn] = 3
	}
	return res
}

// varsOf: the Section variables (of Section Parse of this file) a definition is generalised over,
// transitively, in section order
func (lp *loopPkg) varsOf(fn *loopFn) []*loopExtern {
	seen := map[string]bool{}
	var out []*loopExtern
	var walk func(name string)
	walk = func(name string) {
		if seen[name] {
			return
		}
		seen[name] = true
		if ex := lp.externs[name]; ex != nil {
			out = append(out, ex)
			for _, w := range identRe.FindAllString(ex.typ, -1) {
				if lp.externs[w] != nil {
					walk(w)
				}
			}
			return
		}
		if d := lp.byName[name]; d != nil && lp.mine(d) && !d.post {
			if d.skip == "" {
				for _, u := range d.uses {
					walk(u)
				}
			} else if it := lp.snap["func "+name]; it != nil {
				// a fallback definition: the variables the snapshot's definition names
				for _, u := range it.calls {
					walk(u)
				}
			}
			return
		}
		if it := lp.snap["var "+name]; it != nil && lp.byName[name] == nil {
			if ex := snapExtern(it); ex != nil {
				lp.externs[name] = ex
				seen[name] = false
				walk(name)
			}
		}
	}
	walk(fn.fi.name)
	sort.Slice(out, func(i, j int) bool {
		if out[i].ord != out[j].ord {
			return out[i].ord < out[j].ord
		}
		return out[i].name < out[j].name
	})
	return out
}

// foreignPrefix: the argument for an abstract receiver at an instantiation: the empty composite
// literal of a struct type of another package (&alpine.Ecosystem{}), or a local bound to one: the
// name of that package
func (t *loopTr) foreignPrefix(e ast.Expr) string {
	e = unparen(e)
	if id, ok := e.(*ast.Ident); ok {
		return t.abstract[t.cp.info.ObjectOf(id)]
	}
	if u, ok := e.(*ast.UnaryExpr); ok && u.Op == token.AND {
		e = unparen(u.X)
	}
	cl, ok := e.(*ast.CompositeLit)
	if !ok || len(cl.Elts) != 0 {
		return ""
	}
	n, ok := types.Unalias(t.cp.info.TypeOf(cl)).(*types.Named)
	if !ok || n.Obj().Pkg() == nil || n.Obj().Pkg() == t.cp.pkg {
		return ""
	}
	if st, isS := n.Underlying().(*types.Struct); !isS || st.NumFields() != 0 {
		return ""
	}
	return t.cp.foreignName(n)
}

// coreCallVars: the Section variables a call of a function of this file passes explicitly, and
// the arguments that remain (abstract receivers are dropped)
func (t *loopTr) coreCallVars(callee *loopFn, x *ast.CallExpr, args []ast.Expr) ([]string, []ast.Expr, error) {
	var kept []ast.Expr
	var droppedArgs []ast.Expr
	var prefixes []string
	for i, a := range args {
		if pre, isDropped := callee.fi.dropped[i]; isDropped && i < len(x.Args) {
			droppedArgs = append(droppedArgs, x.Args[i])
			prefixes = append(prefixes, pre)
			continue
		}
		kept = append(kept, a)
	}
	generic := len(callee.fi.tparams) > 0
	if !t.fn.post {
		if !generic {
			return nil, kept, nil
		}
		// inside Section Parse: the caller must be generic over the same names
		id, _ := unparen(x.Fun).(*ast.Ident)
		inst, ok := t.cp.info.Instances[id]
		if id == nil || !ok || inst.TypeArgs.Len() != len(callee.fi.tparams) {
			return nil, nil, t.errAt(x, "call of the generic function %s (instance not known)", callee.fi.name)
		}
		for i := 0; i < inst.TypeArgs.Len(); i++ {
			tp, isTP := types.Unalias(inst.TypeArgs.At(i)).(*types.TypeParam)
			if !isTP || mangleGlobal(tp.Obj().Name()) != callee.fi.tparams[i] {
				return nil, nil, t.errAt(x, "call of the generic function %s at other types than the caller's type parameters of the same names", callee.fi.name)
			}
		}
		for i, a := range droppedArgs {
			aid, isId := unparen(a).(*ast.Ident)
			if !isId || t.abstract[t.cp.info.ObjectOf(aid)] != prefixes[i] {
				return nil, nil, t.errAt(x, "call of the generic function %s with another abstract value than the caller's %s", callee.fi.name, prefixes[i])
			}
		}
		return nil, kept, nil
	}
	// Section Instances: every Section variable of the callee is passed explicitly
	if callee.prev || callee.post {
		return nil, kept, nil
	}
	owners := map[string]string{}
	if generic {
		id, _ := unparen(x.Fun).(*ast.Ident)
		inst, ok := t.cp.info.Instances[id]
		if id == nil || !ok || inst.TypeArgs.Len() != len(callee.fi.tparams) {
			return nil, nil, t.errAt(x, "instantiation of %s (instance not known)", callee.fi.name)
		}
		for i, tp := range callee.fi.tparams {
			fo := t.cp.foreignName(inst.TypeArgs.At(i))
			if fo == "" {
				return nil, nil, t.errAt(x, "instantiation of %s at %s, which is not a type of another package", callee.fi.name, types.TypeString(inst.TypeArgs.At(i), types.RelativeTo(t.cp.pkg)))
			}
			owners[tp] = fo
		}
		for i, a := range droppedArgs {
			fo := t.foreignPrefix(a)
			if fo == "" {
				return nil, nil, t.errAt(x, "instantiation of %s at a value that is not an empty literal of a struct type of another package", callee.fi.name)
			}
			owners[prefixes[i]] = fo
		}
	}
	inst := func(ex *loopExtern) string {
		o := owners[ex.owner]
		if o == "" {
			return ""
		}
		if ex.suffix == "" {
			return o
		}
		return o + "_" + ex.suffix
	}
	var out []string
	vars := t.lp.varsOf(callee)
	sub := func(typ string) string {
		return identRe.ReplaceAllStringFunc(typ, func(w string) string {
			if ex := t.lp.externs[w]; ex != nil && ex.bundle {
				if n := inst(ex); n != "" {
					return n
				}
			}
			return w
		})
	}
	for _, ex := range vars {
		name, typ, hdr := ex.name, ex.typ, ex.hdr
		if ex.bundle {
			name = inst(ex)
			if name == "" {
				return nil, nil, t.errAt(x, "call of %s, which depends on %s", callee.fi.name, ex.name)
			}
			typ = sub(ex.typ)
			hdr = fmt.Sprintf("(*@ var %s - the instance of %s of the generic functions at this ecosystem *)", name, ex.name)
		}
		t.lp.extern(name, typ, hdr, ex.ord)
		t.use(name)
		out = append(out, name)
	}
	return out, kept, nil
}

// ---------- expressions ----------

func (t *loopTr) isFuncVar(e ast.Expr) (*types.Signature, bool) {
	id, ok := unparen(e).(*ast.Ident)
	if !ok {
		return nil, false
	}
	v, ok := t.cp.info.ObjectOf(id).(*types.Var)
	if !ok || v.IsField() || v.Parent() == t.cp.pkg.Scope() {
		return nil, false
	}
	sig, ok := v.Type().Underlying().(*types.Signature)
	return sig, ok
}

func (t *loopTr) isOptPtr(e ast.Expr) (types.Object, bool) {
	id, ok := unparen(e).(*ast.Ident)
	if !ok {
		return nil, false
	}
	o := t.cp.info.ObjectOf(id)
	return o, o != nil && t.optPtr[o]
}

func (t *loopTr) coreEffectful(n ast.Node) bool {
	switch x := n.(type) {
	case *ast.SelectorExpr:
		if s := t.cp.info.Selections[x]; s != nil && s.Kind() == types.FieldVal {
			_, is := t.isOptPtr(x.X)
			return is
		}
	case *ast.StarExpr:
		_, is := t.isOptPtr(x.X)
		return is
	case *ast.CallExpr:
		if _, is := t.isFuncVar(x.Fun); is {
			return true
		}
		return t.moduleFunc(x) != nil
	}
	return false
}

// moduleFunc: x calls a function of another package of the module (cmd -> pkg/spec/vers): an oracle
// of the uniform type of function values (fuel first, result in res): the other package's generated
// file is not imported
func (t *loopTr) moduleFunc(x *ast.CallExpr) *types.Func {
	sel, ok := unparen(x.Fun).(*ast.SelectorExpr)
	if !ok || t.cp.info.Selections[sel] != nil {
		return nil
	}
	fn, _ := t.cp.info.ObjectOf(sel.Sel).(*types.Func)
	if fn == nil || fn.Pkg() == nil || fn.Pkg() == t.cp.pkg {
		return nil
	}
	if !strings.Contains(strings.SplitN(fn.Pkg().Path(), "/", 2)[0], ".") {
		return nil
	}
	sig := fn.Type().(*types.Signature)
	if sig.TypeParams().Len() > 0 || sig.Variadic() || sig.Recv() != nil {
		return nil
	}
	return fn
}

func (t *loopTr) coreHoist(e ast.Expr) (ast.Expr, []pre, bool, error) {
	info := t.cp.info
	switch x := e.(type) {
	case *ast.SelectorExpr:
		if o, is := t.isOptPtr(x.X); is {
			if s := info.Selections[x]; s != nil && s.Kind() == types.FieldVal {
				tmp := t.tmpIdent("p", o.Type())
				nx := *x
				nx.X = tmp
				t.copyType(&nx, x)
				info.Selections[&nx] = s
				return &nx, []pre{{tmp.Name, app("deref", t.names[o])}}, true, nil
			}
		}
	case *ast.StarExpr:
		if o, is := t.isOptPtr(x.X); is {
			tmp := t.tmpIdent("p", o.Type())
			return tmp, []pre{{tmp.Name, app("deref", t.names[o])}}, true, nil
		}
	case *ast.UnaryExpr:
		// &xs[i]: a pointer to an element is the element (no translated function writes through a
		// pointer or assigns an element)
		if ix, ok := unparen(x.X).(*ast.IndexExpr); ok && x.Op == token.AND {
			if _, isSlice := info.TypeOf(ix.X).Underlying().(*types.Slice); isSlice && t.cp.structOf(info.TypeOf(ix)) != nil {
				h, ps, err := t.hoist(ix)
				return h, ps, true, err
			}
		}
	case *ast.CallExpr:
		mf := t.moduleFunc(x)
		sig, is := t.isFuncVar(x.Fun)
		if mf != nil {
			sig, is = mf.Type().(*types.Signature), true
		}
		if is {
			var ps []pre
			var hs []ast.Expr
			for _, a := range x.Args {
				h, p, err := t.hoist(a)
				if err != nil {
					return nil, nil, false, err
				}
				ps = append(ps, p...)
				hs = append(hs, h)
			}
			as, err := t.args(hs)
			if err != nil {
				return nil, nil, false, err
			}
			var f string
			if mf != nil {
				ft, err := t.cp.funcValType(sig)
				if err != nil {
					return nil, nil, false, t.errAt(x, "call of %s.%s (%s)", mf.Pkg().Path(), mf.Name(), err.Error())
				}
				f = mangleGlobal(mf.Pkg().Name() + "_" + mf.Name())
				t.lp.extern(f, ft, fmt.Sprintf("(*@ var %s - function %s.%s of another package of the module: an oracle of the uniform type of function values (that package's generated file is not imported) *)", f, mf.Pkg().Path(), mf.Name()), -2500000)
				t.use(f)
			} else {
				var err error
				f, err = t.expr(unparen(x.Fun))
				if err != nil {
					return nil, nil, false, err
				}
			}
			t.usesFuel = true
			var ty types.Type = sig.Results()
			if sig.Results().Len() == 1 {
				ty = sig.Results().At(0).Type()
			}
			tmp := t.tmpIdent("r", ty)
			return tmp, append(ps, pre{tmp.Name, app(f, append([]string{"fuel"}, as...)...)}), true, nil
		}
	}
	return nil, nil, false, nil
}

// closure: a function literal; pure: `fun a b => body` (argument of a library oracle), else the
// uniform type of function values `fun fuel a b => <monadic body>`
func (t *loopTr) closure(lit *ast.FuncLit, pure bool) (string, error) {
	info := t.cp.info
	sig, _ := info.TypeOf(lit).(*types.Signature)
	if sig == nil {
		return "", t.errAt(lit, "closure")
	}
	if w := t.assignedOuter([][]ast.Stmt{lit.Body.List}, lit.Pos(), lit.End()); len(w) > 0 {
		return "", t.errAt(lit, "closure that assigns the outer variable %s", w[0].Name())
	}
	fi := &funcInfo{decl: &ast.FuncDecl{Body: lit.Body}, obj: types.NewFunc(lit.Pos(), t.cp.pkg, "literal", sig),
		name: t.fn.fi.name, pos: t.cp.position(lit.Pos())}
	t.cp.signature(fi)
	if !fi.sigOK {
		return "", t.errAt(lit, "closure (%s)", fi.sigWhy)
	}
	fi.tparams = t.fn.fi.tparams
	savedFn, savedPure, savedEffect, savedFuel := t.fn, t.pure, t.effect, t.usesFuel
	tmp := &loopFn{code: t.fn.code, fi: fi, post: t.fn.post, lits: t.fn.lits}
	t.fn, t.pure = tmp, pure
	savedUsed := map[string]bool{}
	for k, v := range t.used {
		savedUsed[k] = v
	}
	var bs []string
	if !pure {
		bs = append(bs, "(fuel : nat)")
	}
	for i := 0; i < sig.Params().Len(); i++ {
		v := sig.Params().At(i)
		var o types.Object = v
		if v.Name() == "" || v.Name() == "_" {
			o = nil
		}
		bs = append(bs, fmt.Sprintf("(%s : %s)", t.bind(o, v.Name()), fi.ptypes[i]))
	}
	body, err := t.lstmts(lit.Body.List, &lctx{ret: t.done})
	t.fn, t.pure, t.effect, t.usesFuel = savedFn, savedPure, savedEffect, savedFuel
	t.used = savedUsed // the names bound inside the literal are not visible after it
	t.fn.lits = tmp.lits
	t.fn.uses = append(t.fn.uses, tmp.uses...)
	t.fn.records = append(t.fn.records, tmp.records...)
	if err != nil {
		return "", err
	}
	return "(fun " + strings.Join(bs, " ") + " =>\n" + indent(body) + ")", nil
}

// funcValue: an expression of function type as a function value of the uniform type
func (t *loopTr) funcValue(e ast.Expr) (string, error) {
	e = unparen(e)
	info := t.cp.info
	switch x := e.(type) {
	case *ast.FuncLit:
		return t.closure(x, false)
	case *ast.Ident:
		if _, is := t.isFuncVar(x); is {
			return t.expr(x)
		}
		if fn, ok := info.ObjectOf(x).(*types.Func); ok && fn.Pkg() == t.cp.pkg {
			callee := t.lp.byObj[fn.Origin()]
			if callee == nil || len(callee.fi.tparams) > 0 || len(callee.fi.writers) > 0 {
				return "", t.errAt(e, "function value %s", x.Name)
			}
			var vs []string
			name := callee.fi.name
			mode := lmPure
			if callee.code.inCode {
				if len(callee.code.codeVars) > 0 {
					return "", t.errAt(e, "function value %s, which depends on Section variables of Gen/Code", x.Name)
				}
				name = callee.code.name
			} else {
				t.lp.ensure(callee)
				if callee.state != 2 || (callee.skip != "" && callee.mode == lmSkipped) {
					return "", t.errAt(e, "function value %s, which is outside the fragment: %s", x.Name, callee.skip)
				}
				mode = callee.mode
				if callee.prev {
					vs = t.prevVars(callee)
				} else {
					cv, _, err := t.coreCallVars(callee, &ast.CallExpr{Fun: x}, nil)
					if err != nil {
						return "", err
					}
					vs = cv
				}
			}
			t.use(name)
			f := name
			if len(vs) > 0 {
				f = "(" + app(name, vs...) + ")"
			}
			sig := fn.Type().(*types.Signature)
			var ps []string
			for i := 0; i < sig.Params().Len(); i++ {
				ps = append(ps, fmt.Sprintf("a%d", i+1))
			}
			switch mode {
			case lmFuel:
				return f, nil
			case lmRes:
				return fmt.Sprintf("(fun _ %s => %s %s)", strings.Join(ps, " "), f, strings.Join(ps, " ")), nil
			default:
				return fmt.Sprintf("(fun _ %s => Done (%s %s))", strings.Join(ps, " "), f, strings.Join(ps, " ")), nil
			}
		}
	}
	return "", t.errAt(e, "function value of a form outside the fragment")
}

func (t *loopTr) coreExt(e ast.Expr) (string, bool, error) {
	info := t.cp.info
	fail := func(err error) (string, bool, error) { return "", false, err }
	switch x := e.(type) {
	case *ast.Ident:
		if _, isNil := info.ObjectOf(x).(*types.Nil); isNil {
			if tv, ok := info.Types[x]; ok {
				if _, isSlice := tv.Type.Underlying().(*types.Slice); isSlice {
					z, err := t.cp.zero(tv.Type)
					if err != nil {
						return fail(t.errAt(e, "nil of %s", err.Error()))
					}
					return z, true, nil
				}
			}
			if ty := t.nilTypes[x]; ty != nil {
				if _, isSlice := ty.Underlying().(*types.Slice); isSlice {
					z, err := t.cp.zero(ty)
					if err != nil {
						return fail(t.errAt(e, "nil of %s", err.Error()))
					}
					return z, true, nil
				}
			}
			return "", false, nil
		}
		if o := info.ObjectOf(x); o != nil && t.optPtr[o] {
			return fail(t.errAt(e, "nil-able pointer %s used as a value", x.Name))
		}
	case *ast.BinaryExpr:
		if x.Op == token.EQL || x.Op == token.NEQ {
			other := x.X
			if t.isNil(x.X) {
				other = x.Y
			} else if !t.isNil(x.Y) {
				return "", false, nil
			}
			if o, is := t.isOptPtr(other); is {
				if x.Op == token.EQL {
					return app("is_none", t.names[o]), true, nil
				}
				return app("is_some", t.names[o]), true, nil
			}
		}
	case *ast.FuncLit:
		s, err := t.closure(x, true)
		return s, err == nil, err
	case *ast.SelectorExpr:
		// method expression V.Compare
		if s := info.Selections[x]; s != nil && s.Kind() == types.MethodExpr {
			if tp, isTP := types.Unalias(s.Recv()).(*types.TypeParam); isTP {
				m, _ := s.Obj().(*types.Func)
				if m == nil {
					return "", false, nil
				}
				name := mangleGlobal(tp.Obj().Name()) + "_" + x.Sel.Name
				full := s.Type().(*types.Signature) // receiver is the first parameter
				pt, err := t.cp.pureFuncType(full)
				if err != nil {
					return fail(t.errAt(e, "method expression (%s)", err.Error()))
				}
				if err := t.bundleVar(name, pt, fmt.Sprintf("(*@ var %s - method of the type parameter, receiver first *)", name), -4000000, mangleGlobal(tp.Obj().Name()), x.Sel.Name); err != nil {
					return fail(t.errAt(e, "%s", err.Error()))
				}
				return name, true, nil
			}
		}
	case *ast.CompositeLit:
		if mt, isMap := info.TypeOf(x).Underlying().(*types.Map); isMap {
			ct, err := t.cp.trType(mt)
			if err != nil {
				return fail(t.errAt(e, "composite literal of %s", err.Error()))
			}
			_, funcs := mt.Elem().Underlying().(*types.Signature)
			var rows []string
			keys := map[string]bool{}
			for _, el := range x.Elts {
				kv, isKV := el.(*ast.KeyValueExpr)
				if !isKV {
					return fail(t.errAt(el, "map literal entry"))
				}
				tv := info.Types[kv.Key]
				if tv.Value == nil || tv.Value.Kind() != constant.String {
					return fail(t.errAt(el, "map literal with a key that is not a constant"))
				}
				if keys[constant.StringVal(tv.Value)] {
					return fail(t.errAt(el, "map literal with a duplicate key"))
				}
				keys[constant.StringVal(tv.Value)] = true
				k, err := t.expr(kv.Key)
				if err != nil {
					return fail(err)
				}
				var v string
				if funcs {
					v, err = t.funcValue(kv.Value)
				} else {
					if t.effectful(kv.Value) {
						return fail(t.errAt(el, "map literal with an effectful value"))
					}
					v, err = t.expr(kv.Value)
				}
				if err != nil {
					return fail(err)
				}
				rows = append(rows, "("+k+", "+v+")")
			}
			if len(rows) == 0 {
				return "([] : " + ct + ")", true, nil
			}
			return "([" + strings.Join(rows, ";\n  ") + "] : " + ct + ")", true, nil
		}
	case *ast.CallExpr:
		if name, recv, sig, ok := t.absMethod(x); ok {
			if n := sig.Results().Len(); n >= 1 && isErrorType(sig.Results().At(n-1).Type()) {
				return fail(t.errAt(e, "call of %s (error result) outside an assignment or return", name))
			}
			if err := t.absMethodVar(x, name, recv, sig); err != nil {
				return fail(err)
			}
			var as []string
			if recv != nil {
				r, err := t.expr(recv)
				if err != nil {
					return fail(err)
				}
				as = append(as, r)
			}
			rest, err := t.args(x.Args)
			if err != nil {
				return fail(err)
			}
			as = append(as, rest...)
			if len(as) == 0 {
				return name, true, nil
			}
			return app(name, as...), true, nil
		}
		if id, ok := unparen(x.Fun).(*ast.Ident); ok {
			if b, ok := info.ObjectOf(id).(*types.Builtin); ok && b.Name() == "make" && len(x.Args) >= 1 {
				ty := info.TypeOf(x.Args[0])
				ct, err := t.cp.trType(ty)
				if err != nil {
					return fail(t.errAt(e, "make of %s", err.Error()))
				}
				switch ty.Underlying().(type) {
				case *types.Map:
					return "([] : " + ct + ")", true, nil
				case *types.Slice:
					if len(x.Args) >= 2 {
						if tv := info.Types[x.Args[1]]; tv.Value != nil && tv.Value.String() == "0" {
							// the capacity is not observable
							return "([] : " + ct + ")", true, nil
						}
					}
				}
				return fail(t.errAt(e, "builtin make with a length"))
			}
		}
		if _, is := t.isFuncVar(x.Fun); is {
			return fail(t.errAt(e, "internal: call of a function value in a pure position"))
		}
	}
	return "", false, nil
}

// localMap: m[k] on a local map variable
func (t *loopTr) localMap(x *ast.IndexExpr, id *ast.Ident) (tbl, zero string, ok bool, err error) {
	v, isVar := t.cp.info.ObjectOf(id).(*types.Var)
	if !isVar || v.Parent() == t.cp.pkg.Scope() || v.IsField() {
		return "", "", false, nil
	}
	mt := v.Type().Underlying().(*types.Map)
	if _, e := t.cp.trType(mt); e != nil {
		return "", "", false, t.errAt(x, "map lookup (%s)", e.Error())
	}
	n, known := t.names[v]
	if !known {
		return "", "", false, t.errAt(x, "map lookup (variable %s defined outside the fragment)", id.Name)
	}
	z, e := t.cp.zero(mt.Elem())
	if e != nil {
		return "", "", false, t.errAt(x, "map lookup (%s)", e.Error())
	}
	return n, z, true, nil
}

// ---------- statements ----------

func (t *loopTr) coreAssign(x *ast.AssignStmt, target func(ast.Expr) (string, error), rest []ast.Stmt, c *lctx) (string, bool, error) {
	info := t.cp.info
	fail := func(err error) (string, bool, error) { return "", false, err }
	if x.Tok != token.DEFINE && x.Tok != token.ASSIGN {
		return "", false, nil
	}
	cont := func(ps []pre, bindings string) (string, bool, error) {
		r, err := t.lstmts(rest, c)
		if err != nil {
			return fail(err)
		}
		return seq(ps, bindings+r), true, nil
	}
	// out, code := fn(args): a function value with several results
	if len(x.Lhs) > 1 && len(x.Rhs) == 1 {
		if call, ok := x.Rhs[0].(*ast.CallExpr); ok {
			if sig, is := t.isFuncVar(call.Fun); is {
				n := sig.Results().Len()
				if n != len(x.Lhs) || isErrorType(sig.Results().At(n-1).Type()) {
					return "", false, nil
				}
				ps, v, err := t.mexpr(call)
				if err != nil {
					return fail(err)
				}
				var names []string
				for _, l := range x.Lhs {
					nm, err := target(l)
					if err != nil {
						return fail(err)
					}
					names = append(names, nm)
				}
				return cont(ps, fmt.Sprintf("let '(%s) := %s in\n", strings.Join(names, ", "), v))
			}
		}
		return "", false, nil
	}
	if len(x.Lhs) != 1 || len(x.Rhs) != 1 {
		return "", false, nil
	}
	lhs, rhs := x.Lhs[0], x.Rhs[0]
	switch l := lhs.(type) {
	case *ast.SelectorExpr:
		// v.f = e on a local struct value
		id, ok := coreAssignRoot(info, l)
		if !ok {
			return "", false, nil
		}
		o := info.ObjectOf(id)
		n, known := t.names[o]
		si := t.cp.structOf(o.Type())
		if !known || si == nil || t.optPtr[o] {
			return "", false, nil
		}
		ps, v, err := t.mexpr(rhs)
		if err != nil {
			return fail(err)
		}
		parts := []string{"mk_" + si.name}
		found := false
		for _, f := range si.fields {
			if f.goName == l.Sel.Name {
				parts = append(parts, paren(v))
				found = true
			} else {
				parts = append(parts, "("+f.coq+" "+n+")")
			}
		}
		if !found {
			return fail(t.errAt(x, "field %s.%s has a type outside the fragment", si.name, l.Sel.Name))
		}
		return cont(ps, fmt.Sprintf("let %s := %s in\n", n, strings.Join(parts, " ")))
	case *ast.IndexExpr:
		// m[k] = v on a local map
		id, ok := coreAssignRoot(info, l)
		if !ok {
			return "", false, nil
		}
		n, _, _, err := t.localMap(l, id)
		if err != nil {
			return fail(err)
		}
		if n == "" {
			return fail(t.errAt(x, "assignment to an element of a map that is not a local"))
		}
		pk, k, err := t.mexpr(l.Index)
		if err != nil {
			return fail(err)
		}
		pv, v, err := t.mexpr(rhs)
		if err != nil {
			return fail(err)
		}
		return cont(append(pk, pv...), fmt.Sprintf("let %s := %s in\n", n, app("map_set", k, v, n)))
	case *ast.Ident:
		if l.Name == "_" {
			return "", false, nil
		}
		o := info.ObjectOf(l)
		if v, isVar := o.(*types.Var); isVar && isErrorType(o.Type()) && v.Parent() != t.cp.pkg.Scope() {
			// err := fmt.Errorf(..): the variable is known to be non-nil; the arguments are evaluated
			if _, isCall := unparen(rhs).(*ast.CallExpr); isCall {
				if kind, evald, err := t.errKind(rhs); err == nil && kind == 2 {
					ps, err := t.effectsOf(evald)
					if err != nil {
						return fail(err)
					}
					t.nilState[o] = 2
					return cont(ps, "")
				}
			}
			return "", false, nil
		}
		if t.optPtr[o] {
			n := t.bind(o, l.Name)
			if t.isNil(rhs) {
				return cont(nil, fmt.Sprintf("let %s := %s in\n", n, t.optNone(o)))
			}
			if ro, is := t.isOptPtr(rhs); is {
				return cont(nil, fmt.Sprintf("let %s := %s in\n", n, t.names[ro]))
			}
			ps, v, err := t.mexpr(rhs)
			if err != nil {
				return fail(err)
			}
			return cont(ps, fmt.Sprintf("let %s := Some %s in\n", n, paren(v)))
		}
		// e := &alpine.Ecosystem{}: a value of another package that is only used as an abstract receiver
		if x.Tok == token.DEFINE {
			if pre := t.foreignPrefix(rhs); pre != "" {
				if _, isId := unparen(rhs).(*ast.Ident); !isId {
					t.abstract[o] = pre
					return cont(nil, "")
				}
			}
		}
		// f := <function value>
		if _, isFn := o.Type().Underlying().(*types.Signature); isFn {
			if _, isCall := unparen(rhs).(*ast.CallExpr); !isCall {
				v, err := t.funcValue(rhs)
				if err != nil {
					return fail(err)
				}
				n, err := target(lhs)
				if err != nil {
					return fail(err)
				}
				return cont(nil, fmt.Sprintf("let %s := %s in\n", n, v))
			}
		}
	}
	return "", false, nil
}

func (t *loopTr) coreExprStmt(x *ast.ExprStmt, rest []ast.Stmt, c *lctx) (string, bool, error) {
	info := t.cp.info
	fail := func(err error) (string, bool, error) { return "", false, err }
	call, ok := x.X.(*ast.CallExpr)
	if !ok {
		return "", false, nil
	}
	q := libCall(info, call)
	switch q {
	case "slices.SortFunc":
		if len(call.Args) != 2 {
			return "", false, nil
		}
		id, ok := unparen(call.Args[0]).(*ast.Ident)
		if !ok {
			return fail(t.errAt(x, "slices.SortFunc on a slice that is not a local variable"))
		}
		cur, err := t.expr(id)
		if err != nil {
			return fail(err)
		}
		f, err := t.expr(call.Args[1])
		if err != nil {
			return fail(err)
		}
		t.lp.extern("sort_by", "forall A : Type, (A -> A -> Z) -> list A -> list A",
			"(*@ var sort_by - library function slices.SortFunc: an ORACLE for the standard library's (unstable) sort; the theorems assume that it returns a sorted permutation, nothing is defined *)", -2000000)
		t.use("sort_by")
		r, err := t.lstmts(rest, c)
		if err != nil {
			return fail(err)
		}
		return fmt.Sprintf("let %s := sort_by _ %s %s in\n%s", cur, paren(f), cur, r), true, nil
	case "fmt.Fprintf", "fmt.Fprintln":
		if len(call.Args) < 1 {
			return "", false, nil
		}
		id, ok := unparen(call.Args[0]).(*ast.Ident)
		if !ok || !isWriterType(info.TypeOf(call.Args[0])) {
			return fail(t.errAt(x, "%s on a writer that is not a parameter", q))
		}
		cur, err := t.expr(id)
		if err != nil {
			return fail(err)
		}
		var ps []pre
		var text string
		if q == "fmt.Fprintf" {
			nx := *call
			nx.Args = nil
			for _, a := range call.Args[1:] {
				h, p, err := t.hoist(a)
				if err != nil {
					return fail(err)
				}
				ps = append(ps, p...)
				nx.Args = append(nx.Args, h)
			}
			s, _, err := t.sprintf(&nx)
			if err != nil {
				return fail(err)
			}
			text = s
		} else {
			var parts []string
			for i, a := range call.Args[1:] {
				if t.kind(a) != types.String {
					return fail(t.errAt(x, "fmt.Fprintln of a value that is not a string"))
				}
				p, v, err := t.mexpr(a)
				if err != nil {
					return fail(err)
				}
				ps = append(ps, p...)
				if i > 0 {
					parts = append(parts, `$" "`)
				}
				parts = append(parts, paren(v))
			}
			parts = append(parts, "[chr 10]")
			text = strings.Join(parts, " ++ ")
		}
		r, err := t.lstmts(rest, c)
		if err != nil {
			return fail(err)
		}
		return seq(ps, fmt.Sprintf("let %s := %s ++ (%s) in\n%s", cur, cur, text, r)), true, nil
	}
	return "", false, nil
}

// coreOptCall: calls with an error result of a method of an abstract receiver or of a function value
func (t *loopTr) coreOptCall(call *ast.CallExpr) (*optCall, bool, error) {
	hoistArgs := func() ([]pre, []ast.Expr, error) {
		var ps []pre
		var hs []ast.Expr
		for _, a := range call.Args {
			h, p, err := t.hoist(a)
			if err != nil {
				return nil, nil, err
			}
			ps = append(ps, p...)
			hs = append(hs, h)
		}
		return ps, hs, nil
	}
	if name, recv, sig, ok := t.absMethod(call); ok {
		n := sig.Results().Len()
		if n == 0 || !isErrorType(sig.Results().At(n-1).Type()) {
			return nil, false, nil
		}
		if err := t.absMethodVar(call, name, recv, sig); err != nil {
			return nil, false, err
		}
		ps, hs, err := hoistArgs()
		if err != nil {
			return nil, false, err
		}
		var as []string
		if recv != nil {
			p, r, err := t.mexpr(recv)
			if err != nil {
				return nil, false, err
			}
			ps = append(p, ps...)
			as = append(as, r)
		}
		rest, err := t.args(hs)
		if err != nil {
			return nil, false, err
		}
		as = append(as, rest...)
		v := name
		if len(as) > 0 {
			v = app(name, as...)
		}
		return &optCall{ps, v, n - 1}, true, nil
	}
	sig, is := t.isFuncVar(call.Fun)
	if mf := t.moduleFunc(call); mf != nil {
		sig, is = mf.Type().(*types.Signature), true
	}
	if is {
		n := sig.Results().Len()
		if n == 0 || !isErrorType(sig.Results().At(n-1).Type()) {
			return nil, false, nil
		}
		ps, v, err := t.mexpr(call)
		if err != nil {
			return nil, false, err
		}
		return &optCall{ps, v, n - 1}, true, nil
	}
	return nil, false, nil
}

// coreVerb: further verbs of fmt.Sprintf: %t, %q on a string (ASCII), %v / %w on an error
func (t *loopTr) coreVerb(x *ast.CallExpr, verb byte, a ast.Expr) (string, bool, error) {
	info := t.cp.info
	k := t.kind(a)
	_, named := types.Unalias(info.TypeOf(a)).(*types.Named)
	switch {
	case (verb == 't' || verb == 'v') && k == types.Bool && !named:
		s, err := t.expr(a)
		if err != nil {
			return "", false, err
		}
		return app("fmt_bool", s), true, nil
	case verb == 'q' && k == types.String && !named:
		s, err := t.expr(a)
		if err != nil {
			return "", false, err
		}
		t.asciis["fmt %q"] = true
		return app("fmt_quote", s), true, nil
	case (verb == 'v' || verb == 'w' || verb == 's') && isErrorType(info.TypeOf(a)):
		// the text of an error is not modelled: an oracle, a function of the parameters of the
		// enclosing function (the program is deterministic)
		t.fn.lits++
		name := mangleGlobal(fmt.Sprintf("error_text_%s_%d", t.fn.fi.name, t.fn.lits))
		fi := t.fn.fi
		sig := fi.obj.Type().(*types.Signature)
		if fi.decl != nil && fi.decl.Body != nil {
			for _, o := range t.assignedOuter([][]ast.Stmt{fi.decl.Body.List}, fi.decl.Body.Pos(), fi.decl.Body.End()) {
				for i := 0; i < sig.Params().Len(); i++ {
					if o == sig.Params().At(i) {
						return "", false, t.errAt(x, "text of an error in a function that assigns its parameter %s", o.Name())
					}
				}
			}
		}
		var ts, as []string
		for i := 0; i < sig.Params().Len(); i++ {
			if _, isDropped := fi.dropped[i]; isDropped || i >= len(fi.ptypes) || fi.ptypes[i] == "" {
				continue
			}
			n, known := t.names[sig.Params().At(i)]
			if !known {
				continue
			}
			// the value the parameter had on entry is not available once it is reassigned: use the current one
			ts = append(ts, paren(fi.ptypes[i]))
			as = append(as, n)
		}
		ts = append(ts, "bytes")
		hdr := fmt.Sprintf("(*@ var %s %s the text of the error printed with %%%c: an ORACLE (error texts are not modelled); a function of the parameters *)", name, t.cp.position(x.Pos()), verb)
		owner := ""
		if len(fi.tparams) > 0 {
			var idxs []int
			for i := range fi.dropped {
				idxs = append(idxs, i)
			}
			sort.Ints(idxs)
			if len(idxs) > 0 {
				owner = fi.dropped[idxs[0]]
			}
		}
		if owner != "" {
			// the text depends on the ecosystem: part of the bundle
			if err := t.bundleVar(name, strings.Join(ts, " -> "), hdr, -1500000+int(x.Pos()), owner, name); err != nil {
				return "", false, t.errAt(x, "%s", err.Error())
			}
		} else {
			t.lp.extern(name, strings.Join(ts, " -> "), hdr, -1500000+int(x.Pos()))
			t.use(name)
		}
		if len(as) == 0 {
			return name, true, nil
		}
		return app(name, as...), true, nil
	}
	return "", false, nil
}

// ---------- rendering ----------

func closeOverTypes(needed map[string]bool, externs map[string]*loopExtern) {
	for changed := true; changed; {
		changed = false
		for name := range needed {
			if ex := externs[name]; ex != nil {
				for _, w := range identRe.FindAllString(ex.typ, -1) {
					if externs[w] != nil && !needed[w] {
						needed[w] = true
						changed = true
					}
				}
			}
		}
	}
}

func (lp *loopPkg) coreHeader() string {
	cp := lp.cp
	var b strings.Builder
	fmt.Fprintf(&b, "(* Generated by tools/gen (core.go) from %s on every run -- do not edit.\n", cp.tgt.dir)
	b.WriteString("   Translation of the functions that none of Gen/Code, Gen/Loops, Gen/Parse defines (tools/gen/LOOPS.md,\n   section Core).  Section Core: a generic function is a definition over the Section variables V, VR\n   (its type parameters), V_Compare, VR_Contains, E_NewVersion .. (the interface methods it calls; the\n   ecosystem value e is not a parameter) and sort_by (slices.SortFunc: an oracle); a pointer that may be\n   nil is an option, its dereference the checked operation deref.  Section Instances: the functions that\n   instantiate a generic function at the ecosystem of another package take that ecosystem's bundle\n   <pkg>_V, <pkg>_E_NewVersion .. as Section variables; a dispatch map is an association list of\n   function values (fuel first). *)\n")
	b.WriteString("From Coq Require Import ZArith List Ascii String Bool.\n")
	b.WriteString("From Verif.Base Require Import Bytes GoNum GoOps Imp ImpErr ImpCore.\n")
	fmt.Fprintf(&b, "From Verif.Gen.Code Require Import %s.\n", cp.tgt.mod)
	fmt.Fprintf(&b, "From Verif.Gen.Loops Require Import %s.\n", cp.tgt.mod)
	fmt.Fprintf(&b, "From Verif.Gen.Parse Require Import %s.\n", cp.tgt.mod)
	b.WriteString("Import ListNotations.\nLocal Open Scope Z_scope.\nLocal Open Scope imp_scope.\n\n")
	return b.String()
}

// postSection: the head of Section Instances with its variables
func (lp *loopPkg) postSection(needed map[string]bool, snap map[string]*snapItem, label string) string {
	type vdecl struct {
		text string
		ord  int
		name string
	}
	var vds []vdecl
	declared := map[string]bool{}
	for name, ex := range lp.postExterns {
		if needed[name] {
			vds = append(vds, vdecl{coreVarText(ex), ex.ord, name})
			declared[name] = true
		}
	}
	for u := range needed {
		if declared[u] || lp.byName[u] != nil || lp.consts[u] != nil {
			continue
		}
		if it := snap["var "+u]; it != nil {
			ord := 1<<29 + it.line
			if ex := snapExtern(it); ex != nil {
				ord = ex.ord
			}
			vds = append(vds, vdecl{"(* FALLBACK variable " + u + ": declaration of the snapshot *)\n" + it.text, ord, u})
			continue
		}
		problems = append(problems, fmt.Sprintf("error "+label+":%s: a definition of Section Instances needs %s, which is neither in the source nor in the snapshot", lp.cp.tgt.mod, u))
	}
	sort.Slice(vds, func(i, j int) bool {
		if vds[i].ord != vds[j].ord {
			return vds[i].ord < vds[j].ord
		}
		return vds[i].name < vds[j].name
	})
	var b strings.Builder
	b.WriteString("Section Instances.\n\n")
	for _, v := range vds {
		b.WriteString(v.text + "\n\n")
	}
	return b.String()
}

// genCore: called by genParse for the packages with the core flag, with the parse pass of the package
func genCore(cp *codePkg, before *loopPkg, want map[string]bool) {
	file := "Parse/" + cp.tgt.mod + "Core.v"
	want[cp.tgt.mod+"Core.v"] = true
	var snap map[string]*snapItem
	if src, ok := snapFile(file); ok {
		snap = parseSnapItems(src)
	}
	cp.wide, cp.errs, cp.core = true, true, true
	lp := &loopPkg{cp: cp, byObj: map[*types.Func]*loopFn{}, byName: map[string]*loopFn{}, externs: map[string]*loopExtern{},
		parse: true, core: true, before: before, consts: map[string]*loopExtern{}, snap: snap,
		postExterns: map[string]*loopExtern{}, postMemo: map[*loopFn]int{}}
	for _, c := range cp.funcs {
		var fn *loopFn
		pf := before.byName[c.name]
		switch {
		case pf != nil && pf.prev:
			fn = &loopFn{code: c, fi: pf.fi, state: 2, mode: pf.mode, ascii: pf.ascii, prev: true, vars: pf.vars, from: before.before}
		case pf != nil && pf.inLoops:
			fn = &loopFn{code: c, fi: pf.fi, state: 2, mode: pf.mode, ascii: pf.ascii, prev: true, vars: pf.vars, from: before}
		default:
			fi := &funcInfo{decl: c.decl, obj: c.obj, name: c.name, pos: c.pos}
			cp.signature(fi)
			fn = &loopFn{code: c, fi: fi}
		}
		lp.fns = append(lp.fns, fn)
		lp.byObj[c.obj] = fn
		lp.byName[c.name] = fn
	}
	for _, fn := range lp.fns {
		if lp.mine(fn) {
			lp.ensure(fn)
		}
	}
	out, tr, sk := lp.render(snap)
	cp.wide, cp.errs, cp.core = false, false, false
	write(file, out)
	fmt.Printf("core: %s translated=%d skipped=%d\n", cp.tgt.dir, tr, sk)
}

// zeroOnErr: call is a call of a function of this package all of whose failing returns return zero
// values (`return 0, err`, `return nil, fmt.Errorf(..)`): after `x, err := f(..)` with err != nil,
// x is the zero value
func (t *loopTr) zeroOnErr(call *ast.CallExpr) bool {
	fn := t.localFunc(call)
	if fn == nil {
		return false
	}
	callee := t.lp.byObj[fn.Origin()]
	if callee == nil || callee.fi.decl == nil || callee.fi.decl.Body == nil {
		return false
	}
	sig := fn.Type().(*types.Signature)
	n := sig.Results().Len()
	info := t.cp.info
	ok := true
	zeroLit := func(e ast.Expr) bool {
		e = unparen(e)
		if t.isNil(e) {
			return true
		}
		if tv, has := info.Types[e]; has && tv.Value != nil {
			switch tv.Value.Kind() {
			case constant.Int:
				return tv.Value.String() == "0"
			case constant.Bool:
				return !constant.BoolVal(tv.Value)
			case constant.String:
				return constant.StringVal(tv.Value) == ""
			}
			return false
		}
		if cl, isCl := e.(*ast.CompositeLit); isCl {
			return len(cl.Elts) == 0
		}
		return false
	}
	ast.Inspect(callee.fi.decl.Body, func(m ast.Node) bool {
		switch x := m.(type) {
		case *ast.FuncLit:
			return false
		case *ast.ReturnStmt:
			if len(x.Results) != n {
				ok = false
				return false
			}
			if t.isNil(x.Results[n-1]) {
				return true
			}
			for _, r := range x.Results[:n-1] {
				if !zeroLit(r) {
					ok = false
				}
			}
		}
		return ok
	})
	return ok
}

// joinBranches: an if / switch some of whose branches leave (return, break, continue) while at
// least three fall through: instead of copying the rest of the block into every branch, the rest
// becomes a local function of the variables the branches assign.  Not used when a branch assigns
// an error variable (its nil-ness is tracked per branch by the copies).
func (t *loopTr) joinBranches(at ast.Node, brs []lbranch, els []ast.Stmt, rest []ast.Stmt, c *lctx, ps []pre, cond string) (string, bool, error) {
	if len(rest) == 0 || c.noRet {
		return "", false, nil
	}
	all := [][]ast.Stmt{els}
	falls := 0
	fallsThrough := func(ss []ast.Stmt) bool {
		if len(ss) == 0 {
			return true
		}
		switch x := ss[len(ss)-1].(type) {
		case *ast.ReturnStmt:
			return false
		case *ast.BranchStmt:
			return x.Tok != token.BREAK && x.Tok != token.CONTINUE
		}
		return true
	}
	if fallsThrough(els) {
		falls++
	}
	for _, b := range brs {
		all = append(all, b.body)
		if fallsThrough(b.body) {
			falls++
		}
		if b.cond != nil && t.effectful(b.cond) {
			return "", false, nil
		}
	}
	if falls < 3 {
		return "", false, nil
	}
	w := t.assignedOuter(all, at.Pos(), at.End())
	for _, o := range w {
		if isErrorType(o.Type()) || t.optPtr[o] {
			return "", false, nil
		}
	}
	var wn, wt []string
	for _, o := range w {
		n, ok := t.names[o]
		if !ok {
			return "", false, nil
		}
		ct, err := t.cp.trType(o.Type())
		if err != nil {
			return "", false, nil
		}
		wn = append(wn, n)
		wt = append(wt, paren(ct))
	}
	sv := t.saveTrack()
	k := t.freshName("join")
	tup, _, _ := tupleOf(wn)
	call := k + " " + paren(tup)
	bc := &lctx{tail: call, ret: c.ret, brk: c.brk, cont: c.cont}
	conds := []branch{{cond, nil}}
	var bodies []string
	for i, b := range brs {
		if i > 0 {
			cs := b.text
			if b.cond != nil {
				var err error
				if cs, err = t.expr(b.cond); err != nil {
					return "", false, err
				}
			}
			conds = append(conds, branch{cs, nil})
		}
		s, err := t.lstmts(b.body, bc)
		t.restoreTrack(sv)
		if err != nil {
			return "", false, err
		}
		bodies = append(bodies, s)
	}
	e, err := t.lstmts(els, bc)
	t.restoreTrack(sv)
	if err != nil {
		return "", false, err
	}
	t.forget(all)
	r, err := t.lstmts(rest, c)
	if err != nil {
		return "", false, err
	}
	if err := t.emitEffect(at); err != nil {
		return "", false, err
	}
	var lam string
	switch len(wn) {
	case 0:
		lam = "fun _ : unit =>"
	case 1:
		lam = fmt.Sprintf("fun (%s : %s) =>", wn[0], wt[0])
	default:
		lam = fmt.Sprintf("fun (st : %s) =>\n  let '%s := st in", strings.Join(wt, " * "), tup)
	}
	return seq(ps, fmt.Sprintf("let %s := %s\n%s in\n%s", k, lam, indent(r), ifChain(conds, bodies, e))), true, nil
}

// ---------- tags of the variable headers (for the fallback) ----------

// coreVarText: the declaration of a Section variable of a Core file; the header carries the
// position of the variable in the section ([ord n]) and, for a variable of the bundle of the
// generic functions, what it is ([bundle V Compare]), so that a later run can use the declaration
// of the snapshot with the same order and the same instantiation
func coreVarText(ex *loopExtern) string {
	tag := fmt.Sprintf(" [ord %d]", ex.ord)
	if ex.bundle {
		sfx := ex.suffix
		if sfx == "" {
			sfx = "-"
		}
		tag += fmt.Sprintf(" [bundle %s %s]", ex.owner, sfx)
	}
	hdr := ex.hdr
	if strings.HasSuffix(hdr, " *)") {
		hdr = strings.TrimSuffix(hdr, " *)") + tag + " *)"
	}
	return hdr + "\nVariable " + ex.name + " : " + ex.typ + "."
}

var ordTagRe = regexp.MustCompile(`\[ord (-?[0-9]+)\]`)
var bundleTagRe = regexp.MustCompile(`\[bundle (\S+) (\S+)\]`)
var varDeclRe = regexp.MustCompile(`(?s)\nVariable (\S+) : (.*)\.$`)

// snapExtern: a Section variable of the snapshot
func snapExtern(it *snapItem) *loopExtern {
	m := varDeclRe.FindStringSubmatch(it.text)
	if m == nil {
		return nil
	}
	hdr := strings.SplitN(it.text, "\n", 2)[0]
	ex := &loopExtern{name: m[1], typ: m[2], hdr: hdr, ord: 1<<29 + it.line}
	if o := ordTagRe.FindStringSubmatch(hdr); o != nil {
		fmt.Sscanf(o[1], "%d", &ex.ord)
		ex.hdr = strings.Replace(ex.hdr, " "+o[0], "", 1)
	}
	if b := bundleTagRe.FindStringSubmatch(hdr); b != nil {
		ex.bundle, ex.owner, ex.suffix = true, b[1], b[2]
		if ex.suffix == "-" {
			ex.suffix = ""
		}
		ex.hdr = strings.Replace(ex.hdr, " "+b[0], "", 1)
	}
	return ex
}
