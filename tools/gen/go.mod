module verif/gen

go 1.23
