// loops.go — translation of the Go functions WITH loops, index and slice expressions into the
// imperative layer coq/Base/Imp.v (coq/Gen/Loops/<Pkg>.v).  The scheme, the output format and
// the fallback policy are described in LOOPS.md.  The type / expression / naming machinery is
// the one of code.go (fnTr); this file adds the effectful expression forms, the monadic
// statement translation and the loops.
package main

import (
	"fmt"
	"go/ast"
	"go/constant"
	"go/token"
	"go/types"
	"os"
	"path/filepath"
	"sort"
	"strings"
)

// ---------- per-package state ----------

const (
	lmSkipped = iota
	lmPure    // plain Gallina value (the wide types were the only obstacle)
	lmRes     // res T (index / slice / division), no loop
	lmFuel    // res T with a fuel parameter
)

type loopFn struct {
	code  *funcInfo // the function as code.go sees it
	fi    *funcInfo // signature in the wide fragment
	state int       // 0 new, 1 in progress, 2 done
	mode  int
	skip  string
	body  string
	uses  []string // names of the package-level callees (definitions and variables)
	ascii []string
	// for parse.go
	inLoops bool     // Gen/Loops has a definition (fresh or fallback)
	vars    []string // Section variables of Gen/Loops the definition depends on, in section order
	prev    bool     // parse pass: the function is the one Gen/Loops defines
	// core.go
	from    *loopPkg // the earlier pass that defines the function (prev)
	post    bool     // the function instantiates a generic function: it lives in Section Instances
	records []string // local struct types: the Record items emitted before the definition
	lits    int      // numbering of the oracles for error texts
}

type loopExtern struct {
	name   string
	typ    string
	hdr    string
	ord    int
	bundle bool // core.go: part of the method bundle of a generic function (type parameter, method, zero value)
	owner  string // core.go: the type parameter or abstract receiver the bundle variable belongs to (V, VR, E)
	suffix string // core.go: "" for the type itself, else the method name / "zero"
}

type loopPkg struct {
	cp      *codePkg
	fns     []*loopFn
	byObj   map[*types.Func]*loopFn
	byName  map[string]*loopFn
	externs map[string]*loopExtern
	// parse.go
	parse  bool                   // the pass that writes Gen/Parse
	before *loopPkg               // parse pass: the Gen/Loops pass of the same package
	consts map[string]*loopExtern // generated constants (regexp group counts, map tables)
	snap   map[string]*snapItem   // the snapshot of the file being written (nil: none)
	// core.go
	core        bool                   // the pass that writes Gen/Parse/<Pkg>Core.v
	inPost      bool                   // the function being translated lives in Section Instances
	postExterns map[string]*loopExtern // the Section variables of Section Instances
	postMemo    map[*loopFn]int
}

type pre struct{ pat, rhs string }

type lctx struct {
	tail  string              // what a statement list that runs to its end continues with ("" = must return)
	ret   func(string) string // `return v`
	brk   string              // `break` ("" = not inside a loop)
	cont  string              // `continue`
	noRet bool                // parse.go: inside an assign-only `if` (no return can occur; the tail is a tuple)
}

type loopTr struct {
	*fnTr
	lp       *loopPkg
	fn       *loopFn
	pure     bool // second pass for a function without effects: no monad
	effect   bool
	usesFuel bool
	uses     map[string]bool
	// parse.go: statically tracked nil-ness (error variables, FindStringSubmatch results) and
	// variables whose Go value is not modelled on the current path
	nilState map[types.Object]int
	poison   map[types.Object]bool
	// core.go
	optPtr   map[types.Object]bool   // pointer variables that may be nil: option
	abstract map[types.Object]string // abstract receivers (dropped interface parameters, values of foreign types): prefix of their method variables
	funVals  map[types.Object]bool   // local variables that hold a function value
	nilTypes map[*ast.Ident]types.Type
}

// ---------- effects ----------

// effectful: does the evaluation of e involve a checked primitive or a call that returns res?
func (t *loopTr) effectful(e ast.Node) bool {
	found := false
	ast.Inspect(e, func(n ast.Node) bool {
		if found {
			return false
		}
		switch x := n.(type) {
		case *ast.FuncLit:
			return false
		case *ast.SelectorExpr, *ast.StarExpr:
			if t.lp.core && t.coreEffectful(x) {
				found = true
			}
		case *ast.IndexExpr:
			ty := t.cp.info.TypeOf(x.X)
			if ty != nil {
				switch u := ty.Underlying().(type) {
				case *types.Slice:
					found = true
				case *types.Basic:
					if u.Info()&types.IsString != 0 {
						if tv, ok := t.cp.info.Types[x]; !ok || tv.Value == nil {
							found = true
						}
					}
				}
			}
		case *ast.SliceExpr:
			found = true
		case *ast.BinaryExpr:
			if x.Op == token.QUO || x.Op == token.REM {
				if tv, ok := t.cp.info.Types[x]; !ok || tv.Value == nil {
					found = true
				}
			}
		case *ast.CallExpr:
			if fn := t.localFunc(x); fn != nil {
				if callee := t.lp.byObj[fn.Origin()]; callee != nil && !callee.code.inCode {
					t.lp.ensure(callee)
					if callee.state == 2 && (callee.mode == lmRes || callee.mode == lmFuel) {
						found = true
					}
				}
			}
			if t.lp.core && t.coreEffectful(x) {
				found = true
			}
		case *ast.ForStmt, *ast.RangeStmt:
			found = true
		}
		return !found
	})
	return found
}

// localFunc: the function or method of this package that a call expression calls, or nil.
func (t *loopTr) localFunc(x *ast.CallExpr) *types.Func {
	fun := x.Fun
	if p, ok := fun.(*ast.ParenExpr); ok {
		fun = p.X
	}
	switch f := fun.(type) {
	case *ast.Ident:
		if fn, ok := t.cp.info.ObjectOf(f).(*types.Func); ok && fn.Pkg() == t.cp.pkg {
			return fn
		}
	case *ast.SelectorExpr:
		if sel := t.cp.info.Selections[f]; sel != nil && sel.Kind() == types.MethodVal {
			if fn, ok := sel.Obj().(*types.Func); ok && fn.Pkg() == t.cp.pkg {
				return fn
			}
		}
	}
	return nil
}

// fresh: base, base1, base2, ... (generated names: temporaries, loop results)
func (t *loopTr) freshName(base string) string {
	for k := 0; ; k++ {
		n := base
		if k > 0 {
			n = fmt.Sprintf("%s%d", base, k)
		}
		if !coqReserved[n] && !t.cp.globals[n] && !t.used[n] {
			t.used[n] = true
			return n
		}
	}
}

func (t *loopTr) tmpIdent(base string, typ types.Type) *ast.Ident {
	v := types.NewVar(token.NoPos, t.cp.pkg, base, typ)
	name := t.freshName(base)
	t.names[v] = name
	id := &ast.Ident{Name: name}
	t.cp.info.Uses[id] = v
	return id
}

func (t *loopTr) copyType(dst, src ast.Expr) {
	if tv, ok := t.cp.info.Types[src]; ok {
		t.cp.info.Types[dst] = tv
	}
}

func (t *loopTr) emitEffect(n ast.Node) error {
	if t.pure {
		return t.errAt(n, "internal: effect in the pure pass")
	}
	t.effect = true
	return nil
}

// hoist rewrites e into an expression of the pure fragment; the checked primitives inside it
// are bound to fresh names by the returned bindings, which run first, in evaluation order.
func (t *loopTr) hoist(e ast.Expr) (ast.Expr, []pre, error) {
	if !t.effectful(e) {
		return e, nil, nil
	}
	if err := t.emitEffect(e); err != nil {
		return nil, nil, err
	}
	info := t.cp.info
	if t.lp.core {
		if h, ps, ok, err := t.coreHoist(e); ok || err != nil {
			return h, ps, err
		}
	}
	switch x := e.(type) {
	case *ast.ParenExpr:
		return t.hoist(x.X)
	case *ast.IndexExpr:
		if _, isMap := info.TypeOf(x.X).Underlying().(*types.Map); isMap && t.lp.parse {
			ix, ps, err := t.hoist(x.Index)
			if err != nil {
				return nil, nil, err
			}
			nx := *x
			nx.Index = ix
			t.copyType(&nx, x)
			return &nx, ps, nil
		}
		xs, p1, err := t.hoist(x.X)
		if err != nil {
			return nil, nil, err
		}
		ix, p2, err := t.hoist(x.Index)
		if err != nil {
			return nil, nil, err
		}
		if t.kind(x.Index) != types.Int {
			return nil, nil, t.errAt(e, "index of a type other than int")
		}
		sx, err := t.expr(xs)
		if err != nil {
			return nil, nil, err
		}
		si, err := t.expr(ix)
		if err != nil {
			return nil, nil, err
		}
		ty := info.TypeOf(e)
		if _, err := t.cp.trType(ty); err != nil {
			return nil, nil, t.errAt(e, "element of %s", err.Error())
		}
		base := "e"
		if t.kind(e) == types.Uint8 {
			base = "c"
		}
		tmp := t.tmpIdent(base, ty)
		ps := append(append(p1, p2...), pre{tmp.Name, app("idx", sx, si)})
		return tmp, ps, nil
	case *ast.SliceExpr:
		if x.Slice3 {
			return nil, nil, t.errAt(e, "three-index slice")
		}
		xs, ps, err := t.hoist(x.X)
		if err != nil {
			return nil, nil, err
		}
		sx, err := t.expr(xs)
		if err != nil {
			return nil, nil, err
		}
		ty := info.TypeOf(e)
		if _, err := t.cp.trType(ty); err != nil {
			return nil, nil, t.errAt(e, "slice of %s", err.Error())
		}
		var b [2]string
		for k, be := range []ast.Expr{x.Low, x.High} {
			if be == nil {
				continue
			}
			h, p, err := t.hoist(be)
			if err != nil {
				return nil, nil, err
			}
			ps = append(ps, p...)
			if b[k], err = t.expr(h); err != nil {
				return nil, nil, err
			}
		}
		var rhs string
		switch {
		case x.Low != nil && x.High != nil:
			rhs = app("slice", sx, b[0], b[1])
		case x.Low != nil:
			rhs = app("slice_from", sx, b[0])
		case x.High != nil:
			rhs = app("slice_to", sx, b[1])
		default:
			return xs, ps, nil
		}
		tmp := t.tmpIdent("sl", ty)
		return tmp, append(ps, pre{tmp.Name, rhs}), nil
	case *ast.CompositeLit:
		if !t.lp.parse {
			break
		}
		var ps []pre
		nx := *x
		nx.Elts = nil
		for _, el := range x.Elts {
			if kv, ok := el.(*ast.KeyValueExpr); ok {
				h, p, err := t.hoist(kv.Value)
				if err != nil {
					return nil, nil, err
				}
				ps = append(ps, p...)
				nkv := *kv
				nkv.Value = h
				nx.Elts = append(nx.Elts, &nkv)
				continue
			}
			h, p, err := t.hoist(el)
			if err != nil {
				return nil, nil, err
			}
			ps = append(ps, p...)
			nx.Elts = append(nx.Elts, h)
		}
		t.copyType(&nx, x)
		return &nx, ps, nil
	case *ast.UnaryExpr:
		h, ps, err := t.hoist(x.X)
		if err != nil {
			return nil, nil, err
		}
		nx := *x
		nx.X = h
		t.copyType(&nx, x)
		return &nx, ps, nil
	case *ast.StarExpr:
		h, ps, err := t.hoist(x.X)
		if err != nil {
			return nil, nil, err
		}
		nx := *x
		nx.X = h
		t.copyType(&nx, x)
		return &nx, ps, nil
	case *ast.SelectorExpr:
		sel := info.Selections[x]
		if sel == nil || sel.Kind() != types.FieldVal {
			return nil, nil, t.errAt(e, "selector on an effectful expression")
		}
		h, ps, err := t.hoist(x.X)
		if err != nil {
			return nil, nil, err
		}
		nx := *x
		nx.X = h
		t.copyType(&nx, x)
		info.Selections[&nx] = sel
		return &nx, ps, nil
	case *ast.BinaryExpr:
		if x.Op == token.LAND || x.Op == token.LOR {
			hx, ps, err := t.hoist(x.X)
			if err != nil {
				return nil, nil, err
			}
			py, vy, err := t.mexpr(x.Y)
			if err != nil {
				return nil, nil, err
			}
			if len(py) == 0 {
				nx := *x
				nx.X = hx
				t.copyType(&nx, x)
				return &nx, ps, nil
			}
			// Go evaluates the right operand only when the left one does not decide
			sx, err := t.expr(hx)
			if err != nil {
				return nil, nil, err
			}
			right := "(" + strings.ReplaceAll(seq(py, "Done "+paren(vy)), "\n", " ") + ")"
			tmp := t.tmpIdent("b", info.TypeOf(e))
			var rhs string
			if x.Op == token.LAND {
				rhs = "(if " + sx + " then " + right + " else Done false)"
			} else {
				rhs = "(if " + sx + " then Done true else " + right + ")"
			}
			return tmp, append(ps, pre{tmp.Name, rhs}), nil
		}
		hx, ps, err := t.hoist(x.X)
		if err != nil {
			return nil, nil, err
		}
		hy, p2, err := t.hoist(x.Y)
		if err != nil {
			return nil, nil, err
		}
		ps = append(ps, p2...)
		if x.Op == token.QUO || x.Op == token.REM {
			if t.kind(x.X) != types.Int || t.kind(x.Y) != types.Int {
				return nil, nil, t.errAt(e, "operator %s on non-int", x.Op)
			}
			sx, err := t.expr(hx)
			if err != nil {
				return nil, nil, err
			}
			sy, err := t.expr(hy)
			if err != nil {
				return nil, nil, err
			}
			f := "go_div"
			if x.Op == token.REM {
				f = "go_rem"
			}
			tmp := t.tmpIdent("q", info.TypeOf(e))
			return tmp, append(ps, pre{tmp.Name, app(f, sx, sy)}), nil
		}
		nx := *x
		nx.X, nx.Y = hx, hy
		t.copyType(&nx, x)
		return &nx, ps, nil
	case *ast.CallExpr:
		var ps []pre
		nx := *x
		nx.Args = nil
		for _, a := range x.Args {
			h, p, err := t.hoist(a)
			if err != nil {
				return nil, nil, err
			}
			ps = append(ps, p...)
			nx.Args = append(nx.Args, h)
		}
		var recv ast.Expr
		if sel, ok := x.Fun.(*ast.SelectorExpr); ok && info.Selections[sel] != nil {
			h, p, err := t.hoist(sel.X)
			if err != nil {
				return nil, nil, err
			}
			ps = append(p, ps...)
			ns := *sel
			ns.X = h
			info.Selections[&ns] = info.Selections[sel]
			nx.Fun = &ns
			recv = h
		}
		t.copyType(&nx, x)
		if tv, ok := info.Types[x.Fun]; ok {
			info.Types[nx.Fun] = tv
		}
		if fn := t.localFunc(x); fn != nil {
			callee := t.lp.byObj[fn.Origin()]
			if callee != nil && !callee.code.inCode && callee.state == 2 && (callee.mode == lmRes || callee.mode == lmFuel) {
				var as []string
				if callee.prev {
					as = append(as, t.prevVars(callee)...)
				}
				if t.lp.core {
					vs, kept, err := t.coreCallVars(callee, x, nx.Args)
					if err != nil {
						return nil, nil, err
					}
					as = append(as, vs...)
					nx.Args = kept
				}
				if callee.mode == lmFuel {
					as = append(as, "fuel")
					t.usesFuel = true
				}
				if recv != nil {
					r, err := t.expr(recv)
					if err != nil {
						return nil, nil, err
					}
					as = append(as, r)
				}
				rest, err := t.args(nx.Args)
				if err != nil {
					return nil, nil, err
				}
				as = append(as, rest...)
				t.use(callee.fi.name)
				tmp := t.tmpIdent("r", info.TypeOf(e))
				return tmp, append(ps, pre{tmp.Name, app(callee.fi.name, as...)}), nil
			}
		}
		return &nx, ps, nil
	}
	return nil, nil, t.errAt(e, "effectful expression %T", e)
}

func seq(ps []pre, k string) string {
	var b strings.Builder
	for _, p := range ps {
		b.WriteString(p.pat + " <- " + p.rhs + " ;;\n")
	}
	b.WriteString(k)
	return b.String()
}

// mexpr: bindings that run first, then a pure expression.
func (t *loopTr) mexpr(e ast.Expr) ([]pre, string, error) {
	h, ps, err := t.hoist(e)
	if err != nil {
		return nil, "", err
	}
	v, err := t.expr(h)
	if err != nil {
		return nil, "", err
	}
	return ps, v, nil
}

func (t *loopTr) use(name string) {
	if !t.uses[name] {
		t.uses[name] = true
		t.fn.uses = append(t.fn.uses, name)
	}
}

// ---------- further pure expression forms (hook of fnTr.expr) ----------

var unicodePreds = map[string]string{
	"unicode.IsDigit":  "is_digit",
	"unicode.IsLetter": "is_letter",
	"unicode.IsSpace":  "is_space",
	"unicode.IsUpper":  "is_upper",
	"unicode.IsLower":  "is_lower",
}

func (t *loopTr) ext(e ast.Expr) (string, bool, error) {
	info := t.cp.info
	if t.lp.core {
		if s, ok, err := t.coreExt(e); ok || err != nil {
			return s, ok, err
		}
	}
	if t.lp.parse {
		if s, ok, err := t.parseExt(e); ok || err != nil {
			return s, ok, err
		}
	}
	x, ok := e.(*ast.CallExpr)
	if !ok {
		return "", false, nil
	}
	fail := func(err error) (string, bool, error) { return "", false, err }
	// conversions between the integer-like types
	if tv, ok := info.Types[x.Fun]; ok && tv.IsType() && len(x.Args) == 1 {
		from := t.kind(x.Args[0])
		to := types.Invalid
		if b, ok := tv.Type.Underlying().(*types.Basic); ok {
			switch b.Kind() {
			case types.Int, types.Int64:
				to = types.Int
			case types.Int32:
				to = types.Int32
			case types.Uint8:
				to = types.Uint8
			}
		}
		switch {
		case from == types.Uint8 && (to == types.Int32 || to == types.Int):
			a, err := t.expr(x.Args[0])
			if err != nil {
				return fail(err)
			}
			return app("byte_z", a), true, nil
		case from == types.Int32 && (to == types.Int || to == types.Int32), from == types.Uint8 && to == types.Uint8:
			a, err := t.expr(x.Args[0])
			return a, err == nil, err
		}
		return "", false, nil
	}
	if x.Ellipsis != token.NoPos {
		return "", false, nil
	}
	fun := x.Fun
	if p, ok := fun.(*ast.ParenExpr); ok {
		fun = p.X
	}
	// append(s, a, b) on a slice of the fragment
	if id, ok := fun.(*ast.Ident); ok {
		if b, ok := info.ObjectOf(id).(*types.Builtin); ok && b.Name() == "append" && len(x.Args) >= 1 {
			if _, err := t.cp.trType(info.TypeOf(x.Args[0])); err != nil {
				return fail(t.errAt(e, "append to %s", err.Error()))
			}
			as, err := t.args(x.Args)
			if err != nil {
				return fail(err)
			}
			if len(as) == 1 {
				return as[0], true, nil
			}
			return paren(as[0]) + " ++ [" + strings.Join(as[1:], "; ") + "]", true, nil
		}
	}
	// calls inside the package
	if fn := t.localFunc(x); fn != nil {
		callee := t.lp.byObj[fn.Origin()]
		if callee == nil {
			return "", false, nil
		}
		var recv ast.Expr
		if sel, ok := fun.(*ast.SelectorExpr); ok {
			recv = sel.X
		}
		var as []string
		if recv != nil {
			r, err := t.expr(recv)
			if err != nil {
				return fail(err)
			}
			as = append(as, r)
		}
		callArgs := x.Args
		var coreVars []string
		if t.lp.core && !callee.code.inCode {
			t.lp.ensure(callee)
			vs, kept, err := t.coreCallVars(callee, x, x.Args)
			if err != nil {
				return fail(err)
			}
			coreVars, callArgs = vs, kept
		}
		rest, err := t.args(callArgs)
		if err != nil {
			return fail(err)
		}
		as = append(as, rest...)
		if callee.code.inCode {
			// a definition of Gen/Code: it takes the Section variables it depends on first
			var vs []string
			for _, v := range callee.code.codeVars {
				d := t.lp.byName[v]
				if d == nil || !d.code.sigOK {
					return fail(t.errAt(e, "call of %s, which depends on %s of Gen/Code", callee.code.name, v))
				}
				// Gen/Code takes a total function: a function that Gen/Loops defines (with res and
				// fuel) is represented by a pure stand-in <name>_pure here
				t.lp.ensure(d)
				vn := d.code.name
				why := "outside both fragments: " + d.skip
				if d.state != 2 || d.skip == "" {
					vn = mangleGlobal(vn + "_pure")
					why = "total stand-in for " + d.code.name + ", which Gen/Code is generalised over"
				}
				t.lp.extern(vn, d.code.coqType(), fmt.Sprintf("(*@ var %s %s %s *)", vn, d.code.pos, cmt(why)), indexOf(t.cp.funcs, d.code))
				t.use(vn)
				vs = append(vs, vn)
			}
			if len(as) != len(callee.code.ptypes) {
				return fail(t.errAt(e, "call of %s with %d arguments", callee.code.name, len(as)))
			}
			t.use(callee.code.name)
			return app(callee.code.name, append(vs, as...)...), true, nil
		}
		t.lp.ensure(callee)
		if callee.state != 2 {
			return fail(t.errAt(e, "call of %s (call cycle)", callee.fi.name))
		}
		switch callee.mode {
		case lmPure:
			t.use(callee.fi.name)
			for _, q := range callee.ascii {
				t.asciis[q] = true
			}
			if callee.prev {
				as = append(t.prevVars(callee), as...)
			}
			as = append(coreVars, as...)
			if len(as) == 0 {
				return callee.fi.name, true, nil
			}
			return app(callee.fi.name, as...), true, nil
		case lmRes, lmFuel:
			return fail(t.errAt(e, "internal: effectful call of %s in a pure position", callee.fi.name))
		}
		// outside both fragments: a Section variable
		if !callee.fi.sigOK {
			return fail(t.errAt(e, "call of %s (signature outside the fragment: %s)", callee.fi.name, callee.fi.sigWhy))
		}
		if len(as) != len(callee.fi.ptypes)-len(callee.fi.dropped) {
			return fail(t.errAt(e, "call of %s with %d arguments", callee.fi.name, len(as)))
		}
		if callee.fi.tparams != nil {
			return fail(t.errAt(e, "call of the generic function %s, which is outside the fragment: %s", callee.fi.name, callee.skip))
		}
		t.lp.extern(callee.fi.name, callee.fi.coqType(), fmt.Sprintf("(*@ var %s %s outside both fragments: %s *)", callee.fi.name, callee.fi.pos, cmt(callee.skip)), indexOf(t.cp.funcs, callee.code))
		t.use(callee.fi.name)
		return app(callee.fi.name, as...), true, nil
	}
	sel, ok := fun.(*ast.SelectorExpr)
	if !ok {
		return "", false, nil
	}
	// <package regexp variable>.MatchString(s): a Section variable
	if s := info.Selections[sel]; s != nil && s.Kind() == types.MethodVal && sel.Sel.Name == "MatchString" && len(x.Args) == 1 {
		if id, ok := sel.X.(*ast.Ident); ok {
			if v, ok := info.ObjectOf(id).(*types.Var); ok && v.Parent() == t.cp.pkg.Scope() &&
				types.TypeString(v.Type(), nil) == "*regexp.Regexp" && t.kind(x.Args[0]) == types.String {
				a, err := t.expr(x.Args[0])
				if err != nil {
					return fail(err)
				}
				name := mangleGlobal(id.Name + "_MatchString")
				t.lp.extern(name, "bytes -> bool", fmt.Sprintf("(*@ var %s %s regular expression %s *)", name, t.cp.position(v.Pos()), cmt(t.lp.regexpSource(v))), -1000000+int(v.Pos()))
				t.use(name)
				return app(name, a), true, nil
			}
		}
		return "", false, nil
	}
	fn, _ := info.ObjectOf(sel.Sel).(*types.Func)
	if fn == nil || fn.Pkg() == nil || info.Selections[sel] != nil {
		return "", false, nil
	}
	q := fn.Pkg().Path() + "." + fn.Name()
	if p, ok := unicodePreds[q]; ok && len(x.Args) == 1 {
		// unicode.IsDigit(rune(c)) for a byte c
		arg := x.Args[0]
		if pe, ok := arg.(*ast.ParenExpr); ok {
			arg = pe.X
		}
		if cv, ok := arg.(*ast.CallExpr); ok && len(cv.Args) == 1 {
			if tv, ok := info.Types[cv.Fun]; ok && tv.IsType() && t.kind(cv.Args[0]) == types.Uint8 {
				a, err := t.expr(cv.Args[0])
				if err != nil {
					return fail(err)
				}
				t.asciis[q] = true
				return app(p, a), true, nil
			}
		}
		if t.lp.parse {
			return t.libOracle(x, fn, q)
		}
		return fail(t.errAt(e, "%s on a rune that is not a converted byte", q))
	}
	constArg := func(i int) (string, bool) {
		if tv, ok := info.Types[x.Args[i]]; ok && tv.Value != nil && tv.Value.Kind() == constant.String {
			return constant.StringVal(tv.Value), true
		}
		return "", false
	}
	switch q {
	case "strings.Split":
		if len(x.Args) == 2 && t.kind(x.Args[0]) == types.String {
			if sep, ok := constArg(1); ok && len(sep) >= 1 {
				a, err := t.expr(x.Args[0])
				if err != nil {
					return fail(err)
				}
				if len(sep) == 1 {
					return app("split_c", fmt.Sprintf("(chr %d)", sep[0]), a), true, nil
				}
				return app("split_sub", coqBytesLit(sep), a), true, nil
			}
		}
	case "strings.TrimLeft":
		if len(x.Args) == 2 && t.kind(x.Args[0]) == types.String {
			if cut, ok := constArg(1); ok && len(cut) == 1 && cut[0] < 128 {
				a, err := t.expr(x.Args[0])
				if err != nil {
					return fail(err)
				}
				return app("drop_while", fmt.Sprintf("(ceqb (chr %d))", cut[0]), a), true, nil
			}
		}
	}
	if t.lp.parse {
		return t.parseLib(x, fn, q)
	}
	return "", false, nil
}

// regexpSource: the pattern of `var v = regexp.MustCompile("...")`, for the comment.
func (lp *loopPkg) regexpSource(v *types.Var) string {
	for _, f := range lp.cp.files {
		for _, d := range f.Decls {
			gd, ok := d.(*ast.GenDecl)
			if !ok || gd.Tok != token.VAR {
				continue
			}
			for _, sp := range gd.Specs {
				vs := sp.(*ast.ValueSpec)
				for i, id := range vs.Names {
					if lp.cp.info.Defs[id] == v && i < len(vs.Values) {
						if c, ok := vs.Values[i].(*ast.CallExpr); ok && len(c.Args) == 1 {
							if tv, ok := lp.cp.info.Types[c.Args[0]]; ok && tv.Value != nil && tv.Value.Kind() == constant.String {
								return constant.StringVal(tv.Value)
							}
						}
					}
				}
			}
		}
	}
	return "?"
}

func (lp *loopPkg) extern(name, typ, hdr string, ord int) {
	if lp.inPost {
		if lp.postExterns[name] == nil {
			lp.postExterns[name] = &loopExtern{name: name, typ: typ, hdr: hdr, ord: ord}
		}
		return
	}
	if lp.externs[name] == nil {
		lp.externs[name] = &loopExtern{name: name, typ: typ, hdr: hdr, ord: ord}
	}
}

// ---------- statements ----------

func (t *loopTr) done(v string) string {
	if t.pure {
		return v
	}
	return "Done " + paren(v)
}

// hasJump: return, or break / continue that belongs to the enclosing loop
func hasJump(ss []ast.Stmt) bool {
	found := false
	for _, s := range ss {
		ast.Inspect(s, func(n ast.Node) bool {
			switch x := n.(type) {
			case *ast.ReturnStmt:
				found = true
			case *ast.BranchStmt:
				if x.Tok == token.BREAK || x.Tok == token.CONTINUE {
					found = true
				}
			case *ast.FuncLit:
				return false
			case *ast.ForStmt, *ast.RangeStmt:
				// a break / continue inside belongs to that loop; a return does not
				if mayReturn([]ast.Stmt{x.(ast.Stmt)}) {
					found = true
				}
				return false
			}
			return !found
		})
	}
	return found
}

func (t *loopTr) stmtsEffectful(ss []ast.Stmt) bool {
	for _, s := range ss {
		if t.effectful(s) {
			return true
		}
	}
	return false
}

func tupleOf(ns []string) (tup, lam, pat string) {
	switch len(ns) {
	case 0:
		return "tt", "fun _ : unit =>", "_"
	case 1:
		return ns[0], "fun " + ns[0] + " =>", ns[0]
	}
	tup = "(" + strings.Join(ns, ", ") + ")"
	return tup, "fun '" + tup + " =>", tup
}

func letOf(names []string, rhs []string, k string) string {
	if len(names) == 1 {
		return fmt.Sprintf("let %s := %s in\n%s", names[0], rhs[0], k)
	}
	return fmt.Sprintf("let '(%s) := (%s) in\n%s", strings.Join(names, ", "), strings.Join(rhs, ", "), k)
}

func (t *loopTr) lstmts(ss []ast.Stmt, c *lctx) (string, error) {
	if len(ss) == 0 {
		if c.tail == "" {
			return "", &skipErr{"control reaches the end of the function without return"}
		}
		return c.tail, nil
	}
	s, rest := ss[0], ss[1:]
	info := t.cp.info
	switch x := s.(type) {
	case *ast.EmptyStmt:
		return t.lstmts(rest, c)
	case *ast.BlockStmt:
		return t.lstmts(append(append([]ast.Stmt{}, x.List...), rest...), c)
	case *ast.ReturnStmt:
		if t.fn.fi.errRes {
			return t.returnErr(x, c)
		}
		if len(x.Results) > 1 && len(x.Results) == t.fn.fi.nres {
			var ps []pre
			var vs []string
			for _, re := range x.Results {
				p, v, err := t.mexpr(re)
				if err != nil {
					return "", err
				}
				ps = append(ps, p...)
				vs = append(vs, v)
			}
			if t.lp.core {
				return seq(ps, c.ret(t.withWriters("("+strings.Join(vs, ", ")+")"))), nil
			}
			return seq(ps, c.ret("("+strings.Join(vs, ", ")+")")), nil
		}
		if t.lp.core && len(x.Results) == 1 && t.fn.fi.nres > 1 {
			// return f(x) for a call with the same number of results
			if tup, ok := t.cp.info.TypeOf(x.Results[0]).(*types.Tuple); ok && tup.Len() == t.fn.fi.nres {
				ps, v, err := t.mexpr(x.Results[0])
				if err != nil {
					return "", err
				}
				return seq(ps, c.ret(t.withWriters(v))), nil
			}
		}
		if len(x.Results) != 1 || t.fn.fi.nres > 1 {
			return "", t.errAt(x, "return of %d values", len(x.Results))
		}
		ps, v, err := t.mexpr(x.Results[0])
		if err != nil {
			return "", err
		}
		if t.lp.core {
			v = t.withWriters(v)
		}
		return seq(ps, c.ret(v)), nil
	case *ast.BranchStmt:
		if x.Label != nil {
			return "", t.errAt(x, "labelled %s", x.Tok)
		}
		switch x.Tok {
		case token.BREAK:
			if c.brk != "" {
				return c.brk, nil
			}
		case token.CONTINUE:
			if c.cont != "" {
				return c.cont, nil
			}
		}
		return "", t.errAt(x, "%s", x.Tok.String())
	case *ast.DeclStmt:
		gd, ok := x.Decl.(*ast.GenDecl)
		if ok && gd.Tok == token.TYPE && t.lp.core {
			if err := t.localTypes(gd); err != nil {
				return "", err
			}
			return t.lstmts(rest, c)
		}
		if !ok || gd.Tok == token.TYPE {
			return "", t.errAt(x, "local declaration")
		}
		if gd.Tok == token.CONST {
			return t.lstmts(rest, c)
		}
		var out []string
		for _, sp := range gd.Specs {
			vs := sp.(*ast.ValueSpec)
			if len(vs.Values) != 0 && len(vs.Values) != len(vs.Names) {
				return "", t.errAt(x, "multi-value declaration")
			}
			var rhs []string
			for i, id := range vs.Names {
				if t.lp.parse && len(vs.Values) == 0 && isErrorType(info.ObjectOf(id).Type()) {
					t.nilState[info.ObjectOf(id)] = 1 // var err error: statically nil
					rhs = append(rhs, "")
					continue
				}
				if t.lp.core && len(vs.Values) == 0 && t.optPtr[info.ObjectOf(id)] {
					rhs = append(rhs, t.optNone(info.ObjectOf(id)))
					continue
				}
				if len(vs.Values) == 0 {
					v, err := t.cp.zero(info.ObjectOf(id).Type())
					if err != nil {
						return "", t.errAt(x, "%s", err.Error())
					}
					rhs = append(rhs, v)
					continue
				}
				ps, v, err := t.mexpr(vs.Values[i])
				if err != nil {
					return "", err
				}
				if len(ps) > 0 {
					out = append(out, seq(ps, ""))
				}
				rhs = append(rhs, v)
			}
			for i, id := range vs.Names {
				if id.Name == "_" {
					continue
				}
				o := info.ObjectOf(id)
				if t.lp.parse && rhs[i] == "" && isErrorType(o.Type()) {
					continue
				}
				if _, err := t.cp.trType(o.Type()); err != nil {
					return "", t.errAt(x, "variable %s of %s", id.Name, err.Error())
				}
				out = append(out, fmt.Sprintf("let %s := %s in\n", t.bind(o, id.Name), rhs[i]))
			}
		}
		r, err := t.lstmts(rest, c)
		if err != nil {
			return "", err
		}
		return strings.Join(out, "") + r, nil
	case *ast.AssignStmt:
		return t.lassign(x, rest, c)
	case *ast.IncDecStmt:
		id, ok := x.X.(*ast.Ident)
		if !ok || t.kind(x.X) != types.Int {
			return "", t.errAt(x, "increment of a non-local")
		}
		cur, err := t.expr(id)
		if err != nil {
			return "", err
		}
		op := "+"
		if x.Tok == token.DEC {
			op = "-"
		}
		r, err := t.lstmts(rest, c)
		if err != nil {
			return "", err
		}
		return fmt.Sprintf("let %s := wrap64 (%s %s 1) in\n%s", cur, cur, op, r), nil
	case *ast.IfStmt:
		if x.Init != nil {
			cp := *x
			cp.Init = nil
			return t.lstmts(append([]ast.Stmt{x.Init, &cp}, rest...), c)
		}
		var brs []lbranch
		var els []ast.Stmt
		cur := x
		for {
			if cur.Init != nil {
				els = []ast.Stmt{cur}
				break
			}
			brs = append(brs, lbranch{cond: cur.Cond, body: cur.Body.List})
			if nx, ok := cur.Else.(*ast.IfStmt); ok {
				cur = nx
				continue
			}
			els = blockOf(cur.Else)
			break
		}
		return t.lbranches(x, brs, els, rest, c)
	case *ast.SwitchStmt:
		if x.Init != nil {
			cp := *x
			cp.Init = nil
			return t.lstmts(append([]ast.Stmt{x.Init, &cp}, rest...), c)
		}
		pre := ""
		tag := ""
		tagKind := types.Invalid
		if x.Tag != nil {
			tagKind = t.kind(x.Tag)
			if tagKind == types.Invalid {
				return "", t.errAt(x, "switch on a value outside the fragment")
			}
			ps, e, err := t.mexpr(x.Tag)
			if err != nil {
				return "", err
			}
			pre = seq(ps, "")
			if !strings.ContainsAny(e, " ") {
				tag = e
			} else {
				tag = t.freshName("tag")
				pre += fmt.Sprintf("let %s := %s in\n", tag, e)
			}
		}
		var brs []lbranch
		var els []ast.Stmt
		for _, cl := range x.Body.List {
			cc := cl.(*ast.CaseClause)
			for _, b := range cc.Body {
				bad := ""
				ast.Inspect(b, func(n ast.Node) bool {
					if br, ok := n.(*ast.BranchStmt); ok && br.Tok != token.CONTINUE {
						bad = br.Tok.String()
					}
					switch n.(type) {
					case *ast.ForStmt, *ast.RangeStmt, *ast.SwitchStmt, *ast.TypeSwitchStmt, *ast.SelectStmt, *ast.FuncLit:
						return false
					}
					return true
				})
				if bad != "" {
					return "", t.errAt(b, "%s in switch", bad)
				}
			}
			if cc.List == nil {
				els = cc.Body
				continue
			}
			var conds []string
			for _, ce := range cc.List {
				if t.effectful(ce) {
					return "", t.errAt(ce, "effectful case expression")
				}
				v, err := t.expr(ce)
				if err != nil {
					return "", err
				}
				if x.Tag == nil {
					conds = append(conds, v)
					continue
				}
				if t.kind(ce) != tagKind {
					return "", t.errAt(ce, "case of another type than the tag")
				}
				switch tagKind {
				case types.Int, types.Int32:
					conds = append(conds, app("Z.eqb", tag, v))
				case types.String:
					conds = append(conds, app("beq", tag, v))
				case types.Bool:
					conds = append(conds, app("Bool.eqb", tag, v))
				case types.Uint8:
					conds = append(conds, app("ceqb", tag, v))
				}
			}
			cd := conds[0]
			for _, d := range conds[1:] {
				cd = app("orb", cd, d)
			}
			brs = append(brs, lbranch{text: cd, body: cc.Body})
		}
		r, err := t.lbranches(x, brs, els, rest, c)
		if err != nil {
			return "", err
		}
		return pre + r, nil
	case *ast.ForStmt:
		return t.forLoop(x, rest, c)
	case *ast.RangeStmt:
		return t.rangeWhile(x, rest, c)
	case *ast.ExprStmt:
		if t.lp.parse {
			return t.exprStmt(x, rest, c)
		}
		return "", t.errAt(x, "expression statement (effect)")
	case *ast.GoStmt:
		return "", t.errAt(x, "goroutine")
	case *ast.DeferStmt:
		return "", t.errAt(x, "defer")
	case *ast.TypeSwitchStmt:
		return "", t.errAt(x, "type switch")
	case *ast.LabeledStmt:
		return "", t.errAt(x, "label")
	case *ast.SelectStmt:
		return "", t.errAt(x, "select")
	case *ast.SendStmt:
		return "", t.errAt(x, "channel send")
	}
	return "", t.errAt(s, "statement %T", s)
}

func (t *loopTr) lassign(x *ast.AssignStmt, rest []ast.Stmt, c *lctx) (string, error) {
	info := t.cp.info
	target := func(l ast.Expr) (string, error) {
		id, ok := l.(*ast.Ident)
		if !ok {
			return "", t.errAt(x, "assignment to a non-local (field, element or pointer target)")
		}
		if id.Name == "_" {
			return "_", nil
		}
		o := info.ObjectOf(id)
		v, isVar := o.(*types.Var)
		if !isVar || v.Parent() == t.cp.pkg.Scope() {
			return "", t.errAt(x, "assignment to package variable %s", id.Name)
		}
		if _, err := t.cp.trType(o.Type()); err != nil {
			return "", t.errAt(x, "variable %s of %s", id.Name, err.Error())
		}
		if _, known := t.names[o]; !known && info.Defs[id] == nil {
			return "", t.errAt(x, "variable %s defined outside the fragment", id.Name)
		}
		return t.bind(o, id.Name), nil
	}
	if t.lp.core {
		if s, ok, err := t.coreAssign(x, target, rest, c); ok || err != nil {
			return s, err
		}
	}
	if t.lp.parse {
		if s, ok, err := t.parseAssign(x, target, rest, c); ok || err != nil {
			return s, err
		}
	}
	if x.Tok != token.DEFINE && x.Tok != token.ASSIGN {
		id, ok := x.Lhs[0].(*ast.Ident)
		if !ok || len(x.Lhs) != 1 {
			return "", t.errAt(x, "assignment to a non-local")
		}
		var op token.Token
		switch x.Tok {
		case token.ADD_ASSIGN:
			op = token.ADD
		case token.SUB_ASSIGN:
			op = token.SUB
		case token.MUL_ASSIGN:
			op = token.MUL
		case token.QUO_ASSIGN:
			op = token.QUO
		case token.REM_ASSIGN:
			op = token.REM
		default:
			return "", t.errAt(x, "assignment operator %s", x.Tok)
		}
		if _, err := t.expr(id); err != nil {
			return "", err
		}
		ps, v, err := t.mexpr(&ast.BinaryExpr{X: id, OpPos: x.TokPos, Op: op, Y: x.Rhs[0]})
		if err != nil {
			return "", err
		}
		r, err := t.lstmts(rest, c)
		if err != nil {
			return "", err
		}
		return seq(ps, fmt.Sprintf("let %s := %s in\n%s", t.names[info.ObjectOf(id)], v, r)), nil
	}
	// x, _ := strconv.Atoi(s): the value Atoi returns when its error is ignored
	if len(x.Lhs) == 2 && len(x.Rhs) == 1 {
		if id, ok := x.Lhs[1].(*ast.Ident); ok && id.Name == "_" {
			if call, ok := x.Rhs[0].(*ast.CallExpr); ok && len(call.Args) == 1 {
				if sel, ok := call.Fun.(*ast.SelectorExpr); ok {
					if fn, _ := info.ObjectOf(sel.Sel).(*types.Func); fn != nil && fn.Pkg() != nil && fn.Pkg().Path()+"."+fn.Name() == "strconv.Atoi" {
						ps, a, err := t.mexpr(call.Args[0])
						if err != nil {
							return "", err
						}
						n, err := target(x.Lhs[0])
						if err != nil {
							return "", err
						}
						r, err := t.lstmts(rest, c)
						if err != nil {
							return "", err
						}
						return seq(ps, fmt.Sprintf("let %s := %s in\n%s", n, app("atoi_sat", a), r)), nil
					}
				}
			}
		}
	}
	// a, ok := f(x) for a function of the package with several results of the fragment
	if len(x.Lhs) > 1 && len(x.Rhs) == 1 {
		if call, ok := x.Rhs[0].(*ast.CallExpr); ok {
			if fn := t.localFunc(call); fn != nil {
				if callee := t.lp.byObj[fn.Origin()]; callee != nil && callee.fi.sigOK && callee.fi.nres == len(x.Lhs) && !callee.code.inCode {
					ps, v, err := t.mexpr(call)
					if err != nil {
						return "", err
					}
					var names []string
					for _, l := range x.Lhs {
						n, err := target(l)
						if err != nil {
							return "", err
						}
						names = append(names, n)
					}
					r, err := t.lstmts(rest, c)
					if err != nil {
						return "", err
					}
					return seq(ps, fmt.Sprintf("let '(%s) := %s in\n%s", strings.Join(names, ", "), v, r)), nil
				}
			}
		}
	}
	if len(x.Lhs) != len(x.Rhs) {
		return "", t.errAt(x, "multi-value assignment (a call with several results)")
	}
	var ps []pre
	var rhs []string
	for _, r := range x.Rhs {
		p, v, err := t.mexpr(r)
		if err != nil {
			return "", err
		}
		ps = append(ps, p...)
		rhs = append(rhs, v)
	}
	var names []string
	for _, l := range x.Lhs {
		n, err := target(l)
		if err != nil {
			return "", err
		}
		names = append(names, n)
	}
	r, err := t.lstmts(rest, c)
	if err != nil {
		return "", err
	}
	// x := s[i]  is  x <- idx s i
	if len(names) == 1 && len(ps) > 0 && ps[len(ps)-1].pat == rhs[0] && names[0] != "_" {
		ps[len(ps)-1].pat = names[0]
		return seq(ps, r), nil
	}
	return seq(ps, letOf(names, rhs, r)), nil
}

type lbranch struct {
	cond ast.Expr
	text string // a condition that is already translated (switch)
	body []ast.Stmt
}

func (t *loopTr) lbranches(at ast.Node, brs []lbranch, els []ast.Stmt, rest []ast.Stmt, c *lctx) (string, error) {
	if t.lp.parse {
		var err error
		if brs, els, err = t.foldNilTests(brs, els); err != nil {
			return "", err
		}
	}
	if len(brs) == 0 {
		return t.lstmts(append(append([]ast.Stmt{}, els...), rest...), c)
	}
	jump := hasJump(els)
	all := [][]ast.Stmt{els}
	for _, b := range brs {
		all = append(all, b.body)
		jump = jump || hasJump(b.body)
	}
	// the conditions: the first one is evaluated here, the later ones only when reached
	// (an effectful later condition nests the remaining chain into the else branch)
	first := brs[0]
	var ps []pre
	cond := first.text
	if first.cond != nil {
		var err error
		ps, cond, err = t.mexpr(first.cond)
		if err != nil {
			return "", err
		}
	}
	laterEffect := false
	for _, b := range brs[1:] {
		if b.cond != nil && t.effectful(b.cond) {
			laterEffect = true
		}
	}
	if t.lp.core && jump && !laterEffect && !t.pure {
		if s, ok, err := t.joinBranches(at, brs, els, rest, c, ps, cond); ok || err != nil {
			return s, err
		}
	}
	if jump || laterEffect {
		sv := t.saveTrack()
		body, err := t.lstmts(append(append([]ast.Stmt{}, first.body...), rest...), c)
		t.restoreTrack(sv)
		if err != nil {
			return "", err
		}
		if err := t.grow(at, body); err != nil {
			return "", err
		}
		e, err := t.lbranches(at, brs[1:], els, rest, c)
		t.restoreTrack(sv)
		if err != nil {
			return "", err
		}
		if err := t.grow(at, e); err != nil {
			return "", err
		}
		return seq(ps, ifChain([]branch{{cond, nil}}, []string{body}, e)), nil
	}
	// no branch leaves: the statement only assigns
	w := t.assignedOuter(all, at.Pos(), at.End())
	if t.lp.parse {
		w = t.dropTracked(w)
	}
	sv := t.saveTrack()
	var wn []string
	for _, o := range w {
		n, ok := t.names[o]
		if !ok {
			return "", t.errAt(at, "assignment to %s, which is defined outside the fragment", o.Name())
		}
		wn = append(wn, n)
	}
	tup, _, pat := tupleOf(wn)
	if len(wn) > 1 {
		pat = "'" + pat
	}
	eff := t.stmtsEffectful(first.body) || t.stmtsEffectful(els)
	for _, b := range brs[1:] {
		eff = eff || t.stmtsEffectful(b.body)
	}
	if eff {
		if err := t.emitEffect(at); err != nil {
			return "", err
		}
	}
	tail := tup
	if eff {
		tail = "Done " + paren(tup)
	}
	bc := &lctx{tail: tail, ret: c.ret, noRet: true}
	conds := []branch{{cond, nil}}
	var bodies []string
	for i, b := range brs {
		if i > 0 {
			cs := b.text
			if b.cond != nil {
				var err error
				if cs, err = t.expr(b.cond); err != nil {
					return "", err
				}
			}
			conds = append(conds, branch{cs, nil})
		}
		s, err := t.lstmts(b.body, bc)
		t.restoreTrack(sv)
		if err != nil {
			return "", err
		}
		bodies = append(bodies, s)
	}
	e, err := t.lstmts(els, bc)
	t.restoreTrack(sv)
	if err != nil {
		return "", err
	}
	if t.lp.parse {
		t.forget(all)
	}
	r, err := t.lstmts(rest, c)
	if err != nil {
		return "", err
	}
	if len(wn) == 0 && !eff {
		return seq(ps, r), nil
	}
	if eff {
		return seq(ps, fmt.Sprintf("%s <-\n%s ;;\n%s", pat, indent("("+ifChain(conds, bodies, e)+")"), r)), nil
	}
	return seq(ps, fmt.Sprintf("let %s :=\n%s in\n%s", pat, indent(ifChain(conds, bodies, e)), r)), nil
}

// ---------- loops ----------

// emitWhile: the loop with the given state variables, condition and body, followed by rest.
//
//	cond: bindings and a boolean ("" = no condition); head: text that runs at the start of every
//	iteration after the condition (range loops: the element); post: the statements of `continue`.
func (t *loopTr) emitWhile(at ast.Node, state []string, condPre []pre, cond string, head string, body []ast.Stmt, post func(k string) (string, error), rest []ast.Stmt, c *lctx) (string, error) {
	if err := t.emitEffect(at); err != nil {
		return "", err
	}
	t.usesFuel = true
	tup, lam, pat := tupleOf(state)
	next, err := post("Done (Next " + paren(tup) + ")")
	if err != nil {
		return "", err
	}
	brk := "Done (Break " + paren(tup) + ")"
	ic := &lctx{tail: next, ret: func(v string) string { return "Done (Ret " + paren(v) + ")" }, brk: brk, cont: next}
	sv := t.saveTrack()
	b, err := t.lstmts(body, ic)
	t.restoreTrack(sv)
	if err != nil {
		return "", err
	}
	b = head + b
	if cond != "" {
		b = seq(condPre, "if "+cond+" then\n"+indent(b)+"\nelse\n"+indent(brk))
	}
	lp := t.freshName("lp")
	r := t.freshName("r")
	k, err := t.lstmts(rest, c)
	if err != nil {
		return "", err
	}
	if err := t.grow(at, b); err != nil {
		return "", err
	}
	fellPat := pat
	if len(state) > 0 {
		fellPat = paren(pat)
	}
	if c.noRet && t.lp.parse {
		// the loop contains no return and its continuation is not of the function's result type
		lpat := pat
		if len(state) > 1 {
			lpat = "'" + pat
		}
		return fmt.Sprintf("%s <- while (R := %s) fuel (%s\n%s) %s ;;\nlet %s := fell %s %s in\n%s",
			lp, t.fn.fi.rtype, lam, indent(b), paren(tup), lpat, lp, paren(tup), k), nil
	}
	return fmt.Sprintf("%s <- while (R := %s) fuel (%s\n%s) %s ;;\nmatch %s with\n| Fell %s =>\n%s\n| Returned %s => %s\nend",
		lp, t.fn.fi.rtype, lam, indent(b), paren(tup), lp, fellPat, indent(k), r, c.ret(r)), nil
}

func (t *loopTr) stateOf(lists [][]ast.Stmt, lo, hi token.Pos, at ast.Node) ([]string, error) {
	var st []string
	objs := t.assignedOuter(lists, lo, hi)
	if t.lp.parse {
		objs = t.dropTracked(objs)
		t.forget(lists)
	}
	for _, o := range objs {
		n, ok := t.names[o]
		if !ok {
			return nil, t.errAt(at, "assignment to %s, which is defined outside the fragment", o.Name())
		}
		st = append(st, n)
	}
	return st, nil
}

func (t *loopTr) forLoop(x *ast.ForStmt, rest []ast.Stmt, c *lctx) (string, error) {
	if x.Init != nil {
		cp := *x
		cp.Init = nil
		return t.lstmts(append([]ast.Stmt{x.Init, &cp}, rest...), c)
	}
	var post []ast.Stmt
	if x.Post != nil {
		post = []ast.Stmt{x.Post}
	}
	st, err := t.stateOf([][]ast.Stmt{post, x.Body.List}, x.Body.Lbrace, x.End(), x)
	if err != nil {
		return "", err
	}
	var cps []pre
	cond := ""
	if x.Cond != nil {
		cps, cond, err = t.mexpr(x.Cond)
		if err != nil {
			return "", err
		}
	}
	return t.emitWhile(x, st, cps, cond, "", x.Body.List,
		func(k string) (string, error) { return t.lstmts(post, &lctx{tail: k, ret: c.ret}) }, rest, c)
}

// rangeWhile: for i := range n;  for i, x := range xs  (xs a slice; over a string Go decodes
// UTF-8: outside the fragment).  The range expression is evaluated once.
func (t *loopTr) rangeWhile(x *ast.RangeStmt, rest []ast.Stmt, c *lctx) (string, error) {
	info := t.cp.info
	bad := func(why string) (string, error) { return "", t.errAt(x, "for-range (%s)", why) }
	if x.Tok == token.ASSIGN {
		return bad("assignment to existing variables")
	}
	var keyObj, valObj types.Object
	keyName, valName := "", ""
	if id, ok := x.Key.(*ast.Ident); ok && id.Name != "_" {
		keyObj, keyName = info.ObjectOf(id), id.Name
	} else if x.Key != nil && !ok {
		return bad("key is not an identifier")
	}
	if id, ok := x.Value.(*ast.Ident); ok && id.Name != "_" {
		valObj, valName = info.ObjectOf(id), id.Name
	} else if x.Value != nil && !ok {
		return bad("value is not an identifier")
	}
	for _, o := range t.assignedOuter([][]ast.Stmt{x.Body.List}, x.Body.Lbrace, x.End()) {
		if o == valObj && t.lp.parse {
			continue // a fresh variable in every iteration: an assignment is a let inside the body
		}
		if o == keyObj || o == valObj {
			return bad("assignment to the range variable " + o.Name())
		}
	}
	ps, xs, err := t.mexpr(x.X)
	if err != nil {
		return "", err
	}
	var lets strings.Builder
	lets.WriteString(seq(ps, ""))
	limit := ""
	head := ""
	if keyName == "" {
		keyName = "k"
	}
	switch u := info.TypeOf(x.X).Underlying().(type) {
	case *types.Slice:
		if _, err := t.cp.trType(u); err != nil {
			return bad("range over a slice of " + err.Error())
		}
		seqName := xs
		if strings.ContainsAny(xs, " ") {
			seqName = t.bind(nil, "xs")
			lets.WriteString(fmt.Sprintf("let %s := %s in\n", seqName, xs))
		} else if _, isId := x.X.(*ast.Ident); isId {
			// the slice variable may be assigned in the body: the loop ranges over the value it had
			seqName = t.bind(nil, "xs")
			lets.WriteString(fmt.Sprintf("let %s := %s in\n", seqName, xs))
		}
		limit = t.bind(nil, "n")
		lets.WriteString(fmt.Sprintf("let %s := Z.of_nat (length %s) in\n", limit, paren(seqName)))
		kn := t.bind(keyObj, keyName)
		keyName = kn
		if valName != "" {
			head = fmt.Sprintf("%s <- idx %s %s ;;\n", t.bind(valObj, valName), paren(seqName), kn)
		}
	case *types.Basic:
		if t.kind(x.X) == types.String && t.lp.parse {
			// parse.go: on a string of bytes < 0x80 the runes are the bytes and the keys the byte
			// indices (Go decodes UTF-8: the definition carries the ASCII-only marker)
			seqName := t.bind(nil, "xs")
			lets.WriteString(fmt.Sprintf("let %s := %s in\n", seqName, xs))
			limit = t.bind(nil, "n")
			lets.WriteString(fmt.Sprintf("let %s := Z.of_nat (length %s) in\n", limit, seqName))
			keyName = t.bind(keyObj, keyName)
			if valName != "" {
				tmp := t.freshName("c")
				head = fmt.Sprintf("%s <- idx %s %s ;;\nlet %s := byte_z %s in\n", tmp, seqName, keyName, t.bind(valObj, valName), tmp)
			}
			t.asciis["range over a string"] = true
			break
		}
		if t.kind(x.X) != types.Int {
			return bad("range over " + u.String())
		}
		if x.Value != nil {
			return bad("range over an int with two variables")
		}
		limit = t.bind(nil, "n")
		lets.WriteString(fmt.Sprintf("let %s := %s in\n", limit, xs))
		keyName = t.bind(keyObj, keyName)
	default:
		return bad("range over " + types.TypeString(info.TypeOf(x.X), types.RelativeTo(t.cp.pkg)))
	}
	lets.WriteString(fmt.Sprintf("let %s := 0 in\n", keyName))
	st, err := t.stateOf([][]ast.Stmt{x.Body.List}, x.Body.Lbrace, x.End(), x)
	if err != nil {
		return "", err
	}
	if t.lp.parse && valObj != nil {
		var keep []string
		for _, n := range st {
			if n != t.names[valObj] {
				keep = append(keep, n)
			}
		}
		st = keep
	}
	st = append([]string{keyName}, st...)
	r, err := t.emitWhile(x, st, nil, app("Z.ltb", keyName, limit), head, x.Body.List,
		func(k string) (string, error) {
			return fmt.Sprintf("let %s := wrap64 (%s + 1) in\n%s", keyName, keyName, k), nil
		}, rest, c)
	if err != nil {
		return "", err
	}
	return lets.String() + r, nil
}

// ---------- package driver ----------

// names of Base/Imp.v and Base/Bytes.v that the generated text uses: a local of that name is renamed
func loopReserved() map[string]bool {
	m := map[string]bool{}
	for _, w := range strings.Fields(`fuel idx slice slice_from slice_to while bind len res step exit inner after fell
		go_div go_rem byte_z ceqb is_digit is_letter is_space is_upper is_lower drop_while split_c split_sub
		atoi_sat rmap`) {
		m[w] = true
	}
	return m
}

func (lp *loopPkg) ensure(fn *loopFn) {
	if fn.state != 0 {
		return
	}
	fn.state = 1
	lp.translate(fn, false)
	if fn.skip == "" && fn.mode == lmPure {
		// no effect anywhere: translate again without the monad
		fn.uses = nil
		lp.translate(fn, true)
	}
	if fn.skip != "" && lp.snap != nil {
		// the definition of the snapshot will be emitted (fallback): callers use it with its kind
		if it := lp.snap["func "+fn.fi.name]; it != nil {
			if f := strings.Fields(strings.SplitN(it.text, "\n", 2)[0]); len(f) > 4 {
				fn.mode = map[string]int{"pure": lmPure, "res": lmRes, "fuel": lmFuel}[f[4]]
			}
		}
	}
	fn.state = 2
}

func (lp *loopPkg) translate(fn *loopFn, pure bool) {
	fi := fn.fi
	fn.skip, fn.body, fn.mode = "", "", lmSkipped
	if !fi.sigOK {
		fn.skip = "signature: " + fi.sigWhy
		return
	}
	base := &fnTr{cp: lp.cp, fi: fi, names: map[types.Object]string{}, used: loopReserved(), calls: map[*funcInfo]bool{}, asciis: map[string]bool{}}
	t := &loopTr{fnTr: base, lp: lp, fn: fn, pure: pure, uses: map[string]bool{},
		nilState: map[types.Object]int{}, poison: map[types.Object]bool{}}
	if lp.parse {
		for w := range parseReserved {
			base.used[w] = true
		}
	}
	base.ext = t.ext
	if lp.core {
		saved := lp.inPost
		fn.post = lp.isPost(fn)
		lp.inPost = fn.post
		defer func() { lp.inPost = saved }()
		fn.records, fn.lits = nil, 0
	}
	sig := fi.obj.Type().(*types.Signature)
	var vars []*types.Var
	if sig.Recv() != nil {
		vars = append(vars, sig.Recv())
	}
	for i := 0; i < sig.Params().Len(); i++ {
		vars = append(vars, sig.Params().At(i))
	}
	var bs []string
	if lp.core {
		t.coreInit()
	}
	for i, v := range vars {
		var o types.Object = v
		if v.Name() == "" || v.Name() == "_" {
			o = nil
		}
		if pre, isDropped := fi.dropped[i]; isDropped {
			if o != nil {
				t.abstract[o] = pre
			}
			continue
		}
		bs = append(bs, fmt.Sprintf("(%s : %s)", t.bind(o, v.Name()), fi.ptypes[i]))
	}
	body, err := t.lstmts(fi.decl.Body.List, &lctx{ret: t.done})
	if err != nil {
		fn.skip = err.Error()
		fn.uses = nil
		return
	}
	fn.body = body
	if lp.core {
		t.coreFinish(body, strings.Join(bs, " "))
	}
	switch {
	case t.usesFuel:
		fn.mode = lmFuel
		bs = append([]string{"(fuel : nat)"}, bs...)
	case t.effect:
		fn.mode = lmRes
	default:
		fn.mode = lmPure
	}
	fi.binders = strings.Join(bs, " ")
	fn.ascii = nil
	for q := range t.asciis {
		fn.ascii = append(fn.ascii, q)
	}
	sort.Strings(fn.ascii)
}

func (lp *loopPkg) render(snap map[string]*snapItem) (string, int, int) {
	cp := lp.cp
	var b strings.Builder
	label, section := "loops", "Loops"
	if lp.core {
		label, section = "core", "Core"
		b.WriteString(lp.coreHeader())
	} else if lp.parse {
		label, section = "parse", "Parse"
		b.WriteString(lp.parseHeader())
	} else {
		fmt.Fprintf(&b, "(* Generated by tools/gen (loops.go) from %s on every run -- do not edit.\n", cp.tgt.dir)
		b.WriteString("   Translation of the functions with loops, index and slice expressions into the imperative\n   layer Base/Imp.v (tools/gen/LOOPS.md): a panic is Panic, a loop takes fuel; one item per Go\n   declaration, each with its source position.  The records and the loop-free functions are\n   the ones of Gen/Code. *)\n")
		b.WriteString("From Coq Require Import ZArith List Ascii String Bool.\n")
		b.WriteString("From Verif.Base Require Import Bytes GoNum GoOps Imp.\n")
		fmt.Fprintf(&b, "From Verif.Gen.Code Require Import %s.\n", cp.tgt.mod)
		b.WriteString("Import ListNotations.\nLocal Open Scope Z_scope.\nLocal Open Scope imp_scope.\n\n")
	}

	type node struct {
		name string
		text string
		uses []string
		post bool // core.go: the definition lives in Section Instances
	}
	nodes := map[string]*node{}
	var order []string
	for _, fn := range lp.fns {
		if !lp.mine(fn) {
			continue
		}
		n := &node{name: fn.fi.name}
		if fn.skip == "" {
			kind := map[int]string{lmPure: "pure", lmRes: "res", lmFuel: "fuel"}[fn.mode]
			hdr := fmt.Sprintf("(*@ func %s %s %s calls: %s *)\n", fn.fi.name, fn.fi.pos, kind, strings.Join(fn.uses, " "))
			if fn.post {
				hdr = fmt.Sprintf("(*@ func %s %s %s post calls: %s *)\n", fn.fi.name, fn.fi.pos, kind, strings.Join(fn.uses, " "))
				n.post = true
			}
			for _, r := range fn.records {
				hdr += r + "\n"
			}
			if len(fn.ascii) > 0 {
				hdr += fmt.Sprintf("(* ASCII-only: %s (exact on bytes < 0x80 only) *)\n", strings.Join(fn.ascii, ", "))
			}
			rt := fn.fi.rtype
			if fn.mode != lmPure {
				rt = "res " + paren(rt)
			}
			if fn.fi.binders == "" {
				n.text = hdr + fmt.Sprintf("Definition %s : %s :=\n%s.", fn.fi.name, rt, indent(fn.body))
			} else {
				n.text = hdr + fmt.Sprintf("Definition %s %s : %s :=\n%s.", fn.fi.name, fn.fi.binders, rt, indent(fn.body))
			}
			n.uses = fn.uses
		} else if it := snap["func "+fn.fi.name]; it != nil {
			n.uses = it.calls
			n.text = fmt.Sprintf("(* FALLBACK %s: %s; definition of the snapshot *)\n%s", fn.fi.name, cmt(fn.skip), it.text)
			fallbacks = append(fallbacks, fmt.Sprintf("%s:%s.%s (%s)", label, cp.tgt.pkgName(), fn.fi.name, fn.skip))
			if f := strings.Fields(strings.SplitN(it.text, "\n", 2)[0]); len(f) > 4 {
				fn.mode = map[string]int{"pure": lmPure, "res": lmRes, "fuel": lmFuel}[f[4]]
				n.post = len(f) > 5 && f[5] == "post"
			}
		}
		nodes[n.name] = n
		order = append(order, n.name)
	}
	if snap != nil {
		var gone []string
		for _, it := range snap {
			if it.kind == "func" && nodes[it.name] == nil {
				if c := lp.byName[it.name]; c != nil && !lp.mine(c) {
					continue // the function is loop-free now: Gen/Code defines it
				}
				gone = append(gone, it.name)
			}
		}
		sort.Strings(gone)
		for _, g := range gone {
			it := snap["func "+g]
			nodes[g] = &node{name: g, uses: it.calls,
				text: fmt.Sprintf("(* FALLBACK %s: not located in the source as it is now; definition of the snapshot *)\n%s", g, it.text)}
			if f := strings.Fields(strings.SplitN(it.text, "\n", 2)[0]); len(f) > 5 && f[5] == "post" {
				nodes[g].post = true
			}
			order = append(order, g)
			fallbacks = append(fallbacks, fmt.Sprintf("%s:%s.%s (not located)", label, cp.tgt.pkgName(), g))
		}
	}
	// Section variables: the ones the fresh translations declared, and the ones a fallback
	// definition names (declaration of the snapshot)
	type vdecl struct {
		text string
		ord  int
		name string
	}
	var vds []vdecl
	declared := map[string]bool{}
	needed := map[string]bool{}
	neededPost := map[string]bool{}
	for _, name := range order {
		if n := nodes[name]; n.text != "" {
			for _, u := range n.uses {
				if n.post {
					neededPost[u] = true
				} else {
					needed[u] = true
				}
			}
		}
	}
	if lp.core {
		closeOverTypes(needed, lp.externs)
		closeOverTypes(neededPost, lp.postExterns)
	}
	for name, ex := range lp.externs {
		if needed[name] {
			if lp.core {
				vds = append(vds, vdecl{coreVarText(ex), ex.ord, name})
			} else {
				vds = append(vds, vdecl{ex.hdr + "\nVariable " + ex.name + " : " + ex.typ + ".", ex.ord, name})
			}
			declared[name] = true
		}
	}
	constText := ""
	if lp.parse {
		var have map[string]bool
		constText, have = lp.constDecls(needed, snap)
		for n := range have {
			declared[n] = true
		}
	}
	for u := range needed {
		if declared[u] {
			continue
		}
		if n := nodes[u]; n != nil && n.text != "" {
			continue
		}
		if c := lp.byName[u]; c != nil && !lp.mine(c) {
			continue
		}
		if cp.goneInCode[u] {
			continue // defined by Gen/Code from its snapshot (the function left the source)
		}
		if it := snap["var "+u]; it != nil {
			ord := 1 << 30
			if lp.core {
				ord = 1<<29 + it.line
				if ex := snapExtern(it); ex != nil {
					ord = ex.ord
				}
			}
			vds = append(vds, vdecl{"(* FALLBACK variable " + u + ": declaration of the snapshot *)\n" + it.text, ord, u})
			declared[u] = true
			continue
		}
		problems = append(problems, fmt.Sprintf("error "+label+":%s: a fallback definition needs %s, which is neither in the source nor in the snapshot", cp.tgt.mod, u))
	}
	sort.Slice(vds, func(i, j int) bool {
		if vds[i].ord != vds[j].ord {
			return vds[i].ord < vds[j].ord
		}
		return vds[i].name < vds[j].name
	})
	b.WriteString(constText)
	b.WriteString("Section " + section + ".\n\n")
	varPos := map[string]int{}
	for i, v := range vds {
		b.WriteString(v.text + "\n\n")
		varPos[v.name] = i
	}
	// for parse.go: which functions this file defines and the Section variables each one is
	// generalised over (transitively, in section order)
	for _, fn := range lp.fns {
		n := nodes[fn.fi.name]
		if !lp.mine(fn) || n == nil || n.text == "" {
			continue
		}
		fn.inLoops = true
		seen := map[string]bool{}
		var vs []string
		var walk func(name string)
		walk = func(name string) {
			if seen[name] {
				return
			}
			seen[name] = true
			if _, isVar := varPos[name]; isVar {
				vs = append(vs, name)
				return
			}
			if m := nodes[name]; m != nil {
				for _, u := range m.uses {
					walk(u)
				}
			}
		}
		walk(fn.fi.name)
		sort.Slice(vs, func(i, j int) bool { return varPos[vs[i]] < varPos[vs[j]] })
		fn.vars = vs
	}
	done := map[string]bool{}
	inPost := false
	var emit func(name string)
	emit = func(name string) {
		if done[name] {
			return
		}
		n := nodes[name]
		if n == nil || n.text == "" || n.post != inPost {
			return
		}
		done[name] = true
		for _, u := range n.uses {
			emit(u)
		}
		b.WriteString(n.text + "\n\n")
	}
	for _, name := range order {
		emit(name)
	}
	b.WriteString("End " + section + ".\n\n")
	if lp.core {
		anyPost := false
		for _, name := range order {
			if n := nodes[name]; n.text != "" && n.post {
				anyPost = true
			}
		}
		if anyPost {
			b.WriteString(lp.postSection(neededPost, snap, label))
			inPost = true
			for _, name := range order {
				emit(name)
			}
			b.WriteString("End Instances.\n\n")
		}
	}
	translated, skipped := 0, 0
	for _, fn := range lp.fns {
		if !lp.mine(fn) {
			continue
		}
		if fn.skip == "" {
			translated++
		} else {
			skipped++
			fmt.Fprintf(&b, "(* skipped %s: %s [%s] *)\n", fn.fi.name, cmt(fn.skip), fn.fi.pos)
		}
	}
	return b.String(), translated, skipped
}

// the Gen/Loops pass of every package, for parse.go
var loopPasses = map[*codePkg]*loopPkg{}

func (lp *loopPkg) mine(fn *loopFn) bool { return !fn.code.inCode && !fn.prev }

func genLoops() {
	os.MkdirAll(filepath.Join(outDir, "Loops"), 0o755)
	want := map[string]bool{}
	for _, cp := range loadedPkgs {
		file := "Loops/" + cp.tgt.mod + ".v"
		want[cp.tgt.mod+".v"] = true
		var snap map[string]*snapItem
		if src, ok := snapFile(file); ok {
			snap = parseSnapItems(src)
		}
		cp.wide = true
		lp := &loopPkg{cp: cp, byObj: map[*types.Func]*loopFn{}, byName: map[string]*loopFn{}, externs: map[string]*loopExtern{}}
		loopPasses[cp] = lp
		lp.snap = snap
		for _, c := range cp.funcs {
			fi := &funcInfo{decl: c.decl, obj: c.obj, name: c.name, pos: c.pos}
			cp.signature(fi)
			fn := &loopFn{code: c, fi: fi}
			lp.fns = append(lp.fns, fn)
			lp.byObj[c.obj] = fn
			lp.byName[c.name] = fn
		}
		for _, fn := range lp.fns {
			if !fn.code.inCode {
				lp.ensure(fn)
			}
		}
		out, tr, sk := lp.render(snap)
		cp.wide = false
		write(file, out)
		fmt.Printf("loops: %s translated=%d skipped=%d\n", cp.tgt.dir, tr, sk)
	}
	if snapDir != "" {
		if ents, err := os.ReadDir(filepath.Join(snapDir, "Loops")); err == nil {
			for _, e := range ents {
				if strings.HasSuffix(e.Name(), ".v") && !want[e.Name()] {
					src, _ := snapFile("Loops/" + e.Name())
					write("Loops/"+e.Name(), "(* FALLBACK: package not located; file of the snapshot *)\n"+src)
					fallbacks = append(fallbacks, "loops:"+strings.TrimSuffix(e.Name(), ".v")+" (package not located)")
					want[e.Name()] = true
				}
			}
		}
	}
	if ents, err := os.ReadDir(filepath.Join(outDir, "Loops")); err == nil {
		for _, e := range ents {
			if strings.HasSuffix(e.Name(), ".v") && !want[e.Name()] {
				os.Remove(filepath.Join(outDir, "Loops", e.Name()))
				fmt.Println("removed Loops/" + e.Name())
			}
		}
	}
}
