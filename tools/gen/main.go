// tools/gen — translator from the Go sources of go-univers to coq/Gen/*.v.
//
// Run on every check.  It re-reads /repo with go/parser and regenerates the tables the Coq
// model and theorems are parametric in:
//   Operators.v    every comparator list of pkg/ecosystem/*/range.go and pkg/spec/vers/vers.go, in
//                  source order (`operators := []string{...}` or the alternation of
//                  constraintPattern)
//   Tables.v       rank tables: package-level map[string]int literals (alpine.suffixOrder,
//                  gentoo.suffixValues, maven.qualifierOrder, composer.stabilityMap), the integer
//                  constants they use, and string switches returning ranks
//                  (getQualifierPrecedence, normalizePrereleaseType)
//   Registry.v     cmd/cli.go: specToRun / ecosystemToRun keys and the package of the Ecosystem
//                  literal each entry runs; the command labels; every pkg/ecosystem/* Name constant
//   VersDispatch.v schemeToContains with the ecosystem each <x>Contains builds, and the toRanges
//                  switch (label -> interval printer)
//   Code/<Eco>.v   per package: Gallina translation of every function in the loop-free fragment
//                  (code.go, CODE.md); tied to the models by coq/Tie/<Eco>.v
//   Effects.v      per package: package-level variables, and every statement that writes through
//                  something that is not a local of the enclosing function (C19)
// A file is rewritten only when its content changes.  Lines "changed <file>" / "stale <item>" /
// "error ..." are printed for bin/check.
package main

import (
	"flag"
	"fmt"
	"go/ast"
	"go/parser"
	"go/token"
	"os"
	"path/filepath"
	"regexp"
	"sort"
	"strconv"
	"strings"
)

var repo, outDir, snapDir string
var problems []string
var fallbacks []string

// snapDef returns the text of the sentence "Definition <name> ... ." of the snapshot file, or "".
// The snapshot (coq/Gen.snapshot, committed) is the translator's output on the pinned tree.
func snapDef(file, name string) string {
	if snapDir == "" {
		return ""
	}
	src, err := os.ReadFile(filepath.Join(snapDir, file))
	if err != nil {
		return ""
	}
	lines := strings.Split(string(src), "\n")
	for i, l := range lines {
		if strings.HasPrefix(l, "Definition "+name+" ") {
			var out []string
			for j := i; j < len(lines); j++ {
				out = append(out, lines[j])
				t := strings.TrimSpace(lines[j])
				if k := strings.Index(t, "  (*"); k >= 0 {
					t = strings.TrimSpace(t[:k])
				}
				if strings.HasSuffix(t, ".") {
					return strings.Join(out, "\n") + "\n"
				}
			}
		}
	}
	return ""
}

// stale: an item of the generated files that cannot be located in (or translated from) the
// source as it is now.  With a snapshot the item's previous definition is emitted instead and
// the run is told ("fallback <item>"): the theorems are then re-checked on that definition and
// the model is tied to the code by the correspondence check alone for this item.  Without one
// it is an error of the run.
func stale(b *strings.Builder, item, file string, defs ...string) {
	var txt []string
	for _, d := range defs {
		t := snapDef(file, d)
		if t == "" {
			problems = append(problems, "stale "+item)
			return
		}
		txt = append(txt, t)
	}
	fmt.Fprintf(b, "(* FALLBACK %s: not located in the source as it is now; definition of the snapshot *)\n%s\n", item, strings.Join(txt, ""))
	fallbacks = append(fallbacks, item)
}

// snapFile: whole-file fallback (registry, dispatch).
func snapFile(file string) (string, bool) {
	if snapDir == "" {
		return "", false
	}
	src, err := os.ReadFile(filepath.Join(snapDir, file))
	if err != nil {
		return "", false
	}
	return string(src), true
}

func main() {
	flag.StringVar(&repo, "repo", "/repo", "repository root")
	flag.StringVar(&outDir, "out", "", "coq/Gen directory")
	flag.StringVar(&snapDir, "snapshot", "", "directory with the generated files of the pinned tree (fallback for items that cannot be located)")
	flag.Parse()
	if outDir == "" {
		fmt.Println("error: -out required")
		os.Exit(2)
	}
	os.MkdirAll(outDir, 0o755)
	write("Operators.v", genOperators())
	write("Tables.v", genTables())
	write("Registry.v", wholeFile("Registry.v", "CLI registry", genRegistry))
	write("VersDispatch.v", wholeFile("VersDispatch.v", "VERS dispatch", genVersDispatch))
	write("Effects.v", genEffects())
	genCode()
	genLoops()
	genParse()
	for _, p := range fallbacks {
		fmt.Println("fallback " + p)
	}
	for _, p := range problems {
		fmt.Println(p)
	}
	if len(problems) > 0 {
		os.Exit(1)
	}
}

// wholeFile: run a generator; when it reports only "stale" problems and a snapshot of the file
// exists, the snapshot is emitted instead (see stale).
func wholeFile(name, item string, gen func() string) string {
	n0 := len(problems)
	out := gen()
	if len(problems) == n0 {
		return out
	}
	for _, p := range problems[n0:] {
		if !strings.HasPrefix(p, "stale") {
			return out
		}
	}
	src, ok := snapFile(name)
	if !ok {
		return out
	}
	why := strings.Join(problems[n0:], "; ")
	problems = problems[:n0]
	fallbacks = append(fallbacks, item+" ("+why+")")
	return "(* FALLBACK " + item + ": not located in the source as it is now; file of the snapshot *)\n" + src
}

func write(name, content string) {
	p := filepath.Join(outDir, name)
	old, err := os.ReadFile(p)
	if err == nil && string(old) == content {
		return
	}
	if err := os.WriteFile(p, []byte(content), 0o644); err != nil {
		problems = append(problems, "error writing "+p+": "+err.Error())
		return
	}
	fmt.Println("changed " + name)
}

func parseFile(rel string) (*token.FileSet, *ast.File) {
	fset := token.NewFileSet()
	f, err := parser.ParseFile(fset, filepath.Join(repo, rel), nil, parser.ParseComments)
	if err != nil {
		problems = append(problems, "error parsing "+rel+": "+err.Error())
		return fset, nil
	}
	return fset, f
}

func ecosystems() []string {
	ents, _ := os.ReadDir(filepath.Join(repo, "pkg/ecosystem"))
	var out []string
	for _, e := range ents {
		if e.IsDir() {
			if _, err := os.Stat(filepath.Join(repo, "pkg/ecosystem", e.Name(), "version.go")); err == nil {
				out = append(out, e.Name())
			}
		}
	}
	sort.Strings(out)
	return out
}

// ---------- Coq rendering ----------

func coqStr(s string) string {
	// $"..." literals: double the quotes; the model's strings are ASCII
	return "$\"" + strings.ReplaceAll(s, "\"", "\"\"") + "\""
}

func coqList(xs []string) string {
	q := make([]string, len(xs))
	for i, x := range xs {
		q[i] = coqStr(x)
	}
	return "[" + strings.Join(q, "; ") + "]"
}

func coqZ(n int64) string {
	if n < 0 {
		return fmt.Sprintf("(%d)%%Z", n)
	}
	return fmt.Sprintf("%d%%Z", n)
}

func strLit(e ast.Expr) (string, bool) {
	if b, ok := e.(*ast.BasicLit); ok && b.Kind == token.STRING {
		s, err := strconv.Unquote(b.Value)
		return s, err == nil
	}
	return "", false
}

// ---------- Operators ----------

var altRe = regexp.MustCompile(`\(((?:[^()|]+\|)+[^()|]+)\)\??`)

func operatorList(rel string) ([]string, string) {
	_, f := parseFile(rel)
	if f == nil {
		return nil, ""
	}
	var ops []string
	how := ""
	ast.Inspect(f, func(n ast.Node) bool {
		if ops != nil {
			return false
		}
		switch x := n.(type) {
		case *ast.AssignStmt:
			if len(x.Lhs) == 1 && len(x.Rhs) == 1 {
				if id, ok := x.Lhs[0].(*ast.Ident); ok && id.Name == "operators" {
					if cl, ok := x.Rhs[0].(*ast.CompositeLit); ok {
						for _, el := range cl.Elts {
							if s, ok := strLit(el); ok {
								ops = append(ops, s)
							}
						}
						how = "operators slice"
					}
				}
			}
		case *ast.ValueSpec:
			for i, nm := range x.Names {
				if nm.Name == "constraintPattern" && i < len(x.Values) {
					if call, ok := x.Values[i].(*ast.CallExpr); ok && len(call.Args) == 1 {
						if s, ok := strLit(call.Args[0]); ok {
							if m := altRe.FindStringSubmatch(s); m != nil {
								var all []string
								good := true
								for _, a := range strings.Split(m[1], "|") {
									xs, ok := expandAlt(a)
									if !ok {
										good = false
										break
									}
									all = append(all, xs...)
								}
								if good {
									ops = all
									how = "constraintPattern alternation"
								}
							}
						}
					}
				}
			}
		}
		return true
	})
	return ops, how
}

// expandAlt: the literal strings one alternative of a regexp alternation can match, in the order
// leftmost-first matching prefers them.  Handled: literal bytes, escaped bytes, classes of
// literal bytes ([<>]), each optionally followed by a greedy '?'.  Anything else: not translated.
func expandAlt(a string) ([]string, bool) {
	type atom struct {
		chars []byte
		opt   bool
	}
	var atoms []atom
	for i := 0; i < len(a); {
		var at atom
		switch c := a[i]; {
		case c == '\\':
			if i+1 >= len(a) || !strings.ContainsRune(`\.+*?()|[]{}^$<>=!~-`, rune(a[i+1])) {
				return nil, false
			}
			at.chars = []byte{a[i+1]}
			i += 2
		case c == '[':
			j := strings.IndexByte(a[i:], ']')
			if j < 2 || a[i+1] == '^' {
				return nil, false
			}
			for _, x := range []byte(a[i+1 : i+j]) {
				if strings.ContainsRune(`\-[`, rune(x)) {
					return nil, false
				}
				at.chars = append(at.chars, x)
			}
			i += j + 1
		case strings.ContainsRune(`.+*?(){}^$]`, rune(c)):
			return nil, false
		default:
			at.chars = []byte{c}
			i++
		}
		if i < len(a) && a[i] == '?' {
			at.opt = true
			i++
			if i < len(a) && a[i] == '?' {
				return nil, false // lazy
			}
		}
		atoms = append(atoms, at)
	}
	// priority order of leftmost-first matching: depth-first over the atoms
	var rec func(k int, pre string, acc *[]string)
	rec = func(k int, pre string, acc *[]string) {
		if k == len(atoms) {
			*acc = append(*acc, pre)
			return
		}
		for _, c := range atoms[k].chars {
			rec(k+1, pre+string(c), acc)
		}
		if atoms[k].opt {
			rec(k+1, pre, acc)
		}
	}
	var ordered []string
	rec(0, "", &ordered)
	for _, x := range ordered {
		if x == "" {
			return nil, false
		}
	}
	return ordered, len(ordered) > 0 && len(ordered) <= 32
}

func genOperators() string {
	var b strings.Builder
	b.WriteString("(* GENERATED by tools/gen from /repo (pkg/ecosystem/*/range.go, pkg/spec/vers/vers.go) — do not edit.\n   Comparator spellings in source order. *)\nFrom Verif.Base Require Import Bytes.\n\n")
	for _, e := range ecosystems() {
		ops, how := operatorList("pkg/ecosystem/" + e + "/range.go")
		if ops == nil {
			if e != "maven" {
				stale(&b, "operators of "+e+" (no operators slice / literal constraintPattern alternation found)", "Operators.v", e+"_ops")
			}
			continue
		}
		fmt.Fprintf(&b, "(* %s: %s *)\nDefinition %s_ops : list bytes := %s.\n\n", e, how, e, coqList(ops))
	}
	ops, _ := operatorList("pkg/spec/vers/vers.go")
	if ops == nil {
		stale(&b, "operators of vers", "Operators.v", "vers_ops_text")
	} else {
		fmt.Fprintf(&b, "(* pkg/spec/vers parseConstraint *)\nDefinition vers_ops_text : list bytes := %s.\n", coqList(ops))
	}
	return b.String()
}

// ---------- Tables ----------

type constEnv map[string]int64

func intConsts(f *ast.File) constEnv {
	env := constEnv{}
	for _, d := range f.Decls {
		gd, ok := d.(*ast.GenDecl)
		if !ok || gd.Tok != token.CONST {
			continue
		}
		for _, s := range gd.Specs {
			vs := s.(*ast.ValueSpec)
			for i, nm := range vs.Names {
				if i < len(vs.Values) {
					if v, ok := evalInt(vs.Values[i], env); ok {
						env[nm.Name] = v
					}
				}
			}
		}
	}
	return env
}

func evalInt(e ast.Expr, env constEnv) (int64, bool) {
	switch x := e.(type) {
	case *ast.BasicLit:
		if x.Kind == token.INT {
			v, err := strconv.ParseInt(x.Value, 0, 64)
			return v, err == nil
		}
	case *ast.UnaryExpr:
		if v, ok := evalInt(x.X, env); ok {
			if x.Op == token.SUB {
				return -v, true
			}
			if x.Op == token.ADD {
				return v, true
			}
		}
	case *ast.Ident:
		v, ok := env[x.Name]
		return v, ok
	case *ast.ParenExpr:
		return evalInt(x.X, env)
	}
	return 0, false
}

func mapTable(f *ast.File, name string, env constEnv) ([][2]string, bool) {
	var rows [][2]string
	found := false
	for _, d := range f.Decls {
		gd, ok := d.(*ast.GenDecl)
		if !ok || gd.Tok != token.VAR {
			continue
		}
		for _, s := range gd.Specs {
			vs := s.(*ast.ValueSpec)
			for i, nm := range vs.Names {
				if nm.Name != name || i >= len(vs.Values) {
					continue
				}
				cl, ok := vs.Values[i].(*ast.CompositeLit)
				if !ok {
					continue
				}
				found = true
				for _, el := range cl.Elts {
					kv, ok := el.(*ast.KeyValueExpr)
					if !ok {
						continue
					}
					k, ok1 := strLit(kv.Key)
					v, ok2 := evalInt(kv.Value, env)
					if ok1 && ok2 {
						rows = append(rows, [2]string{coqStr(k), coqZ(v)})
					} else {
						found = false
					}
				}
			}
		}
	}
	return rows, found
}

// switchTable: a function whose body is a single switch over (a function of) its string
// parameter with `return <int>` in every clause.
func switchTable(f *ast.File, fn string, env constEnv) (rows [][2]string, def string, ok bool) {
	for _, d := range f.Decls {
		fd, isFn := d.(*ast.FuncDecl)
		if !isFn || fd.Name.Name != fn || fd.Body == nil {
			continue
		}
		for _, st := range fd.Body.List {
			sw, isSw := st.(*ast.SwitchStmt)
			if !isSw {
				continue
			}
			ok = true
			for _, c := range sw.Body.List {
				cc := c.(*ast.CaseClause)
				var val string
				for _, s := range cc.Body {
					if r, isRet := s.(*ast.ReturnStmt); isRet && len(r.Results) == 1 {
						if v, good := evalInt(r.Results[0], env); good {
							val = coqZ(v)
						}
					}
				}
				if val == "" {
					ok = false
					continue
				}
				if cc.List == nil {
					def = val
				}
				for _, k := range cc.List {
					if s, good := strLit(k); good {
						rows = append(rows, [2]string{coqStr(s), val})
					} else {
						ok = false
					}
				}
			}
		}
	}
	return
}

func renderTable(b *strings.Builder, name string, rows [][2]string) {
	fmt.Fprintf(b, "Definition %s : list (bytes * Z) := [\n", name)
	for i, r := range rows {
		sep := ";"
		if i == len(rows)-1 {
			sep = ""
		}
		fmt.Fprintf(b, "  (%s, %s)%s\n", r[0], r[1], sep)
	}
	b.WriteString("].\n\n")
}

func genTables() string {
	var b strings.Builder
	b.WriteString("(* GENERATED by tools/gen from /repo (pkg/ecosystem/*/version.go, range.go) — do not edit.\n   Rank tables: map literals in source order, string switches clause by clause. *)\nFrom Coq Require Import ZArith.\nFrom Verif.Base Require Import Bytes.\n\n")
	maps := []struct{ eco, file, name string }{
		{"alpine", "version.go", "suffixOrder"},
		{"gentoo", "version.go", "suffixValues"},
		{"maven", "version.go", "qualifierOrder"},
		{"composer", "version.go", "stabilityMap"},
	}
	for _, m := range maps {
		_, f := parseFile("pkg/ecosystem/" + m.eco + "/" + m.file)
		if f == nil {
			continue
		}
		env := intConsts(f)
		rows, ok := mapTable(f, m.name, env)
		if !ok {
			defs := []string{m.eco + "_" + m.name}
			if src, ok := snapFile("Tables.v"); ok {
				// the integer constants rendered next to the table in the snapshot
				for _, l := range strings.Split(src, "\n") {
					if strings.HasPrefix(l, "Definition "+m.eco+"_") && strings.Contains(l, " : Z := ") {
						defs = append(defs, strings.Fields(l)[1])
					}
				}
			}
			stale(&b, "table "+m.eco+"."+m.name, "Tables.v", defs...)
			continue
		}
		renderTable(&b, m.eco+"_"+m.name, rows)
		names := make([]string, 0, len(env))
		for k := range env {
			names = append(names, k)
		}
		sort.Strings(names)
		for _, k := range names {
			fmt.Fprintf(&b, "Definition %s_%s : Z := %s.\n", m.eco, k, coqZ(env[k]))
		}
		b.WriteString("\n")
	}
	sws := []struct{ eco, file, fn string }{
		{"apache", "version.go", "getQualifierPrecedence"},
		{"github", "version.go", "getQualifierPrecedence"},
		{"mattermost", "version.go", "getQualifierPrecedence"},
		{"pypi", "range.go", "normalizePrereleaseType"},
	}
	for _, s := range sws {
		_, f := parseFile("pkg/ecosystem/" + s.eco + "/" + s.file)
		if f == nil {
			continue
		}
		env := intConsts(f)
		rows, def, ok := switchTable(f, s.fn, env)
		if !ok || def == "" {
			stale(&b, "switch table "+s.eco+"."+s.fn, "Tables.v", s.eco+"_"+s.fn, s.eco+"_"+s.fn+"_default")
			continue
		}
		renderTable(&b, s.eco+"_"+s.fn, rows)
		fmt.Fprintf(&b, "Definition %s_%s_default : Z := %s.\n\n", s.eco, s.fn, def)
	}
	return b.String()
}

// ---------- Registry ----------

func pkgNameConst(eco string) (string, bool) {
	files, _ := filepath.Glob(filepath.Join(repo, "pkg/ecosystem", eco, "*.go"))
	for _, fn := range files {
		if strings.HasSuffix(fn, "_test.go") {
			continue
		}
		fset := token.NewFileSet()
		f, err := parser.ParseFile(fset, fn, nil, 0)
		if err != nil {
			continue
		}
		for _, d := range f.Decls {
			gd, ok := d.(*ast.GenDecl)
			if !ok || gd.Tok != token.CONST {
				continue
			}
			for _, s := range gd.Specs {
				vs := s.(*ast.ValueSpec)
				for i, nm := range vs.Names {
					if nm.Name == "Name" && i < len(vs.Values) {
						if v, ok := strLit(vs.Values[i]); ok {
							return v, true
						}
					}
				}
			}
		}
	}
	return "", false
}

// ecosystemLiteralPkg: the package p of the first &p.Ecosystem{} literal inside n.
func ecosystemLiteralPkg(n ast.Node) string {
	pkg := ""
	ast.Inspect(n, func(x ast.Node) bool {
		if cl, ok := x.(*ast.CompositeLit); ok && pkg == "" {
			if se, ok := cl.Type.(*ast.SelectorExpr); ok && se.Sel.Name == "Ecosystem" {
				if id, ok := se.X.(*ast.Ident); ok {
					pkg = id.Name
				}
			}
		}
		return true
	})
	return pkg
}

func genRegistry() string {
	var b strings.Builder
	b.WriteString("(* GENERATED by tools/gen from /repo/cmd/cli.go — do not edit. *)\nFrom Verif.Base Require Import Bytes.\n\n")
	names := map[string]string{}
	var ecoNames [][2]string
	for _, e := range ecosystems() {
		if v, ok := pkgNameConst(e); ok {
			names[e] = v
			ecoNames = append(ecoNames, [2]string{e, v})
		} else {
			problems = append(problems, "stale Name constant of package "+e)
		}
	}
	_, f := parseFile("cmd/cli.go")
	var specs []string
	var reg [][2]string
	var cmds, versCmds []string
	if f != nil {
		ast.Inspect(f, func(n ast.Node) bool {
			as, ok := n.(*ast.AssignStmt)
			if !ok || len(as.Lhs) != 1 || len(as.Rhs) != 1 {
				return true
			}
			id, ok := as.Lhs[0].(*ast.Ident)
			cl, ok2 := as.Rhs[0].(*ast.CompositeLit)
			if !ok || !ok2 {
				return true
			}
			for _, el := range cl.Elts {
				kv, ok := el.(*ast.KeyValueExpr)
				if !ok {
					continue
				}
				switch id.Name {
				case "specToRun":
					if s, ok := strLit(kv.Key); ok {
						specs = append(specs, s)
					}
				case "ecosystemToRun":
					key := ""
					if se, ok := kv.Key.(*ast.SelectorExpr); ok && se.Sel.Name == "Name" {
						if p, ok := se.X.(*ast.Ident); ok {
							key = names[p.Name]
						}
					} else if s, ok := strLit(kv.Key); ok {
						key = s
					}
					val := names[ecosystemLiteralPkg(kv.Value)]
					if key == "" || val == "" {
						problems = append(problems, "stale ecosystemToRun entry")
						continue
					}
					reg = append(reg, [2]string{key, val})
				}
			}
			return true
		})
		for _, d := range f.Decls {
			fd, ok := d.(*ast.FuncDecl)
			if !ok || fd.Body == nil || (fd.Name.Name != "runEcosystem" && fd.Name.Name != "runVers") {
				continue
			}
			ast.Inspect(fd.Body, func(n ast.Node) bool {
				if sw, ok := n.(*ast.SwitchStmt); ok {
					for _, c := range sw.Body.List {
						for _, k := range c.(*ast.CaseClause).List {
							if s, ok := strLit(k); ok {
								if fd.Name.Name == "runEcosystem" {
									cmds = append(cmds, s)
								} else {
									versCmds = append(versCmds, s)
								}
							}
						}
					}
				}
				return true
			})
		}
	}
	if len(reg) == 0 || len(specs) == 0 || len(cmds) == 0 {
		problems = append(problems, "stale CLI registry (ecosystemToRun / specToRun / command switch not found)")
	}
	pairs := func(xs [][2]string) string {
		var p []string
		for _, x := range xs {
			p = append(p, "("+coqStr(x[0])+", "+coqStr(x[1])+")")
		}
		return "[\n  " + strings.Join(p, ";\n  ") + "\n]"
	}
	fmt.Fprintf(&b, "(* keys of specToRun *)\nDefinition cli_specs : list bytes := %s.\n\n", coqList(specs))
	fmt.Fprintf(&b, "(* ecosystemToRun: key (value of the <pkg>.Name selector) -> Name constant of the package of\n   the &<pkg>.Ecosystem{} literal passed to runEcosystem *)\nDefinition cli_registry : list (bytes * bytes) := %s.\n\n", pairs(reg))
	fmt.Fprintf(&b, "(* command labels of the switch in runEcosystem / runVers *)\nDefinition cli_commands : list bytes := %s.\nDefinition cli_vers_commands : list bytes := %s.\n\n", coqList(cmds), coqList(versCmds))
	fmt.Fprintf(&b, "(* every directory under pkg/ecosystem that declares a Name constant, with its value *)\nDefinition ecosystem_names : list (bytes * bytes) := %s.\n", pairs(ecoNames))
	return b.String()
}

// ---------- VERS dispatch ----------

func genVersDispatch() string {
	var b strings.Builder
	b.WriteString("(* GENERATED by tools/gen from /repo/pkg/spec/vers — do not edit. *)\nFrom Verif.Base Require Import Bytes.\nFrom Verif.Vers Require Import Model.\n\n")
	names := map[string]string{}
	for _, e := range ecosystems() {
		if v, ok := pkgNameConst(e); ok {
			names[e] = v
		}
	}
	// every <x>Contains function of the package: ecosystem literal, whether it gates pre-releases
	fnEco := map[string]string{}
	fnGate := map[string]bool{}
	files, _ := filepath.Glob(filepath.Join(repo, "pkg/spec/vers/*.go"))
	sort.Strings(files)
	styleOf := map[string]string{} // interval printer -> style
	for _, fn := range files {
		if strings.HasSuffix(fn, "_test.go") {
			continue
		}
		fset := token.NewFileSet()
		f, err := parser.ParseFile(fset, fn, nil, 0)
		if err != nil {
			problems = append(problems, "error parsing "+fn)
			continue
		}
		for _, d := range f.Decls {
			fd, ok := d.(*ast.FuncDecl)
			if !ok || fd.Body == nil {
				continue
			}
			if strings.HasSuffix(fd.Name.Name, "Contains") {
				if p := ecosystemLiteralPkg(fd.Body); p != "" {
					fnEco[fd.Name.Name] = names[p]
					gate := false
					ast.Inspect(fd.Body, func(n ast.Node) bool {
						if c, ok := n.(*ast.CallExpr); ok {
							if id, ok := c.Fun.(*ast.Ident); ok && strings.Contains(strings.ToLower(id.Name), "prerelease") {
								gate = true
							}
						}
						return true
					})
					fnGate[fd.Name.Name] = gate
				}
			}
			if strings.HasPrefix(fd.Name.Name, "intervalTo") && strings.HasSuffix(fd.Name.Name, "Ranges") {
				// classify by the literals the printer uses
				var lits []string
				ast.Inspect(fd.Body, func(n ast.Node) bool {
					if s, ok := n.(ast.Expr); ok {
						if v, ok := strLit(s); ok {
							lits = append(lits, v)
						}
					}
					return true
				})
				callsEnsureV := false
				ast.Inspect(fd.Body, func(n ast.Node) bool {
					if c, ok := n.(*ast.CallExpr); ok {
						if id, ok := c.Fun.(*ast.Ident); ok && id.Name == "ensureVPrefix" {
							callsEnsureV = true
						}
					}
					return true
				})
				has := func(x string) bool {
					for _, l := range lits {
						if l == x {
							return true
						}
					}
					return false
				}
				style := ""
				switch {
				case has("[%s]") && has("(,%s%s"):
					style = "NMaven"
				case has("[%s]"):
					style = "NNuget"
				case has("==%s"):
					style = "NPypi"
				case callsEnsureV || has("%s %s"):
					style = "NGolang"
				case has(","):
					style = "NComma"
				case has(" "):
					style = "NSpace"
				}
				styleOf[fd.Name.Name] = style
			}
		}
	}
	_, f := parseFile("pkg/spec/vers/vers.go")
	type row struct{ scheme, fn string }
	var rows []row
	var sw [][2]string
	if f != nil {
		ast.Inspect(f, func(n ast.Node) bool {
			if as, ok := n.(*ast.AssignStmt); ok && len(as.Lhs) == 1 && len(as.Rhs) == 1 {
				if id, ok := as.Lhs[0].(*ast.Ident); ok && id.Name == "schemeToContains" {
					if cl, ok := as.Rhs[0].(*ast.CompositeLit); ok {
						for _, el := range cl.Elts {
							kv := el.(*ast.KeyValueExpr)
							k, ok1 := strLit(kv.Key)
							v, ok2 := kv.Value.(*ast.Ident)
							if ok1 && ok2 {
								rows = append(rows, row{k, v.Name})
							}
						}
					}
				}
			}
			return true
		})
		for _, d := range f.Decls {
			fd, ok := d.(*ast.FuncDecl)
			if !ok || fd.Name.Name != "toRanges" || fd.Body == nil {
				continue
			}
			ast.Inspect(fd.Body, func(n ast.Node) bool {
				s, ok := n.(*ast.SwitchStmt)
				if !ok {
					return true
				}
				for _, c := range s.Body.List {
					cc := c.(*ast.CaseClause)
					callee := ""
					ast.Inspect(cc, func(m ast.Node) bool {
						if call, ok := m.(*ast.CallExpr); ok {
							if id, ok := call.Fun.(*ast.Ident); ok && strings.HasPrefix(id.Name, "intervalTo") {
								callee = id.Name
							}
						}
						return true
					})
					for _, k := range cc.List {
						if lbl, ok := strLit(k); ok && callee != "" {
							sw = append(sw, [2]string{lbl, callee})
						}
					}
				}
				return false
			})
		}
	}
	if len(rows) == 0 || len(sw) == 0 {
		problems = append(problems, "stale VERS dispatch (schemeToContains / toRanges switch not found)")
	}
	b.WriteString("(* schemeToContains, with the ecosystem each <x>Contains constructs *)\nDefinition scheme_table : list scheme := [\n")
	for i, r := range rows {
		eco := fnEco[r.fn]
		if eco == "" {
			problems = append(problems, "stale VERS dispatch: no Ecosystem literal in "+r.fn)
		}
		sep := ";"
		if i == len(rows)-1 {
			sep = ""
		}
		fmt.Fprintf(&b, "  {| sc_name := %s; sc_eco := %s; sc_pypi_gate := %v |}%s\n", coqStr(r.scheme), coqStr(eco), fnGate[r.fn], sep)
	}
	b.WriteString("].\n\n(* the switch on e.Name() in toRanges, with the syntax family of the function it calls *)\nDefinition style_table : list (bytes * native_style) := [\n")
	for i, r := range sw {
		st := styleOf[r[1]]
		if st == "" {
			problems = append(problems, "stale VERS style of "+r[1])
			st = "NSpace"
		}
		sep := ";"
		if i == len(sw)-1 {
			sep = ""
		}
		fmt.Fprintf(&b, "  (%s, %s)%s  (* %s *)\n", coqStr(r[0]), st, sep, r[1])
	}
	b.WriteString("].\n")
	return b.String()
}

// ---------- Effects (C19) ----------

// A deliberately simple, conservative syntactic analysis: for every function of pkg/ and cmd/,
// every assignment / inc-dec / delete / copy / append-to / sort-call whose target's root
// identifier is not declared inside that function (parameters and the receiver count as
// non-local when written THROUGH: `p.f = …`, `p[i] = …`, `*p = …`), and every package-level
// variable with the kind of its initialiser.
// plainLiteral: a composite literal (the caller admits slices and arrays only) built from literals
// only — no call, no function literal, no address-of, no type from sync or sync/atomic.  Such a
// value has no hidden mutable state; writes to it are reported by the write analysis.
func plainLiteral(e ast.Expr) bool {
	ok := true
	ast.Inspect(e, func(n ast.Node) bool {
		switch x := n.(type) {
		case *ast.CallExpr, *ast.FuncLit, *ast.ChanType, *ast.MapType:
			ok = false
		case *ast.UnaryExpr:
			if x.Op == token.AND || x.Op == token.ARROW {
				ok = false
			}
		case *ast.SelectorExpr:
			if id, isId := x.X.(*ast.Ident); isId && (id.Name == "sync" || id.Name == "atomic") {
				ok = false
			}
		}
		return ok
	})
	return ok
}

func genEffects() string {
	var b strings.Builder
	b.WriteString("(* GENERATED by tools/gen from /repo (pkg/**, cmd/*; tests excluded) — do not edit.\n   Write effects that can outlive a call, for C19. *)\nFrom Verif.Base Require Import Bytes.\n\n")
	b.WriteString("Inductive var_kind := VRegexp | VMapLiteral | VLiteral | VOtherVar.\nInductive write_target := WPackageVar | WThroughParam | WThroughReceiver | WUnknown.\n\n")
	var pkgVars, writes []string
	var dirs []string
	filepath.Walk(filepath.Join(repo, "pkg"), func(p string, info os.FileInfo, err error) error {
		if err == nil && info.IsDir() {
			dirs = append(dirs, p)
		}
		return nil
	})
	dirs = append(dirs, filepath.Join(repo, "cmd"))
	sort.Strings(dirs)
	nFuncs := 0
	for _, dir := range dirs {
		files, _ := filepath.Glob(filepath.Join(dir, "*.go"))
		sort.Strings(files)
		pkgLevel := map[string]bool{}
		var parsed []*ast.File
		fset := token.NewFileSet()
		for _, fn := range files {
			if strings.HasSuffix(fn, "_test.go") {
				continue
			}
			if src, err := os.ReadFile(fn); err == nil && strings.Contains(string(src), "//go:build verif") {
				continue // verification hook, not part of the normal build
			}
			f, err := parser.ParseFile(fset, fn, nil, 0)
			if err != nil {
				problems = append(problems, "error parsing "+fn)
				continue
			}
			parsed = append(parsed, f)
			for _, d := range f.Decls {
				if gd, ok := d.(*ast.GenDecl); ok && gd.Tok == token.VAR {
					for _, s := range gd.Specs {
						vs := s.(*ast.ValueSpec)
						for i, nm := range vs.Names {
							if nm.Name == "_" {
								continue // compile-time interface assertions
							}
							pkgLevel[nm.Name] = true
							kind := "VOtherVar"
							if i < len(vs.Values) {
								switch v := vs.Values[i].(type) {
								case *ast.CallExpr:
									if se, ok := v.Fun.(*ast.SelectorExpr); ok && se.Sel.Name == "MustCompile" {
										kind = "VRegexp"
									}
								case *ast.CompositeLit:
									if _, ok := v.Type.(*ast.MapType); ok {
										kind = "VMapLiteral"
									} else if _, isArr := v.Type.(*ast.ArrayType); isArr && plainLiteral(v) {
										kind = "VLiteral"
									}
								case *ast.BasicLit:
									kind = "VLiteral"
								}
							}
							rel, _ := filepath.Rel(repo, dir)
							pkgVars = append(pkgVars, fmt.Sprintf("(%s, %s, %s)", coqStr(rel), coqStr(nm.Name), kind))
						}
					}
				}
			}
		}
		for _, f := range parsed {
			for _, d := range f.Decls {
				fd, ok := d.(*ast.FuncDecl)
				if !ok || fd.Body == nil {
					continue
				}
				nFuncs++
				local := map[string]bool{}
				params := map[string]bool{}
				recv := map[string]bool{}
				if fd.Recv != nil {
					for _, fl := range fd.Recv.List {
						for _, n := range fl.Names {
							recv[n.Name] = true
						}
					}
				}
				for _, fl := range fd.Type.Params.List {
					for _, n := range fl.Names {
						params[n.Name] = true
					}
				}
				if fd.Type.Results != nil {
					for _, fl := range fd.Type.Results.List {
						for _, n := range fl.Names {
							local[n.Name] = true
						}
					}
				}
				ast.Inspect(fd.Body, func(n ast.Node) bool {
					switch x := n.(type) {
					case *ast.AssignStmt:
						if x.Tok == token.DEFINE {
							for _, l := range x.Lhs {
								if id, ok := l.(*ast.Ident); ok {
									local[id.Name] = true
								}
							}
						}
					case *ast.ValueSpec:
						for _, nm := range x.Names {
							local[nm.Name] = true
						}
					case *ast.RangeStmt:
						if x.Tok == token.DEFINE {
							for _, e := range []ast.Expr{x.Key, x.Value} {
								if id, ok := e.(*ast.Ident); ok {
									local[id.Name] = true
								}
							}
						}
					case *ast.FuncLit:
						for _, fl := range x.Type.Params.List {
							for _, nm := range fl.Names {
								local[nm.Name] = true
							}
						}
					}
					return true
				})
				classify := func(e ast.Expr) (string, bool) {
					through := false
					for {
						switch x := e.(type) {
						case *ast.SelectorExpr:
							e, through = x.X, true
							continue
						case *ast.IndexExpr:
							e, through = x.X, true
							continue
						case *ast.StarExpr:
							e, through = x.X, true
							continue
						case *ast.ParenExpr:
							e = x.X
							continue
						}
						break
					}
					id, ok := e.(*ast.Ident)
					if !ok {
						return "WUnknown", true
					}
					switch {
					case id.Name == "_":
						return "", false
					case local[id.Name]:
						return "", false // a local (or a value freshly built in this call and bound to a local)
					case recv[id.Name]:
						if through {
							return "WThroughReceiver", true
						}
						return "", false
					case params[id.Name]:
						if through {
							return "WThroughParam", true
						}
						return "", false
					case pkgLevel[id.Name]:
						return "WPackageVar", true
					}
					return "WUnknown", true
				}
				rel, _ := filepath.Rel(repo, dir)
				report := func(e ast.Expr) {
					if kind, bad := classify(e); bad {
						writes = append(writes, fmt.Sprintf("(%s, %s, %s)", coqStr(rel), coqStr(fd.Name.Name), kind))
					}
				}
				ast.Inspect(fd.Body, func(n ast.Node) bool {
					switch x := n.(type) {
					case *ast.AssignStmt:
						if x.Tok != token.DEFINE {
							for _, l := range x.Lhs {
								report(l)
							}
						}
					case *ast.IncDecStmt:
						report(x.X)
					case *ast.CallExpr:
						if id, ok := x.Fun.(*ast.Ident); ok && (id.Name == "delete" || id.Name == "copy" || id.Name == "clear") && len(x.Args) > 0 {
							// mutation of the first argument's referent
							if kind, bad := classify(&ast.IndexExpr{X: x.Args[0]}); bad {
								writes = append(writes, fmt.Sprintf("(%s, %s, %s)", coqStr(rel), coqStr(fd.Name.Name), kind))
							}
						}
						if se, ok := x.Fun.(*ast.SelectorExpr); ok {
							if p, ok := se.X.(*ast.Ident); ok && (p.Name == "sort" || p.Name == "slices") && len(x.Args) > 0 &&
								(strings.HasPrefix(se.Sel.Name, "Sort") || se.Sel.Name == "Reverse" || se.Sel.Name == "Strings" || se.Sel.Name == "Ints" || se.Sel.Name == "Slice" || se.Sel.Name == "SliceStable") {
								if kind, bad := classify(&ast.IndexExpr{X: x.Args[0]}); bad {
									writes = append(writes, fmt.Sprintf("(%s, %s, %s)", coqStr(rel), coqStr(fd.Name.Name), kind))
								}
							}
						}
					case *ast.GoStmt:
						writes = append(writes, fmt.Sprintf("(%s, %s, WUnknown)", coqStr(rel), coqStr(fd.Name.Name)))
					}
					return true
				})
			}
		}
	}
	fmt.Fprintf(&b, "(* package-level variables: (package directory, name, kind of initialiser) *)\nDefinition package_vars : list (bytes * bytes * var_kind) := [\n  %s\n].\n\n", strings.Join(pkgVars, ";\n  "))
	if len(writes) == 0 {
		b.WriteString("(* statements that write through something not local to their function: none *)\nDefinition shared_writes : list (bytes * bytes * write_target) := [].\n\n")
	} else {
		fmt.Fprintf(&b, "(* statements that write through something not local to their function *)\nDefinition shared_writes : list (bytes * bytes * write_target) := [\n  %s\n].\n\n", strings.Join(writes, ";\n  "))
	}
	fmt.Fprintf(&b, "Definition functions_analysed : nat := %d.\n\n", nFuncs)
	// uses of packages outside the pure core: every selector on an imported package that is
	// not one of fmt (without Print*/Scan*), strings, regexp, strconv, unicode, unicode/utf8,
	// slices, sort, math, math/big, math/bits, cmp, errors, bytes, maps, or the repository's own
	// packages.  A deterministic function of its arguments reads no file, clock, environment
	// or random source; C19_outside_world_uses states which such uses exist.
	pure := map[string]bool{"fmt": true, "strings": true, "regexp": true, "strconv": true, "unicode": true, "unicode/utf8": true,
		"slices": true, "sort": true, "math": true, "math/big": true, "math/bits": true, "cmp": true, "errors": true, "bytes": true, "maps": true}
	var uses []string
	seenUse := map[string]bool{}
	for _, dir := range dirs {
		files, _ := filepath.Glob(filepath.Join(dir, "*.go"))
		sort.Strings(files)
		rel, _ := filepath.Rel(repo, dir)
		for _, fn := range files {
			if strings.HasSuffix(fn, "_test.go") {
				continue
			}
			if src, err := os.ReadFile(fn); err == nil && strings.Contains(string(src), "//go:build verif") {
				continue
			}
			fset := token.NewFileSet()
			f, err := parser.ParseFile(fset, fn, nil, 0)
			if err != nil {
				continue
			}
			imported := map[string]string{} // local name -> path, for packages outside the pure core
			for _, im := range f.Imports {
				path := strings.Trim(im.Path.Value, "\"")
				if pure[path] || strings.HasPrefix(path, "github.com/alowayed/go-univers/") {
					if path != "fmt" {
						continue
					}
				}
				name := path[strings.LastIndex(path, "/")+1:]
				if im.Name != nil {
					name = im.Name.Name
				}
				imported[name] = path
			}
			add := func(fn, what string) {
				k := rel + "\x00" + fn + "\x00" + what
				if !seenUse[k] {
					seenUse[k] = true
					uses = append(uses, fmt.Sprintf("(%s, %s, %s)", coqStr(rel), coqStr(fn), coqStr(what)))
				}
			}
			visit := func(fname string, n ast.Node) {
				ast.Inspect(n, func(x ast.Node) bool {
					se, ok := x.(*ast.SelectorExpr)
					if !ok {
						return true
					}
					id, ok := se.X.(*ast.Ident)
					if !ok {
						return true
					}
					path, ok := imported[id.Name]
					if !ok || id.Obj != nil {
						return true
					}
					if path == "fmt" {
						// fmt is pure except where it touches the process's standard streams
						if strings.HasPrefix(se.Sel.Name, "Print") || strings.HasPrefix(se.Sel.Name, "Scan") {
							add(fname, "fmt."+se.Sel.Name)
						}
						return true
					}
					add(fname, path+"."+se.Sel.Name)
					return true
				})
			}
			for _, d := range f.Decls {
				switch x := d.(type) {
				case *ast.FuncDecl:
					visit(x.Name.Name, x)
				case *ast.GenDecl:
					if x.Tok != token.IMPORT {
						visit("", x)
					}
				}
			}
		}
	}
	appends := appendsToUnowned(dirs)
	if len(appends) == 0 {
		b.WriteString("(* append calls whose first argument is not a slice owned by the calling function: none *)\nDefinition appends_to_unowned : list (bytes * bytes * bytes) := [].\n\n")
	} else {
		fmt.Fprintf(&b, "(* append calls whose first argument is not a slice owned by the calling function: (package, function, argument) *)\nDefinition appends_to_unowned : list (bytes * bytes * bytes) := [\n  %s\n].\n\n", strings.Join(appends, ";\n  "))
	}
	sort.Strings(uses)
	if len(uses) == 0 {
		b.WriteString("Definition outside_world_uses : list (bytes * bytes * bytes) := [].\n")
	} else {
		fmt.Fprintf(&b, "(* (package directory, function or \"\" for a declaration, package.Name used) *)\nDefinition outside_world_uses : list (bytes * bytes * bytes) := [\n  %s\n].\n", strings.Join(uses, ";\n  "))
	}
	return b.String()
}
