// parse.go — third translation pass: the PARSERS (coq/Gen/Parse/<Pkg>.v).  It runs the machinery
// of loops.go once more, on the functions that neither Gen/Code nor Gen/Loops defines, with
// further forms switched on (lp.parse): (T, error) results as `option T`, package-level regular
// expressions as oracles (Section variables) plus a generated group count, strconv.Atoi and more
// of strings.*, fmt.Sprintf with a simple constant format, lookups in package-level map literals,
// strings.Builder.  Gen/Code and Gen/Loops are byte-for-byte what they were: every hook in
// code.go / loops.go is guarded by cp.errs / lp.parse.  See LOOPS.md, section "Parsers".
package main

import (
	"fmt"
	"go/ast"
	"go/constant"
	"go/token"
	"go/types"
	"os"
	"path/filepath"
	"regexp"
	"sort"
	"strings"
)

// names of Base/ImpErr.v, Base/Bytes.v, Base/GoNum.v that the parse pass emits
var parseReserved = map[string]bool{}

func init() {
	for _, w := range strings.Fields(`atoi fields join go_index go_last_index lookup map_get map_get2 splitn2_c replace_c
		dec_z count_c`) {
		parseReserved[w] = true
	}
}

func isErrorType(t types.Type) bool {
	return types.Identical(t, types.Universe.Lookup("error").Type())
}

func isBuilderType(t types.Type) bool {
	if p, ok := types.Unalias(t).(*types.Pointer); ok {
		t = p.Elem()
	}
	n, ok := types.Unalias(t).(*types.Named)
	return ok && n.Obj().Pkg() != nil && n.Obj().Pkg().Path() == "strings" && n.Obj().Name() == "Builder"
}

// ---------- statically tracked nil-ness ----------
//
// An error variable has no Coq counterpart: after `x, err := f(a)` the translation branches on the
// option value of f and knows in each arm whether err is nil (1) or not (2); `err != nil` is then a
// constant.  The same for `m := re.FindStringSubmatch(s)`.  A variable assigned inside a loop or
// an assign-only `if` is forgotten (a nil test of it puts the function outside the fragment).

type trackState struct {
	nilState map[types.Object]int
	poison   map[types.Object]bool
}

func (t *loopTr) saveTrack() trackState {
	s := trackState{map[types.Object]int{}, map[types.Object]bool{}}
	for k, v := range t.nilState {
		s.nilState[k] = v
	}
	for k, v := range t.poison {
		s.poison[k] = v
	}
	return s
}

func (t *loopTr) restoreTrack(s trackState) {
	t.nilState = map[types.Object]int{}
	t.poison = map[types.Object]bool{}
	for k, v := range s.nilState {
		t.nilState[k] = v
	}
	for k, v := range s.poison {
		t.poison[k] = v
	}
}

// dropTracked: error variables are not part of a loop state or of an assign-only tuple
func (t *loopTr) dropTracked(os []types.Object) []types.Object {
	var out []types.Object
	for _, o := range os {
		if !isErrorType(o.Type()) {
			out = append(out, o)
		}
	}
	return out
}

// forget: nothing is known about the nil-ness of a variable assigned in these statements
func (t *loopTr) forget(lists [][]ast.Stmt) {
	for _, o := range t.assignedOuter(lists, 1, 0) {
		delete(t.nilState, o)
	}
}

func (t *loopTr) isNil(e ast.Expr) bool {
	for {
		p, ok := e.(*ast.ParenExpr)
		if !ok {
			break
		}
		e = p.X
	}
	id, ok := e.(*ast.Ident)
	if !ok {
		return false
	}
	_, isNil := t.cp.info.ObjectOf(id).(*types.Nil)
	return isNil
}

// nilTest: e is `x == nil` / `x != nil` for a tracked x: its value
func (t *loopTr) nilTest(e ast.Expr) (val bool, is bool, err error) {
	for {
		p, ok := e.(*ast.ParenExpr)
		if !ok {
			break
		}
		e = p.X
	}
	b, ok := e.(*ast.BinaryExpr)
	if !ok || (b.Op != token.EQL && b.Op != token.NEQ) {
		return false, false, nil
	}
	other := b.X
	if t.isNil(b.X) {
		other = b.Y
	} else if !t.isNil(b.Y) {
		return false, false, nil
	}
	id, ok := other.(*ast.Ident)
	if !ok {
		return false, false, nil
	}
	o := t.cp.info.ObjectOf(id)
	st := t.nilState[o]
	if st == 0 {
		if isErrorType(o.Type()) {
			return false, true, t.errAt(e, "nil test of %s, whose value is not known statically here", id.Name)
		}
		return false, false, nil
	}
	return (st == 1) == (b.Op == token.EQL), true, nil
}

// foldNilTests: branches whose condition is a statically known nil test are resolved
func (t *loopTr) foldNilTests(brs []lbranch, els []ast.Stmt) ([]lbranch, []ast.Stmt, error) {
	var out []lbranch
	for _, b := range brs {
		if b.cond != nil {
			v, is, err := t.nilTest(b.cond)
			if err != nil {
				return nil, nil, err
			}
			if is {
				if v {
					return out, b.body, nil
				}
				continue
			}
		}
		out = append(out, b)
	}
	return out, els, nil
}

// ---------- expressions ----------

func (t *loopTr) parseExt(e ast.Expr) (string, bool, error) {
	info := t.cp.info
	switch x := e.(type) {
	case *ast.Ident:
		if o := info.ObjectOf(x); o != nil && t.poison[o] {
			return "", false, t.errAt(e, "value of %s after a failed call (not modelled)", x.Name)
		}
	case *ast.BinaryExpr:
		v, is, err := t.nilTest(x)
		if err != nil {
			return "", false, err
		}
		if is {
			if v {
				return "true", true, nil
			}
			return "false", true, nil
		}
	case *ast.IndexExpr:
		if tbl, zero, ok, err := t.mapTable(x); ok || err != nil {
			if err != nil {
				return "", false, err
			}
			k, err := t.expr(x.Index)
			if err != nil {
				return "", false, err
			}
			return app("map_get", zero, app("lookup", k, tbl)), true, nil
		}
	case *ast.CallExpr:
		// append(a, b...)
		if id, ok := x.Fun.(*ast.Ident); ok && x.Ellipsis != token.NoPos && len(x.Args) == 2 {
			if b, ok := info.ObjectOf(id).(*types.Builtin); ok && b.Name() == "append" {
				if _, isSlice := info.TypeOf(x.Args[1]).Underlying().(*types.Slice); isSlice {
					if _, err := t.cp.trType(info.TypeOf(x.Args[0])); err != nil {
						return "", false, t.errAt(e, "append to %s", err.Error())
					}
					as, err := t.args(x.Args)
					if err != nil {
						return "", false, err
					}
					return paren(as[0]) + " ++ " + paren(as[1]), true, nil
				}
			}
		}
		// b.String(), b.Len() on a strings.Builder
		if sel, ok := x.Fun.(*ast.SelectorExpr); ok && len(x.Args) == 0 {
			if s := info.Selections[sel]; s != nil && s.Kind() == types.MethodVal && isBuilderType(s.Recv()) {
				r, err := t.expr(sel.X)
				if err != nil {
					return "", false, err
				}
				switch sel.Sel.Name {
				case "String":
					return r, true, nil
				case "Len":
					return "Z.of_nat (length " + paren(r) + ")", true, nil
				}
			}
		}
	}
	return "", false, nil
}

// mapTable: x is m[k] for a package-level map literal with constant string keys and int / string
// values: the generated association list, and the zero value of the element type
func (t *loopTr) mapTable(x *ast.IndexExpr) (tbl, zero string, ok bool, err error) {
	info := t.cp.info
	mt, isMap := info.TypeOf(x.X).Underlying().(*types.Map)
	if !isMap {
		return "", "", false, nil
	}
	bad := func(why string) (string, string, bool, error) {
		return "", "", false, t.errAt(x, "map lookup (%s)", why)
	}
	id, isId := x.X.(*ast.Ident)
	if !isId {
		return bad("not a package-level map")
	}
	if t.lp.core {
		if tbl, zero, ok, err := t.localMap(x, id); ok || err != nil {
			return tbl, zero, ok, err
		}
	}
	v, isVar := info.ObjectOf(id).(*types.Var)
	if !isVar || v.Parent() != t.cp.pkg.Scope() {
		return bad("not a package-level map")
	}
	if t.kind(x.Index) != types.String {
		return bad("key type")
	}
	vt, e := t.cp.trType(mt.Elem())
	if e != nil || (vt != "Z" && vt != "bytes") {
		return bad("element type")
	}
	zero, _ = t.cp.zero(mt.Elem())
	name := mangleGlobal(id.Name + "_table")
	for t.cp.globals[name] {
		name += "_"
	}
	if t.lp.consts[name] == nil {
		lit := t.lp.varInit(v)
		cl, isLit := lit.(*ast.CompositeLit)
		if !isLit {
			return bad("the variable is not initialised by a map literal")
		}
		var rows []string
		for _, el := range cl.Elts {
			kv, isKV := el.(*ast.KeyValueExpr)
			if !isKV {
				return bad("literal entry")
			}
			ks, e1 := t.expr(kv.Key)
			vs, e2 := t.expr(kv.Value)
			if e1 != nil || e2 != nil || info.Types[kv.Key].Value == nil || info.Types[kv.Value].Value == nil {
				return bad("non-constant literal entry")
			}
			rows = append(rows, "  ("+ks+", "+vs+")")
		}
		text := fmt.Sprintf("(*@ const %s %s the map literal %s (package variable: assumed never written, see Gen/Effects) *)\nDefinition %s : list (bytes * %s) := [\n%s\n].",
			name, t.cp.position(v.Pos()), id.Name, name, vt, strings.Join(rows, ";\n"))
		if len(rows) == 0 {
			text = strings.Replace(text, "[\n\n]", "[]", 1)
		}
		t.lp.consts[name] = &loopExtern{name: name, hdr: text, ord: int(v.Pos())}
	}
	t.use(name)
	return name, zero, true, nil
}

// varInit: the initialiser of a package-level variable
func (lp *loopPkg) varInit(v *types.Var) ast.Expr {
	for _, f := range lp.cp.files {
		for _, d := range f.Decls {
			gd, ok := d.(*ast.GenDecl)
			if !ok || gd.Tok != token.VAR {
				continue
			}
			for _, sp := range gd.Specs {
				vs := sp.(*ast.ValueSpec)
				for i, id := range vs.Names {
					if lp.cp.info.Defs[id] == v && i < len(vs.Values) {
						return vs.Values[i]
					}
				}
			}
		}
	}
	return nil
}

// regexpVar: the oracle for a method of a package-level *regexp.Regexp, or "" when x is not such a call
func (t *loopTr) regexpCall(x *ast.CallExpr) (v *types.Var, method string) {
	sel, ok := x.Fun.(*ast.SelectorExpr)
	if !ok {
		return nil, ""
	}
	s := t.cp.info.Selections[sel]
	if s == nil || s.Kind() != types.MethodVal {
		return nil, ""
	}
	id, ok := sel.X.(*ast.Ident)
	if !ok {
		return nil, ""
	}
	vv, ok := t.cp.info.ObjectOf(id).(*types.Var)
	if !ok || vv.Parent() != t.cp.pkg.Scope() || types.TypeString(vv.Type(), nil) != "*regexp.Regexp" {
		return nil, ""
	}
	return vv, sel.Sel.Name
}

func (t *loopTr) regexpVar(v *types.Var, method, typ string) string {
	name := mangleGlobal(v.Name() + "_" + method)
	src := t.lp.regexpSource(v)
	t.lp.extern(name, typ, fmt.Sprintf("(*@ var %s %s regular expression %s *)", name, t.cp.position(v.Pos()), cmt(src)), -1000000+int(v.Pos()))
	t.use(name)
	if method == "FindStringSubmatch" && src != "?" {
		if re, err := regexp.Compile(src); err == nil {
			g := mangleGlobal(v.Name() + "_groups")
			if t.lp.consts[g] == nil {
				text := fmt.Sprintf("(*@ const %s %s number of capturing groups of the regular expression %s *)\nDefinition %s : nat := %d.",
					g, t.cp.position(v.Pos()), cmt(src), g, re.NumSubexp())
				t.lp.consts[g] = &loopExtern{name: g, hdr: text, ord: int(v.Pos())}
			}
			t.use(g)
		}
	}
	return name
}

// prevVars: the Section variables a definition of Gen/Loops is generalised over, declared again here
func (t *loopTr) prevVars(callee *loopFn) []string {
	var out []string
	for _, v := range callee.vars {
		from := t.lp.before
		if callee.from != nil {
			from = callee.from
		}
		ex := from.externs[v]
		if ex == nil {
			problems = append(problems, fmt.Sprintf("error parse:%s: %s of Gen/Loops depends on %s, whose declaration is not known", t.cp.tgt.mod, callee.fi.name, v))
			continue
		}
		name, hdr := v, ex.hdr
		if d := t.lp.byName[v]; d != nil && t.lp.mine(d) {
			t.lp.ensure(d)
			if d.state != 2 || d.skip == "" {
				name = mangleGlobal(v + "_pure")
				hdr = fmt.Sprintf("(*@ var %s %s total stand-in for %s, which Gen/Loops is generalised over *)", name, d.fi.pos, v)
			}
		}
		t.lp.extern(name, ex.typ, hdr, ex.ord)
		t.use(name)
		out = append(out, name)
	}
	return out
}

// libOracle: a library function without an exact counterpart in Base: a Section variable of
// its type (its meaning is an assumption of the theorems)
func (t *loopTr) libOracle(x *ast.CallExpr, fn *types.Func, q string) (string, bool, error) {
	name, typ, nvals, err := t.oracleSig(x, fn, q)
	if err != nil {
		return "", false, err
	}
	if nvals >= 0 {
		return "", false, t.errAt(x, "call of %s (error result) outside an assignment or return", q)
	}
	as, err := t.args(x.Args)
	if err != nil {
		return "", false, err
	}
	t.lp.extern(name, typ, fmt.Sprintf("(*@ var %s - library function %s: an oracle (no exact counterpart in Base) *)", name, q), -2000000)
	t.use(name)
	if len(as) == 0 {
		return name, true, nil
	}
	return app(name, as...), true, nil
}

// oracleSig: nvals = -1 for a plain result, else the number of values before the error
func (t *loopTr) oracleSig(x *ast.CallExpr, fn *types.Func, q string) (name, typ string, nvals int, err error) {
	sig := fn.Type().(*types.Signature)
	if sig.TypeParams().Len() > 0 || sig.Variadic() || sig.Recv() != nil || fn.Pkg() == nil ||
		(strings.Contains(strings.SplitN(fn.Pkg().Path(), "/", 2)[0], ".") && !t.lp.core) {
		return "", "", 0, t.errAt(x, "call of %s", q)
	}
	var ts []string
	for i := 0; i < sig.Params().Len(); i++ {
		if sg, isFn := sig.Params().At(i).Type().Underlying().(*types.Signature); isFn && t.lp.core {
			// core.go: a function argument of a library oracle is a pure function
			ct, e := t.cp.pureFuncType(sg)
			if e != nil {
				return "", "", 0, t.errAt(x, "call of %s (parameter of %s)", q, e.Error())
			}
			ts = append(ts, "("+ct+")")
			continue
		}
		ct, e := t.cp.trType(sig.Params().At(i).Type())
		if e != nil {
			return "", "", 0, t.errAt(x, "call of %s (parameter of %s)", q, e.Error())
		}
		ts = append(ts, ct)
	}
	n := sig.Results().Len()
	nvals = -1
	if n >= 1 && isErrorType(sig.Results().At(n-1).Type()) {
		n--
		nvals = n
	}
	var rs []string
	for i := 0; i < n; i++ {
		ct, e := t.cp.trType(sig.Results().At(i).Type())
		if e != nil {
			return "", "", 0, t.errAt(x, "call of %s (result of %s)", q, e.Error())
		}
		rs = append(rs, ct)
	}
	r := ""
	switch len(rs) {
	case 0:
		r = "unit"
	case 1:
		r = rs[0]
	default:
		r = "(" + strings.Join(rs, " * ") + ")"
	}
	if nvals < 0 && len(rs) == 0 {
		return "", "", 0, t.errAt(x, "call of %s (no result)", q)
	}
	if nvals >= 0 {
		r = "option " + paren(r)
	}
	ts = append(ts, r)
	return mangleGlobal(fn.Pkg().Name() + "_" + fn.Name()), strings.Join(ts, " -> "), nvals, nil
}

// parseLib: further library calls, each with an exact counterpart in Base
func (t *loopTr) parseLib(x *ast.CallExpr, fn *types.Func, q string) (string, bool, error) {
	info := t.cp.info
	fail := func(err error) (string, bool, error) { return "", false, err }
	constArg := func(i int) (string, bool) {
		if tv, ok := info.Types[x.Args[i]]; ok && tv.Value != nil && tv.Value.Kind() == constant.String {
			return constant.StringVal(tv.Value), true
		}
		return "", false
	}
	allStrings := func() bool {
		for _, a := range x.Args {
			if t.kind(a) != types.String {
				return false
			}
		}
		return true
	}
	switch q {
	case "fmt.Errorf", "errors.New":
		return fail(t.errAt(x, "error value outside a return"))
	case "strings.Compare", "cmp.Compare", "strings.HasPrefix", "strings.HasSuffix", "strings.Contains", "strings.TrimPrefix",
		"strings.TrimSuffix", "strings.ToLower", "strings.ToUpper", "strings.TrimSpace", "strconv.Itoa":
		return "", false, nil // code.go
	case "strings.Fields":
		if len(x.Args) == 1 && allStrings() {
			as, err := t.args(x.Args)
			if err != nil {
				return fail(err)
			}
			t.asciis[q] = true
			return app("fields", as[0]), true, nil
		}
	case "strings.Join":
		if len(x.Args) == 2 && t.kind(x.Args[1]) == types.String {
			as, err := t.args(x.Args)
			if err != nil {
				return fail(err)
			}
			return app("join", as[1], as[0]), true, nil
		}
	case "strings.Index":
		if len(x.Args) == 2 && allStrings() {
			as, err := t.args(x.Args)
			if err != nil {
				return fail(err)
			}
			return app("go_index", as[1], as[0]), true, nil
		}
	case "strings.ReplaceAll":
		if len(x.Args) == 3 && allStrings() {
			a, ok1 := constArg(1)
			b, ok2 := constArg(2)
			if ok1 && ok2 && len(a) == 1 && len(b) == 1 {
				s, err := t.expr(x.Args[0])
				if err != nil {
					return fail(err)
				}
				return app("replace_c", fmt.Sprintf("(chr %d)", a[0]), fmt.Sprintf("(chr %d)", b[0]), s), true, nil
			}
		}
	case "strings.SplitN":
		if len(x.Args) == 3 && t.kind(x.Args[0]) == types.String {
			sep, ok := constArg(1)
			if tv := info.Types[x.Args[2]]; ok && len(sep) == 1 && tv.Value != nil && tv.Value.String() == "2" {
				s, err := t.expr(x.Args[0])
				if err != nil {
					return fail(err)
				}
				return app("splitn2_c", fmt.Sprintf("(chr %d)", sep[0]), s), true, nil
			}
		}
	case "strings.Count":
		if len(x.Args) == 2 && allStrings() {
			if sep, ok := constArg(1); ok && len(sep) == 1 {
				s, err := t.expr(x.Args[0])
				if err != nil {
					return fail(err)
				}
				return "Z.of_nat (" + app("count_c", fmt.Sprintf("(chr %d)", sep[0]), s) + ")", true, nil
			}
		}
	case "fmt.Sprintf":
		return t.sprintf(x)
	}
	return t.libOracle(x, fn, q)
}

// sprintf: a constant format made of text, %s (string), %d (int), %v (string or int), %%
func (t *loopTr) sprintf(x *ast.CallExpr) (string, bool, error) {
	info := t.cp.info
	fail := func(why string) (string, bool, error) { return "", false, t.errAt(x, "call of fmt.Sprintf (%s)", why) }
	if len(x.Args) == 0 {
		return fail("no format")
	}
	tv := info.Types[x.Args[0]]
	if tv.Value == nil || tv.Value.Kind() != constant.String {
		return fail("format is not a constant")
	}
	f := constant.StringVal(tv.Value)
	var parts []string
	lit := ""
	flush := func() {
		if lit != "" {
			parts = append(parts, coqBytesLit(lit))
			lit = ""
		}
	}
	arg := 1
	for i := 0; i < len(f); i++ {
		if f[i] != '%' {
			lit += string(f[i])
			continue
		}
		i++
		if i >= len(f) {
			return fail("format ends in %")
		}
		if f[i] == '%' {
			lit += "%"
			continue
		}
		if arg >= len(x.Args) {
			return fail("missing argument")
		}
		a := x.Args[arg]
		arg++
		k := t.kind(a)
		_, named := types.Unalias(info.TypeOf(a)).(*types.Named)
		switch {
		case (f[i] == 's' || f[i] == 'v') && k == types.String && !named:
			flush()
			s, err := t.expr(a)
			if err != nil {
				return "", false, err
			}
			parts = append(parts, s)
		case (f[i] == 'd' || f[i] == 'v') && k == types.Int && !named:
			flush()
			s, err := t.expr(a)
			if err != nil {
				return "", false, err
			}
			parts = append(parts, app("dec_z", s))
		default:
			if t.lp.core {
				if s, ok, err := t.coreVerb(x, f[i], a); ok || err != nil {
					if err != nil {
						return "", false, err
					}
					flush()
					parts = append(parts, s)
					continue
				}
			}
			return fail(fmt.Sprintf("verb %%%c on %s", f[i], types.TypeString(info.TypeOf(a), types.RelativeTo(t.cp.pkg))))
		}
	}
	flush()
	if arg != len(x.Args) {
		return fail("extra arguments")
	}
	if len(parts) == 0 {
		return "([] : bytes)", true, nil
	}
	for i := range parts {
		parts[i] = paren(parts[i])
	}
	return strings.Join(parts, " ++ "), true, nil
}

// ---------- calls with an error result ----------

type optCall struct {
	ps    []pre
	val   string // of type option <values>
	nvals int
}

// optCallOf: a call whose last result is an error, as an option value (nil: not such a call)
func (t *loopTr) optCallOf(call *ast.CallExpr) (*optCall, error) {
	info := t.cp.info
	if t.lp.core {
		if oc, ok, err := t.coreOptCall(call); ok || err != nil {
			return oc, err
		}
	}
	if fn := t.localFunc(call); fn != nil {
		callee := t.lp.byObj[fn.Origin()]
		if callee == nil || !callee.fi.errRes {
			return nil, nil
		}
		ps, v, err := t.mexpr(call)
		if err != nil {
			return nil, err
		}
		return &optCall{ps, v, callee.fi.nvals}, nil
	}
	sel, ok := call.Fun.(*ast.SelectorExpr)
	if !ok || info.Selections[sel] != nil {
		return nil, nil
	}
	fn, _ := info.ObjectOf(sel.Sel).(*types.Func)
	if fn == nil || fn.Pkg() == nil {
		return nil, nil
	}
	sig := fn.Type().(*types.Signature)
	if n := sig.Results().Len(); n == 0 || !isErrorType(sig.Results().At(n-1).Type()) {
		return nil, nil
	}
	q := fn.Pkg().Path() + "." + fn.Name()
	if q == "fmt.Errorf" || q == "errors.New" {
		return nil, nil
	}
	// the arguments first
	var ps []pre
	nx := *call
	nx.Args = nil
	for _, a := range call.Args {
		h, p, err := t.hoist(a)
		if err != nil {
			return nil, err
		}
		ps = append(ps, p...)
		nx.Args = append(nx.Args, h)
	}
	if q == "strconv.Atoi" && len(nx.Args) == 1 {
		a, err := t.expr(nx.Args[0])
		if err != nil {
			return nil, err
		}
		return &optCall{ps, app("atoi", a), 1}, nil
	}
	name, typ, nvals, err := t.oracleSig(call, fn, q)
	if err != nil {
		return nil, err
	}
	as, err := t.args(nx.Args)
	if err != nil {
		return nil, err
	}
	t.lp.extern(name, typ, fmt.Sprintf("(*@ var %s - library function %s: an oracle (no exact counterpart in Base) *)", name, q), -2000000)
	t.use(name)
	v := name
	if len(as) > 0 {
		v = app(name, as...)
	}
	return &optCall{ps, v, nvals}, nil
}

// effectsOf: the checked primitives inside expressions whose value is not used (the arguments of
// fmt.Errorf, the values returned next to a non-nil error): they run, a panic in them is a panic
func (t *loopTr) effectsOf(es []ast.Expr) ([]pre, error) {
	var ps []pre
	for _, e := range es {
		if !t.effectful(e) {
			continue
		}
		_, p, err := t.hoist(e)
		if err != nil {
			return nil, err
		}
		ps = append(ps, p...)
	}
	return ps, nil
}

// errKind: 1 = nil, 2 = non-nil; the expressions that are evaluated for it
func (t *loopTr) errKind(e ast.Expr) (int, []ast.Expr, error) {
	for {
		p, ok := e.(*ast.ParenExpr)
		if !ok {
			break
		}
		e = p.X
	}
	if t.isNil(e) {
		return 1, nil, nil
	}
	switch x := e.(type) {
	case *ast.Ident:
		o := t.cp.info.ObjectOf(x)
		if st := t.nilState[o]; st != 0 {
			return st, nil, nil
		}
		return 0, nil, t.errAt(e, "error value %s, whose nil-ness is not known statically here", x.Name)
	case *ast.CallExpr:
		if sel, ok := x.Fun.(*ast.SelectorExpr); ok && t.cp.info.Selections[sel] == nil {
			if fn, _ := t.cp.info.ObjectOf(sel.Sel).(*types.Func); fn != nil && fn.Pkg() != nil {
				switch fn.Pkg().Path() + "." + fn.Name() {
				case "fmt.Errorf", "errors.New":
					return 2, x.Args, nil
				}
			}
		}
	}
	return 0, nil, t.errAt(e, "error value of a form outside the fragment")
}

func (t *loopTr) returnErr(x *ast.ReturnStmt, c *lctx) (string, error) {
	fi := t.fn.fi
	if len(x.Results) == 1 {
		if call, ok := x.Results[0].(*ast.CallExpr); ok {
			oc, err := t.optCallOf(call)
			if err != nil {
				return "", err
			}
			if oc != nil {
				if oc.nvals != fi.nvals {
					return "", t.errAt(x, "return of a call with %d values", oc.nvals)
				}
				return seq(oc.ps, c.ret(oc.val)), nil
			}
		}
	}
	if len(x.Results) != fi.nvals+1 {
		return "", t.errAt(x, "return of %d values", len(x.Results))
	}
	vals, e := x.Results[:fi.nvals], x.Results[fi.nvals]
	kind, evald, err := t.errKind(e)
	if err != nil {
		return "", err
	}
	if kind == 2 {
		ps, err := t.effectsOf(append(append([]ast.Expr{}, vals...), evald...))
		if err != nil {
			return "", err
		}
		return seq(ps, c.ret("None")), nil
	}
	var ps []pre
	var vs []string
	for _, re := range vals {
		p, v, err := t.mexpr(re)
		if err != nil {
			return "", err
		}
		ps = append(ps, p...)
		vs = append(vs, v)
	}
	v := "tt"
	switch len(vs) {
	case 0:
	case 1:
		v = vs[0]
	default:
		v = "(" + strings.Join(vs, ", ") + ")"
	}
	return seq(ps, c.ret(app("Some", v))), nil
}

// ---------- assignments ----------

func (t *loopTr) parseAssign(x *ast.AssignStmt, target func(ast.Expr) (string, error), rest []ast.Stmt, c *lctx) (string, bool, error) {
	info := t.cp.info
	if (x.Tok != token.DEFINE && x.Tok != token.ASSIGN) || len(x.Rhs) != 1 {
		return "", false, nil
	}
	fail := func(err error) (string, bool, error) { return "", false, err }
	blank := func(e ast.Expr) bool { id, ok := e.(*ast.Ident); return ok && id.Name == "_" }
	// v, ok := m[k]
	if ix, ok := x.Rhs[0].(*ast.IndexExpr); ok && len(x.Lhs) == 2 {
		if _, isMap := info.TypeOf(ix.X).Underlying().(*types.Map); isMap {
			ps, k, err := t.mexpr(ix.Index)
			if err != nil {
				return fail(err)
			}
			tbl, zero, _, err := t.mapTable(ix)
			if err != nil {
				return fail(err)
			}
			var names []string
			for _, l := range x.Lhs {
				n, err := target(l)
				if err != nil {
					return fail(err)
				}
				names = append(names, n)
			}
			r, err := t.lstmts(rest, c)
			if err != nil {
				return fail(err)
			}
			return seq(ps, fmt.Sprintf("let '(%s) := %s in\n%s", strings.Join(names, ", "), app("map_get2", zero, app("lookup", k, tbl)), r)), true, nil
		}
	}
	call, ok := x.Rhs[0].(*ast.CallExpr)
	if !ok {
		return "", false, nil
	}
	// m := re.FindStringSubmatch(s)
	if v, method := t.regexpCall(call); v != nil && method == "FindStringSubmatch" && len(x.Lhs) == 1 && len(call.Args) == 1 {
		ps, a, err := t.mexpr(call.Args[0])
		if err != nil {
			return fail(err)
		}
		name := t.regexpVar(v, method, "bytes -> option (list bytes)")
		n, err := target(x.Lhs[0])
		if err != nil {
			return fail(err)
		}
		var o types.Object
		if id, ok := x.Lhs[0].(*ast.Ident); ok && id.Name != "_" {
			o = info.ObjectOf(id)
		}
		sv := t.saveTrack()
		if o != nil {
			t.nilState[o] = 1
		}
		none, err := t.lstmts(rest, c)
		t.restoreTrack(sv)
		if err != nil {
			return fail(err)
		}
		if o != nil {
			t.nilState[o] = 2
		}
		some, err := t.lstmts(rest, c)
		t.restoreTrack(sv)
		if err != nil {
			return fail(err)
		}
		if err := t.grow(x, none+some); err != nil {
			return fail(err)
		}
		return seq(ps, fmt.Sprintf("match %s with\n| None =>\n%s\n| Some %s =>\n%s\nend", app(name, a),
			indent(fmt.Sprintf("let %s := ([] : list bytes) in\n%s", n, none)), n, indent(some))), true, nil
	}
	// x, err := f(a)
	if len(x.Lhs) == 2 && blank(x.Lhs[1]) {
		if sel, ok := call.Fun.(*ast.SelectorExpr); ok {
			if fn, _ := info.ObjectOf(sel.Sel).(*types.Func); fn != nil && fn.Pkg() != nil && fn.Pkg().Path()+"."+fn.Name() == "strconv.Atoi" {
				return "", false, nil // loops.go: atoi_sat
			}
		}
	}
	oc, err := t.optCallOf(call)
	if err != nil {
		return fail(err)
	}
	if oc == nil {
		return "", false, nil
	}
	if len(x.Lhs) != oc.nvals+1 {
		return fail(t.errAt(x, "assignment of a call with %d values and an error to %d variables", oc.nvals, len(x.Lhs)))
	}
	var errObj types.Object
	el := x.Lhs[oc.nvals]
	if id, ok := el.(*ast.Ident); !ok {
		return fail(t.errAt(x, "assignment of an error to a non-local"))
	} else if id.Name != "_" {
		errObj = info.ObjectOf(id)
		if v, isVar := errObj.(*types.Var); !isVar || v.Parent() == t.cp.pkg.Scope() || !isErrorType(v.Type()) {
			return fail(t.errAt(x, "assignment of an error to %s", id.Name))
		}
	}
	// the failing arm first: the values Go assigns there are not modelled
	sv := t.saveTrack()
	var escape []string
	zeroLets := ""
	zeros := t.lp.core && t.zeroOnErr(call)
	for _, l := range x.Lhs[:oc.nvals] {
		id, ok := l.(*ast.Ident)
		if !ok {
			return fail(t.errAt(x, "assignment to a non-local (field, element or pointer target)"))
		}
		if id.Name == "_" {
			continue
		}
		o := info.ObjectOf(id)
		if zeros {
			// core.go: every failing return of the callee returns zero values: they are what Go assigns here
			if z, err := t.cp.zero(o.Type()); err == nil {
				n, err := target(l)
				if err != nil {
					return fail(err)
				}
				zeroLets += fmt.Sprintf("let %s := %s in\n", n, z)
				continue
			}
		}
		t.poison[o] = true
		if n, known := t.names[o]; known {
			escape = append(escape, n)
		}
	}
	if errObj != nil {
		t.nilState[errObj] = 2
	}
	none, err := t.lstmts(rest, c)
	none = zeroLets + none
	t.restoreTrack(sv)
	if err != nil {
		return fail(err)
	}
	for _, n := range escape {
		if regexp.MustCompile(`(^|[^A-Za-z0-9_'])` + regexp.QuoteMeta(n) + `($|[^A-Za-z0-9_'])`).MatchString(none) {
			return fail(t.errAt(x, "value of %s after a failed call (not modelled)", n))
		}
	}
	var names []string
	for _, l := range x.Lhs[:oc.nvals] {
		n, err := target(l)
		if err != nil {
			return fail(err)
		}
		names = append(names, n)
	}
	if errObj != nil {
		t.nilState[errObj] = 1
	}
	some, err := t.lstmts(rest, c)
	t.restoreTrack(sv)
	if err != nil {
		return fail(err)
	}
	if err := t.grow(x, none+some); err != nil {
		return fail(err)
	}
	pat := "_"
	switch len(names) {
	case 0:
	case 1:
		pat = names[0]
	default:
		pat = "(" + strings.Join(names, ", ") + ")"
	}
	return seq(oc.ps, fmt.Sprintf("match %s with\n| None =>\n%s\n| Some %s =>\n%s\nend", oc.val, indent(none), pat, indent(some))), true, nil
}

// exprStmt: b.WriteString(s), b.WriteByte(c) on a local strings.Builder (a bytes accumulator)
func (t *loopTr) exprStmt(x *ast.ExprStmt, rest []ast.Stmt, c *lctx) (string, error) {
	if t.lp.core {
		if s, ok, err := t.coreExprStmt(x, rest, c); ok || err != nil {
			return s, err
		}
	}
	recv, method, arg := builderWrite(t.cp.info, x)
	if recv == nil {
		return "", t.errAt(x, "expression statement (effect)")
	}
	cur, err := t.expr(recv)
	if err != nil {
		return "", err
	}
	ps, a, err := t.mexpr(arg)
	if err != nil {
		return "", err
	}
	var v string
	switch method {
	case "WriteString":
		v = paren(cur) + " ++ " + paren(a)
	case "WriteByte":
		v = paren(cur) + " ++ [" + a + "]"
	case "WriteRune":
		// the UTF-8 encoding of a rune has no counterpart in Base: an oracle for the new content
		name := "strings_Builder_WriteRune"
		t.lp.extern(name, "bytes -> Z -> bytes", fmt.Sprintf("(*@ var %s - library method strings.Builder.WriteRune (content before, rune; the content after): an oracle *)", name), -2000000)
		t.use(name)
		v = app(name, cur, a)
	default:
		return "", t.errAt(x, "strings.Builder.%s", method)
	}
	r, err := t.lstmts(rest, c)
	if err != nil {
		return "", err
	}
	return seq(ps, fmt.Sprintf("let %s := %s in\n%s", cur, v, r)), nil
}

// builderWrite: s is `b.M(arg)` for a local variable b of type strings.Builder
func builderWrite(info *types.Info, s ast.Stmt) (*ast.Ident, string, ast.Expr) {
	es, ok := s.(*ast.ExprStmt)
	if !ok {
		return nil, "", nil
	}
	call, ok := es.X.(*ast.CallExpr)
	if !ok || len(call.Args) != 1 {
		return nil, "", nil
	}
	sel, ok := call.Fun.(*ast.SelectorExpr)
	if !ok {
		return nil, "", nil
	}
	id, ok := sel.X.(*ast.Ident)
	if !ok {
		return nil, "", nil
	}
	if s := info.Selections[sel]; s == nil || s.Kind() != types.MethodVal || !isBuilderType(s.Recv()) {
		return nil, "", nil
	}
	return id, sel.Sel.Name, call.Args[0]
}

// ---------- rendering ----------

func (lp *loopPkg) parseHeader() string {
	cp := lp.cp
	var b strings.Builder
	fmt.Fprintf(&b, "(* Generated by tools/gen (parse.go) from %s on every run -- do not edit.\n", cp.tgt.dir)
	b.WriteString("   Translation of the parsers -- the functions with an error result, regular expressions and\n   further library calls that neither Gen/Code nor Gen/Loops defines -- into the imperative layer\n   Base/Imp.v (tools/gen/LOOPS.md, section Parsers): (T, error) is option T, a regular expression\n   is an oracle (Section variable) with a generated group count, a panic is Panic, a loop takes fuel. *)\n")
	b.WriteString("From Coq Require Import ZArith List Ascii String Bool.\n")
	b.WriteString("From Verif.Base Require Import Bytes GoNum GoOps Imp ImpErr.\n")
	fmt.Fprintf(&b, "From Verif.Gen.Code Require Import %s.\n", cp.tgt.mod)
	fmt.Fprintf(&b, "From Verif.Gen.Loops Require Import %s.\n", cp.tgt.mod)
	b.WriteString("Import ListNotations.\nLocal Open Scope Z_scope.\nLocal Open Scope imp_scope.\n\n")
	return b.String()
}

// constDecls: the generated constants the definitions name (from this run, else from the snapshot)
func (lp *loopPkg) constDecls(needed map[string]bool, snap map[string]*snapItem) (string, map[string]bool) {
	type cd struct {
		text string
		ord  int
		name string
	}
	var cds []cd
	have := map[string]bool{}
	for name, c := range lp.consts {
		if needed[name] {
			cds = append(cds, cd{c.hdr, c.ord, name})
			have[name] = true
		}
	}
	for u := range needed {
		if have[u] {
			continue
		}
		if it := snap["const "+u]; it != nil {
			cds = append(cds, cd{"(* FALLBACK constant " + u + ": definition of the snapshot *)\n" + it.text, 1 << 30, u})
			have[u] = true
		}
	}
	sort.Slice(cds, func(i, j int) bool {
		if cds[i].ord != cds[j].ord {
			return cds[i].ord < cds[j].ord
		}
		return cds[i].name < cds[j].name
	})
	var b strings.Builder
	for _, c := range cds {
		b.WriteString(c.text + "\n\n")
	}
	return b.String(), have
}

func genParse() {
	os.MkdirAll(filepath.Join(outDir, "Parse"), 0o755)
	want := map[string]bool{}
	for _, cp := range loadedPkgs {
		before := loopPasses[cp]
		if before == nil {
			continue
		}
		file := "Parse/" + cp.tgt.mod + ".v"
		want[cp.tgt.mod+".v"] = true
		var snap map[string]*snapItem
		if src, ok := snapFile(file); ok {
			snap = parseSnapItems(src)
		}
		cp.wide, cp.errs = true, true
		lp := &loopPkg{cp: cp, byObj: map[*types.Func]*loopFn{}, byName: map[string]*loopFn{}, externs: map[string]*loopExtern{},
			parse: true, before: before, consts: map[string]*loopExtern{}, snap: snap}
		for _, c := range cp.funcs {
			var fn *loopFn
			if pf := before.byName[c.name]; pf != nil && pf.inLoops {
				fn = &loopFn{code: c, fi: pf.fi, state: 2, mode: pf.mode, ascii: pf.ascii, prev: true, vars: pf.vars}
			} else {
				fi := &funcInfo{decl: c.decl, obj: c.obj, name: c.name, pos: c.pos}
				cp.signature(fi)
				fn = &loopFn{code: c, fi: fi}
			}
			lp.fns = append(lp.fns, fn)
			lp.byObj[c.obj] = fn
			lp.byName[c.name] = fn
		}
		for _, fn := range lp.fns {
			if lp.mine(fn) {
				lp.ensure(fn)
			}
		}
		out, tr, sk := lp.render(snap)
		cp.wide, cp.errs = false, false
		write(file, out)
		fmt.Printf("parse: %s translated=%d skipped=%d\n", cp.tgt.dir, tr, sk)
		if cp.tgt.core {
			genCore(cp, lp, want)
		}
	}
	if snapDir != "" {
		if ents, err := os.ReadDir(filepath.Join(snapDir, "Parse")); err == nil {
			for _, e := range ents {
				if strings.HasSuffix(e.Name(), ".v") && !want[e.Name()] {
					src, _ := snapFile("Parse/" + e.Name())
					write("Parse/"+e.Name(), "(* FALLBACK: package not located; file of the snapshot *)\n"+src)
					fallbacks = append(fallbacks, "parse:"+strings.TrimSuffix(e.Name(), ".v")+" (package not located)")
					want[e.Name()] = true
				}
			}
		}
	}
	if ents, err := os.ReadDir(filepath.Join(outDir, "Parse")); err == nil {
		for _, e := range ents {
			if strings.HasSuffix(e.Name(), ".v") && !want[e.Name()] {
				os.Remove(filepath.Join(outDir, "Parse", e.Name()))
				fmt.Println("removed Parse/" + e.Name())
			}
		}
	}
}
